"""Abstract values of the E3 interpreter (immutable except Obj, which lives in a
state's heap)."""

INF = float("inf")


class Val:
    kind = "?"
    sym = None

    def definite(self):
        return True


class TopV(Val):
    kind = "top"

    count = 0     # unknown values created so far in this process (the engine's completeness
    recent = []   # guard compares the count before and after its fixpoint); the last reasons

    def __init__(self, why="", sym=None):
        self.why = why
        self.sym = sym or ("top", why)
        TopV.count += 1
        TopV.recent.append(why)
        if len(TopV.recent) > 200:
            del TopV.recent[:100]

    def __repr__(self):
        return "TOP({})".format(self.why)


class NoneV(Val):
    kind = "none"
    sym = ("const", None)

    def __repr__(self):
        return "None"


NONE = NoneV()


class IntV(Val):
    kind = "int"

    def __init__(self, lo, hi, sym=None):
        self.lo = lo
        self.hi = hi
        self.sym = sym if sym is not None else (("const", lo) if lo == hi else ("int?",))

    def is_const(self):
        return self.lo == self.hi

    def with_range(self, lo, hi):
        return IntV(lo, hi, self.sym)

    def __repr__(self):
        if self.lo == self.hi:
            return "{}".format(self.lo)
        return "[{},{}]".format(self.lo, self.hi)


class FloatV(Val):
    kind = "float"

    def __init__(self, sym=None):
        self.sym = sym or ("float?",)


class BoolV(Val):
    kind = "bool"

    def __init__(self, value, sym=None):
        self.value = value      # True / False / None (unknown)
        self.sym = sym if sym is not None else ("const", value)

    def __repr__(self):
        return "Bool({})".format(self.value)


class StrV(Val):
    kind = "str"

    def __init__(self, vals, sym=None, nonempty=None, group=None):
        self.vals = frozenset(vals) if vals is not None else None   # None = any string
        self.sym = sym if sym is not None else (
            ("const", next(iter(self.vals))) if self.vals is not None and len(self.vals) == 1
            else ("str?",))
        if nonempty is None:
            nonempty = self.vals is not None and all(v != "" for v in self.vals)
        self.nonempty = nonempty
        self.group = group      # (pattern text, group name) for regex captures

    def is_const(self):
        return self.vals is not None and len(self.vals) == 1

    def const(self):
        return next(iter(self.vals))

    def __repr__(self):
        if self.vals is None:
            return "Str(*{})".format("+" if self.nonempty else "")
        return "Str({})".format(sorted(self.vals)[:6])


class RefV(Val):
    kind = "ref"

    def __init__(self, oid):
        self.oid = oid
        self.sym = ("obj", oid)

    def __repr__(self):
        return "Ref({})".format(self.oid)


class UnionV(Val):
    """Storage-only: a slot that may hold one of several definite alternatives."""
    kind = "union"

    def __init__(self, alts):
        self.alts = list(alts)

    def definite(self):
        return False

    def __repr__(self):
        return "Union({})".format(self.alts)


class DTV(Val):
    """datetime value: symbolic identity + what is known about its fields."""
    kind = "dt"

    def __init__(self, sym, base=None, deltas=(), fields=None):
        self.sym = sym
        self.base = base if base is not None else sym
        self.deltas = tuple(deltas)     # sequence of RDV applied to base
        self.fields = fields or {}

    def __repr__(self):
        return "DT({} +{})".format(self.base, len(self.deltas))


class DateV(Val):
    kind = "date"

    def __init__(self, dt):
        self.dt = dt
        self.sym = ("date", dt.sym)


class RDV(Val):
    """relativedelta / timedelta construction."""
    kind = "rd"

    def __init__(self, abs_, rel, sym=None):
        self.abs = dict(abs_)
        self.rel = dict(rel)
        self.sym = sym or ("rd", tuple(sorted((k, v.sym) for k, v in self.abs.items())),
                           tuple(sorted((k, v.sym) for k, v in self.rel.items())))

    def __repr__(self):
        return "RD(abs={}, rel={})".format(self.abs, self.rel)


class TDV(Val):
    """timedelta from datetime - datetime."""
    kind = "td"

    def __init__(self, a, b):
        self.a = a
        self.b = b
        self.sym = ("td", a.sym, b.sym)


class MatchV(Val):
    kind = "match"

    def __init__(self, oid):
        self.oid = oid          # oid of the RegexMatch object
        self.sym = ("match", oid)


class EnumV(Val):
    kind = "enum"

    def __init__(self, cls, names, sym=None):
        self.cls = cls
        self.names = frozenset(names)
        self.sym = sym if sym is not None else (
            ("const", (cls, next(iter(self.names)))) if len(self.names) == 1 else ("enum?", cls))

    def __repr__(self):
        return "Enum({}:{})".format(self.cls, sorted(self.names))


class TupleV(Val):
    kind = "tuple"

    def __init__(self, items, is_list=False):
        self.items = list(items)
        self.is_list = is_list
        self.sym = ("tuple", tuple(getattr(i, "sym", None) for i in self.items))

    def __repr__(self):
        return "Tuple({})".format(self.items)


class NamedTupleV(TupleV):
    """a typing.NamedTuple value folded at import time: a tuple with field names and its class"""

    def __init__(self, items, names, cref):
        TupleV.__init__(self, items, False)
        self.names = list(names)
        self.cref = cref


class DictV(Val):
    kind = "dict"

    def __init__(self, items, name=None):
        self.items = items      # list of (key Val, value Val)
        self.name = name
        self.sym = ("dict", name)


class PyV(Val):
    """A folded concrete Python container kept as is (tables)."""
    kind = "py"

    def __init__(self, value, name=None):
        self.value = value
        self.name = name
        self.sym = ("table", name)

    def __repr__(self):
        return "Py({})".format(self.name)


class FuncV(Val):
    kind = "func"

    def __init__(self, mod, node, frame_depth=None, bound_self=None, closure=None):
        self.mod = mod
        self.node = node
        self.frame_depth = frame_depth
        self.bound_self = bound_self
        self.closure = closure
        self.sym = ("func", node.name)

    def __repr__(self):
        return "Func({})".format(self.node.name)


class PartialV(Val):
    """functools.partial(f, *args, **kwargs)"""
    kind = "partial"

    def __init__(self, fv, args, kwargs):
        self.fv = fv
        self.args = list(args)
        self.kwargs = dict(kwargs)
        self.sym = ("partial", getattr(fv, "sym", None))


class GetterV(Val):
    """operator.attrgetter(names...)"""
    kind = "attrgetter"

    def __init__(self, names):
        self.names = list(names)
        self.sym = ("attrgetter",) + tuple(names)


class ClassV(Val):
    kind = "class"

    def __init__(self, mod, node):
        self.mod = mod
        self.node = node
        self.name = node.name
        self.sym = ("class", node.name)

    def __repr__(self):
        return "Class({})".format(self.name)


class GroupDictV(Val):
    """match.groupdict(): the named groups of one match, read like match.group(name)."""
    kind = "groupdict"

    def __init__(self, match):
        self.match = match
        self.sym = ("groupdict", getattr(match, "sym", None))


class ExtV(Val):
    """External library symbol or builtin known by name."""
    kind = "ext"

    def __init__(self, name, bound=None):
        self.name = name
        self.bound = bound
        self.sym = ("ext", name)

    def __repr__(self):
        return "Ext({})".format(self.name)


class RRuleV(Val):
    kind = "rrule"

    def __init__(self, sym, kwargs):
        self.sym = sym
        self.kwargs = kwargs


class Obj:
    """Abstract instance of a package class (lives in a State's heap)."""

    def __init__(self, oid, cls, sym, fresh):
        self.oid = oid
        self.cls = cls          # ClassV
        self.sym = sym
        self.fresh = fresh
        self.attrs = {}
        self.cal = None         # calendar flag for Time-like objects
        self.site = None

    def copy(self):
        o = Obj(self.oid, self.cls, self.sym, self.fresh)
        o.attrs = dict(self.attrs)
        o.cal = self.cal
        o.site = self.site
        o.copied_from = getattr(self, "copied_from", None)
        return o

    def __repr__(self):
        return "<{}#{} {}>".format(self.cls.name, self.oid, self.attrs)


def sym_mentions(sym, target):
    """Does the nested-tuple sym mention target (a sym) anywhere?"""
    if sym == target:
        return True
    if isinstance(sym, tuple):
        return any(sym_mentions(s, target) for s in sym)
    return False
