"""E1 — program model: modules, symbol resolution, constant folder, rule table.

Nothing from /repo is imported or executed by the interpreter.  Module-level
*pure* initialisers (string tables, joins, formats, the part-of-day flattening
helper) are folded by a small evaluator over a whitelisted Python subset; anything
outside the subset folds to UNKNOWN and the obligations that depend on it become
UNDECIDED.
"""
import ast
import os

from .core import AnalysisError, Undecided


class Unknown:
    def __init__(self, why=""):
        self.why = why

    def __repr__(self):
        return "UNKNOWN({})".format(self.why)


class EnumVal:
    """Member of an enum class read from the class body."""

    def __init__(self, cls, name, value):
        self.cls = cls
        self.name = name
        self.value = value

    def __repr__(self):
        return "{}.{}".format(self.cls, self.name)

    def __eq__(self, other):
        return isinstance(other, EnumVal) and (self.cls, self.name) == (other.cls, other.name)

    def __hash__(self):
        return hash((self.cls, self.name))


class ClassRef:
    def __init__(self, mod, node):
        self.mod = mod
        self.node = node
        self.name = node.name
        self.members = {}

    def __repr__(self):
        return "<class {}>".format(self.name)


class FuncRef:
    def __init__(self, mod, node, closure=None):
        self.mod = mod
        self.node = node
        self.name = node.name
        self.closure = closure

    def __repr__(self):
        return "<func {}>".format(self.name)


import collections as _collections


class Opaque:
    """A value we know by role only (compiled pattern, logger, imported lib symbol)."""

    def __init__(self, kind, info=None):
        self.kind = kind
        self.info = info

    def __repr__(self):
        return "<opaque {} {}>".format(self.kind, self.info)


class Mod:
    def __init__(self, name, path, rel, src):
        self.name = name
        self.path = path
        self.rel = rel
        self.src = src
        from .desugar import desugar
        self.tree = desugar(ast.parse(src, filename=path))
        self.is_pkg = os.path.basename(path) == "__init__.py"
        for node in ast.walk(self.tree):
            for ch in ast.iter_child_nodes(node):
                ch._parent = node
        self.funcs = {}     # qualified name -> FunctionDef
        self.classes = {}   # name -> ClassDef
        self._index()

    def _index(self):
        def visit(body, prefix, cls):
            for st in body:
                if isinstance(st, (ast.FunctionDef, ast.AsyncFunctionDef)):
                    q = prefix + st.name
                    st._qual = q
                    st._cls = cls
                    self.funcs[q] = st
                    visit(st.body, q + ".", None)
                elif isinstance(st, ast.ClassDef):
                    self.classes[prefix + st.name] = st
                    visit(st.body, prefix + st.name + ".", st.name)
                elif isinstance(st, (ast.If, ast.For, ast.While, ast.With, ast.Try)):
                    for fld in ("body", "orelse", "finalbody"):
                        visit(getattr(st, fld, []) or [], prefix, cls)
                    for h in getattr(st, "handlers", []) or []:
                        visit(h.body, prefix, cls)
        visit(self.tree.body, "", None)

    def where(self, node):
        return "{}:{}".format(getattr(node, "_origin_rel", None) or self.rel, getattr(node, "lineno", 0))

    def func(self, qual):
        f = self.funcs.get(qual)
        if f is None:
            raise AnalysisError("anchor vanished: function {} in {}".format(qual, self.rel))
        return f

    def seg(self, node):
        try:
            return ast.get_source_segment(self.src, node) or ""
        except Exception:
            return ""


class StepBudget(Exception):
    pass


class _Raised(Exception):
    """a raise statement met while folding a function body"""

    def __init__(self, what):
        Exception.__init__(self, what)
        self.what = what


class Record:
    """An object with known attribute values, for simulated runs (read-only attributes)."""

    def __init__(self, **fields):
        self.fields = fields

    def __repr__(self):
        return "<record {}>".format(sorted(self.fields))


class NTValue(tuple):
    """A typing.NamedTuple instance built at fold time: a tuple with named fields and the class
    whose methods / properties apply to it."""

    def __new__(cls, values, names, cref):
        o = tuple.__new__(cls, values)
        o.names = list(names)
        o.cls = cref
        return o

    def method(self, name):
        for st in self.cls.node.body:
            if isinstance(st, ast.FunctionDef) and st.name == name:
                return st
        return None


class FoldMatch:
    """A regex match computed by the analysis's own matcher (e2.preferred_match) for a folded call
    of <compiled pattern>.match / fullmatch(text)."""

    def __init__(self, text, end, caps, ngroups, names):
        self.text = text
        self.end = end
        self.caps = caps
        self.ngroups = ngroups
        self.names = names        # name -> index

    def _get(self, k):
        if isinstance(k, str):
            k = self.names.get(k)
        if k == 0:
            return self.text[:self.end]
        if k in self.caps:
            a, b = self.caps[k]
            return self.text[a:b]
        return None

    def call(self, attr, args):
        if attr == "group":
            if not args:
                return self._get(0)
            vals = [self._get(a) for a in args]
            return vals[0] if len(vals) == 1 else tuple(vals)
        if attr == "groups":
            return tuple(self._get(i) for i in range(1, self.ngroups + 1))
        if attr == "groupdict":
            return {n: self._get(i) for n, i in self.names.items()}
        if attr in ("end",):
            return self.end
        if attr in ("start",):
            return 0
        if attr == "span":
            return (0, self.end)
        raise Undecided("match." + attr)


class Probe:
    """Stand-in for the result of an external call in a simulated run (PureEval.ext_hook):
    records how it was made; every method call on it answers *answer*."""

    def __init__(self, label, args, kwargs, answer=None):
        self.label = label
        self.args = args
        self.kwargs = kwargs
        self.answer = answer

    def __repr__(self):
        return "<probe {}>".format(self.label)


class _Return(Exception):
    def __init__(self, v):
        self.v = v


class _Break(Exception):
    pass


class _Continue(Exception):
    pass


class Model:
    PKG = "ctparse"

    def __init__(self, root):
        self.root = root
        self.mods = {}
        self._env = {}
        self._folding = set()
        self._load()

    # ------------------------------------------------------------------
    def _load(self):
        pkg = os.path.join(self.root, self.PKG)
        if not os.path.isdir(pkg):
            raise AnalysisError("package directory {} missing".format(pkg))
        for dp, dn, fn in os.walk(pkg):
            dn[:] = [d for d in dn if d not in ("__pycache__", "models")]
            for f in sorted(fn):
                if not f.endswith(".py"):
                    continue
                path = os.path.join(dp, f)
                rel = os.path.relpath(path, self.root)
                parts = rel[:-3].split(os.sep)
                if parts[-1] == "__init__":
                    parts = parts[:-1]
                name = ".".join(parts)
                with open(path, encoding="utf-8") as fd:
                    src = fd.read()
                try:
                    self.mods[name] = Mod(name, path, rel, src)
                except SyntaxError as e:
                    raise AnalysisError("cannot parse {}: {}".format(rel, e))
        sdir = os.path.join(self.root, "scripts")
        if os.path.isdir(sdir):
            for f in sorted(os.listdir(sdir)):
                if f.endswith(".py"):
                    path = os.path.join(sdir, f)
                    rel = os.path.relpath(path, self.root)
                    with open(path, encoding="utf-8") as fd:
                        src = fd.read()
                    try:
                        self.mods["scripts." + f[:-3]] = Mod("scripts." + f[:-3], path, rel, src)
                    except SyntaxError as e:
                        raise AnalysisError("cannot parse {}: {}".format(rel, e))

    def mod(self, name):
        m = self.mods.get(name)
        if m is None:
            raise AnalysisError("anchor vanished: module {}".format(name))
        return m

    def digest(self):
        import hashlib
        h = hashlib.sha256()
        for n in sorted(self.mods):
            h.update(n.encode())
            h.update(self.mods[n].src.encode())
        return h.hexdigest()

    # ------------------------------------------------------------------
    # import resolution
    def resolve_import(self, mod, node):
        """For an ImportFrom in *mod* return the absolute module name or None."""
        if node.level:
            base = mod.name.split(".")
            if not mod.is_pkg:
                base = base[:-1]
            if node.level > 1:
                base = base[: len(base) - (node.level - 1)]
            full = ".".join(base + ([node.module] if node.module else []))
        else:
            full = node.module or ""
        return full

    # ------------------------------------------------------------------
    # constant folding of module bodies
    def env(self, modname):
        if modname in self._env:
            return self._env[modname]
        mod = self.mod(modname)
        env = {}
        self._env[modname] = env
        self._folding.add(modname)
        ev = PureEval(self, mod, env)
        ev.run_module()
        self._folding.discard(modname)
        return env

    def const(self, modname, name):
        env = self.env(modname)
        if name not in env:
            raise AnalysisError("anchor vanished: {}.{}".format(modname, name))
        return env[name]

    # ------------------------------------------------------------------
    def all_functions(self, pkg_only=True):
        for mn, m in self.mods.items():
            if pkg_only and not mn.startswith(self.PKG):
                continue
            for q, f in m.funcs.items():
                yield m, q, f


_SAFE_STR_METHODS = {"join", "format", "lower", "upper", "strip", "replace", "split",
                     "startswith", "endswith", "title", "lstrip", "rstrip"}


class PureEval:
    """Evaluator for the pure subset used by module-level initialisers."""
    ext_hook = None
    globals_decl = None
    allow_methods = False

    def __init__(self, model, mod, env, budget=400000):
        self.model = model
        self.mod = mod
        self.genv = env
        self.budget = budget
        self.ext_hook = None      # (callee Opaque, attr, args, kwargs) -> value | NotImplemented
        self.globals_decl = None  # names declared global in the function being simulated

    # -- module level -----------------------------------------------------
    def run_module(self):
        for st in self.mod.tree.body:
            try:
                self.exec_top(st)
            except (Undecided, StepBudget) as e:
                for n in _assigned_names(st):
                    self.genv[n] = Unknown(str(e))

    def exec_top(self, st):
        env = self.genv
        if isinstance(st, ast.ImportFrom):
            full = self.model.resolve_import(self.mod, st)
            if full.split(".")[0] in (self.model.PKG,) and (full in self.model.mods):
                if full in self.model._folding and full != self.mod.name:
                    src_env = self.model._env.get(full, {})
                else:
                    src_env = self.model.env(full)
                for a in st.names:
                    if a.name == "*":
                        for k, v in list(src_env.items()):
                            if not k.startswith("_"):
                                env.setdefault(k, v)
                        continue
                    if a.name in src_env:
                        env[a.asname or a.name] = src_env[a.name]
                    elif (full + "." + a.name) in self.model.mods:
                        env[a.asname or a.name] = Opaque("module", full + "." + a.name)
                    else:
                        env[a.asname or a.name] = Unknown("import cycle or missing " + a.name)
            else:
                for a in st.names:
                    env[a.asname or a.name] = Opaque("ext", (full, a.name))
            return
        if isinstance(st, ast.Import):
            for a in st.names:
                env[(a.asname or a.name).split(".")[0]] = Opaque("extmod", a.name)
            return
        if isinstance(st, (ast.FunctionDef, ast.AsyncFunctionDef)):
            env[st.name] = FuncRef(self.mod, st)
            return
        if isinstance(st, ast.ClassDef):
            c = ClassRef(self.mod, st)
            is_enum = any("Enum" in ast.dump(b) for b in st.bases)
            if is_enum:
                for s in st.body:
                    if isinstance(s, ast.Assign) and len(s.targets) == 1 and \
                            isinstance(s.targets[0], ast.Name):
                        try:
                            v = self.ev(s.value, {})
                        except Undecided:
                            v = Unknown("enum value")
                        c.members[s.targets[0].id] = EnumVal(st.name, s.targets[0].id, v)
            env[st.name] = c
            return
        if isinstance(st, ast.Assign):
            try:
                v = self.ev(st.value, {})
            except Undecided as e:
                v = Unknown(str(e))
            for t in st.targets:
                self.assign(t, v, env)
            return
        if isinstance(st, ast.AnnAssign) and st.value is not None:
            try:
                v = self.ev(st.value, {})
            except Undecided as e:
                v = Unknown(str(e))
            self.assign(st.target, v, env)
            return
        # other statements (if __name__ ..., expression statements) are ignored

    # -- helpers -------------------------------------------------------------
    def tick(self):
        self.budget -= 1
        if self.budget < 0:
            raise StepBudget("evaluation budget exhausted")

    def assign(self, target, v, env):
        if isinstance(target, ast.Name):
            if self.globals_decl is not None and target.id in self.globals_decl and target.id not in env:
                self.genv[target.id] = v
                return
            env[target.id] = v
        elif isinstance(target, (ast.Tuple, ast.List)):
            if isinstance(v, Unknown):
                for t in target.elts:
                    self.assign(t, v, env)
                return
            vals = list(v)
            if len(vals) != len(target.elts):
                raise Undecided("unpack arity")
            for t, x in zip(target.elts, vals):
                self.assign(t, x, env)
        elif isinstance(target, ast.Subscript):
            obj = self.ev(target.value, env)
            key = self.ev(target.slice, env)
            if isinstance(obj, (dict, list)):
                obj[key] = v
            else:
                raise Undecided("subscript store on non-container")
        elif isinstance(target, ast.Attribute):
            obj = self.ev(target.value, env)
            if isinstance(obj, FuncRef):
                # an attribute set on a function object (e.g. predicate.regex_id = ...): kept on the reference
                if not hasattr(obj, "fattrs"):
                    obj.fattrs = {}
                obj.fattrs[target.attr] = v
                return
            raise Undecided("attribute store on " + type(obj).__name__)
        else:
            raise Undecided("assign target " + type(target).__name__)

    def lookup(self, name, env):
        if name in env:
            return env[name]
        if name in self.genv:
            return self.genv[name]
        if name in ("True", "False", "None"):
            return {"True": True, "False": False, "None": None}[name]
        if name == "__name__" and self.mod is not None:
            return self.mod.name
        if name == "__file__" and self.mod is not None:
            return self.mod.path
        if name in ("enumerate", "len", "range", "tuple", "list", "dict", "str", "int",
                    "sorted", "zip", "min", "max", "sum", "set", "reversed", "any", "all",
                    "isinstance", "frozenset", "float", "bool", "getattr", "format", "repr", "abs"):
            return Opaque("builtin", name)
        raise Undecided("unbound name " + name)

    # -- expressions -----------------------------------------------------------
    def ev(self, n, env):
        self.tick()
        if isinstance(n, ast.Constant):
            return n.value
        if isinstance(n, ast.Name):
            v = self.lookup(n.id, env)
            return v
        if isinstance(n, ast.NamedExpr) and isinstance(n.target, ast.Name):
            v = self.ev(n.value, env)
            env[n.target.id] = v
            return v
        if isinstance(n, ast.Tuple):
            return tuple(self.ev(e, env) for e in n.elts)
        if isinstance(n, ast.List):
            return [self.ev(e, env) for e in n.elts]
        if isinstance(n, ast.Set):
            return set(self.ev(e, env) for e in n.elts)
        if isinstance(n, ast.Dict):
            d = {}
            for k, v in zip(n.keys, n.values):
                if k is None:
                    d.update(self.ev(v, env))
                else:
                    d[self.ev(k, env)] = self.ev(v, env)
            return d
        if isinstance(n, ast.JoinedStr):
            out = []
            for p in n.values:
                if isinstance(p, ast.Constant):
                    out.append(str(p.value))
                elif isinstance(p, ast.FormattedValue):
                    v = self.ev(p.value, env)
                    self._need_concrete(v)
                    spec = ""
                    if p.format_spec is not None:
                        spec = self.ev(p.format_spec, env)
                    if p.conversion == 114:
                        v = repr(v)
                    out.append(format(v, spec))
            return "".join(out)
        if isinstance(n, ast.BinOp):
            a = self.ev(n.left, env)
            b = self.ev(n.right, env)
            self._need_concrete(a)
            self._need_concrete(b)
            try:
                if isinstance(n.op, ast.Add):
                    return a + b
                if isinstance(n.op, ast.Sub):
                    return a - b
                if isinstance(n.op, ast.Mult):
                    return a * b
                if isinstance(n.op, ast.Mod):
                    return a % b
                if isinstance(n.op, ast.FloorDiv):
                    return a // b
            except Exception as e:
                raise Undecided("binop failed: {}".format(e))
            raise Undecided("binop " + type(n.op).__name__)
        if isinstance(n, ast.UnaryOp):
            v = self.ev(n.operand, env)
            self._need_concrete(v)
            if isinstance(n.op, ast.USub):
                return -v
            if isinstance(n.op, ast.Not):
                return not v
            raise Undecided("unaryop")
        if isinstance(n, ast.BoolOp):
            res = None
            for e in n.values:
                res = self.ev(e, env)
                self._need_concrete(res)
                if isinstance(n.op, ast.And) and not res:
                    return res
                if isinstance(n.op, ast.Or) and res:
                    return res
            return res
        if isinstance(n, ast.Compare):
            left = self.ev(n.left, env)
            for op, r in zip(n.ops, n.comparators):
                right = self.ev(r, env)
                self._need_concrete(left)
                self._need_concrete(right)
                ok = _cmp(op, left, right)
                if not ok:
                    return False
                left = right
            return True
        if isinstance(n, ast.IfExp):
            c = self.ev(n.test, env)
            self._need_concrete(c)
            return self.ev(n.body if c else n.orelse, env)
        if isinstance(n, ast.Subscript):
            obj = self.ev(n.value, env)
            self._need_concrete(obj)
            if isinstance(n.slice, ast.Slice):
                lo = self.ev(n.slice.lower, env) if n.slice.lower else None
                hi = self.ev(n.slice.upper, env) if n.slice.upper else None
                st = self.ev(n.slice.step, env) if n.slice.step else None
                return obj[lo:hi:st]
            k = self.ev(n.slice, env)
            try:
                return obj[k]
            except Exception as e:
                raise Undecided("subscript failed: {}".format(e))
        if isinstance(n, ast.Attribute):
            obj = self.ev(n.value, env)
            if isinstance(obj, ClassRef):
                if n.attr in obj.members:
                    return obj.members[n.attr]
                if n.attr == "__name__":
                    return obj.name
                # a class-level constant (possibly inherited from a base of the same package)
                seen_c = set()
                cur_c = obj
                while cur_c is not None and id(cur_c) not in seen_c:
                    seen_c.add(id(cur_c))
                    for st_ in cur_c.node.body:
                        if isinstance(st_, ast.Assign) and any(isinstance(t_, ast.Name) and t_.id == n.attr for t_ in st_.targets):
                            sub = PureEval(self.model, cur_c.mod, self.model.env(cur_c.mod.name) if self.model else {},
                                           budget=20000)
                            return sub.ev(st_.value, {})
                        if isinstance(st_, ast.AnnAssign) and isinstance(st_.target, ast.Name) and st_.target.id == n.attr \
                                and st_.value is not None:
                            sub = PureEval(self.model, cur_c.mod, self.model.env(cur_c.mod.name) if self.model else {},
                                           budget=20000)
                            return sub.ev(st_.value, {})
                    nxt_c = None
                    for b_ in cur_c.node.bases:
                        if isinstance(b_, ast.Name) and self.model is not None:
                            bv = self.model.env(cur_c.mod.name).get(b_.id)
                            if isinstance(bv, ClassRef):
                                nxt_c = bv
                                break
                    cur_c = nxt_c
                raise Undecided("class attribute " + n.attr)
            if isinstance(obj, NTValue):
                if n.attr in obj.names:
                    return obj[obj.names.index(n.attr)]
                m = obj.method(n.attr)
                if m is not None and any(ast.unparse(d) == "property" for d in m.decorator_list):
                    saved = self.allow_methods
                    node_copy = m
                    # a property: evaluate its body on the instance
                    local = {m.args.args[0].arg: obj}
                    try:
                        self.block(m.body, local)
                    except _Return as r:
                        return r.v
                    return None
                raise Undecided("NamedTuple attribute " + n.attr)
            if isinstance(obj, Record):
                if n.attr in obj.fields:
                    return obj.fields[n.attr]
                raise Undecided("record attribute " + n.attr)
            if isinstance(obj, EnumVal):
                if n.attr == "value":
                    return obj.value
                if n.attr == "name":
                    return obj.name
            if isinstance(obj, Opaque):
                return Opaque("attr", (obj, n.attr))
            raise Undecided("attribute {} of {}".format(n.attr, type(obj).__name__))
        if isinstance(n, (ast.ListComp, ast.GeneratorExp, ast.SetComp, ast.DictComp)):
            return self.comp(n, env)
        if isinstance(n, ast.Call):
            return self.call(n, env)
        if isinstance(n, ast.Lambda):
            return Opaque("lambda", n)
        if isinstance(n, ast.Starred):
            raise Undecided("starred")
        raise Undecided("expression " + type(n).__name__)

    def _need_concrete(self, v):
        if isinstance(v, (Unknown, Opaque)):
            raise Undecided("non-constant operand {}".format(v))

    def comp(self, n, env):
        out = []
        local = dict(env)

        def rec(i):
            if i == len(n.generators):
                if isinstance(n, ast.DictComp):
                    out.append((self.ev(n.key, local), self.ev(n.value, local)))
                else:
                    out.append(self.ev(n.elt, local))
                return
            g = n.generators[i]
            it = self.ev(g.iter, local)
            self._need_concrete(it)
            if isinstance(it, dict):
                it = list(it)
            for x in it:
                self.tick()
                self.assign(g.target, x, local)
                if all(self.ev(c, local) for c in g.ifs):
                    rec(i + 1)
        rec(0)
        if isinstance(n, ast.DictComp):
            return dict(out)
        if isinstance(n, ast.SetComp):
            return set(out)
        return out

    def call(self, n, env):
        f = n.func
        args = []
        for a in n.args:
            if isinstance(a, ast.Starred):
                v = self.ev(a.value, env)
                self._need_concrete(v)
                args.extend(list(v))
            else:
                args.append(self.ev(a, env))
        kwargs = {}
        for k in n.keywords:
            if k.arg is None:
                d_ = self.ev(k.value, env)
                if isinstance(d_, dict) and all(isinstance(x, str) for x in d_):
                    kwargs.update(d_)
                    continue
                raise Undecided("**kwargs")
            kwargs[k.arg] = self.ev(k.value, env)
        if isinstance(f, ast.Attribute):
            obj = self.ev(f.value, env)
            if isinstance(obj, str) and f.attr in _SAFE_STR_METHODS:
                for a in list(args) + list(kwargs.values()):
                    self._need_concrete(a)
                if f.attr == "join":
                    args = [list(args[0])]
                    for x in args[0]:
                        self._need_concrete(x)
                try:
                    return getattr(obj, f.attr)(*args, **kwargs)
                except Exception as e:
                    raise Undecided("str.{} failed: {}".format(f.attr, e))
            if isinstance(obj, dict) and f.attr in ("items", "keys", "values", "get", "update",
                                                    "copy", "setdefault"):
                if f.attr == "items":
                    return list(obj.items())
                if f.attr == "keys":
                    return list(obj.keys())
                if f.attr == "values":
                    return list(obj.values())
                if f.attr == "get":
                    return obj.get(*args)
                if f.attr == "copy":
                    return dict(obj)
                if f.attr == "setdefault":
                    return obj.setdefault(*args)
                self._need_concrete(args[0])
                obj.update(args[0])
                return None
            if isinstance(obj, list) and f.attr in ("append", "extend", "index", "count", "copy", "pop", "insert",
                                                    "reverse", "clear", "remove"):
                for a in args:
                    if f.attr in ("extend",):
                        self._need_concrete(a)
                try:
                    return getattr(obj, f.attr)(*args)
                except Exception as e:
                    raise Undecided("list.{} failed: {}".format(f.attr, e))
            if isinstance(obj, _collections.deque) and f.attr in (
                    "append", "appendleft", "pop", "popleft", "extend", "extendleft", "clear", "copy",
                    "count", "index", "reverse", "rotate"):
                for a in args:
                    if f.attr in ("extend", "extendleft"):
                        self._need_concrete(a)
                try:
                    return getattr(obj, f.attr)(*args)
                except Exception as e:
                    raise Undecided("deque.{} failed: {}".format(f.attr, e))
            if isinstance(obj, dict) and f.attr in ("pop",):
                try:
                    return obj.pop(*args)
                except Exception as e:
                    raise Undecided("dict.pop failed: {}".format(e))
            if isinstance(obj, NTValue):
                # a method / property of a NamedTuple class
                m = obj.method(f.attr)
                if m is not None:
                    return self.call_func(FuncRef(obj.cls.mod, m, closure={}), [obj] + list(args), kwargs)
            if isinstance(obj, FoldMatch):
                return obj.call(f.attr, args)
            if isinstance(obj, Probe):
                return obj.answer
            if isinstance(obj, ClassRef) and self.ext_hook is not None:
                r = self.ext_hook(obj, f.attr, args, kwargs)
                if r is not NotImplemented:
                    return r
            if isinstance(obj, Opaque):
                if self.ext_hook is not None:
                    r = self.ext_hook(obj, f.attr, args, kwargs)
                    if r is not NotImplemented:
                        return r
                return Opaque("call", (obj, f.attr, args, kwargs, n))
            raise Undecided("method {} on {}".format(f.attr, type(obj).__name__))
        fv = self.ev(f, env)
        if isinstance(fv, Opaque) and fv.kind == "builtin":
            name = fv.info
            if name not in ("isinstance", "getattr"):
                for a in args:
                    self._need_concrete(a)
            try:
                for a in kwargs.values():
                    self._need_concrete(a)
                if name == "enumerate":
                    return list(enumerate(*args, **kwargs))
                if name in ("zip", "reversed", "range") and kwargs:
                    raise Undecided("keyword arguments to " + name)
                if name == "zip":
                    return list(zip(*args))
                if name == "reversed":
                    return list(reversed(*args))
                if name == "range":
                    if len(range(*args)) > 100000:
                        raise Undecided("range too large")
                    return list(range(*args))
                if name == "getattr" and len(args) in (2, 3) and isinstance(args[1], str):
                    o_ = args[0]
                    if isinstance(o_, Record):
                        if args[1] in o_.fields:
                            return o_.fields[args[1]]
                        if len(args) == 3:
                            return args[2]
                        raise Undecided("record attribute " + args[1])
                    if isinstance(o_, NTValue) and args[1] in o_.names:
                        return o_[o_.names.index(args[1])]
                    raise Undecided("getattr")
                if name == "isinstance" and len(args) == 2:
                    types = args[1] if isinstance(args[1], (tuple, list)) else [args[1]]
                    known = {"str": str, "int": int, "float": float, "bool": bool, "list": list,
                             "tuple": tuple, "dict": dict, "set": set}
                    if all(isinstance(t, Opaque) and t.kind == "builtin" and t.info in known for t in types) \
                            and not isinstance(args[0], (Opaque, Unknown, FuncRef, ClassRef, EnumVal, Probe)):
                        return isinstance(args[0], tuple(known[t.info] for t in types))
                    if isinstance(args[0], (FuncRef, Opaque)) and all(
                            isinstance(t, Opaque) and t.kind == "builtin" and t.info in known for t in types):
                        return False
                    raise Undecided("isinstance")
                return {"len": len, "tuple": tuple, "list": list, "dict": dict, "str": str,
                        "int": int, "sorted": sorted, "min": min, "max": max, "sum": sum,
                        "set": set, "any": any, "all": all, "frozenset": frozenset, "float": float,
                        "bool": bool, "format": format, "repr": repr, "abs": abs,
                        "isinstance": lambda *a: (_ for _ in ()).throw(Undecided("isinstance"))
                        }[name](*args, **kwargs)
            except Undecided:
                raise
            except Exception as e:
                raise Undecided("builtin {} failed: {}".format(name, e))
        if isinstance(fv, FuncRef):
            return self.call_func(fv, args, kwargs)
        if isinstance(fv, ClassRef):
            if fv.members:  # enum lookup by value
                for m in fv.members.values():
                    if args and m.value == args[0]:
                        return m
            if any(ast.unparse(b).split(".")[-1] == "NamedTuple" for b in fv.node.bases):
                names = [st_.target.id for st_ in fv.node.body
                         if isinstance(st_, ast.AnnAssign) and isinstance(st_.target, ast.Name)]
                defaults = {st_.target.id: st_.value for st_ in fv.node.body
                            if isinstance(st_, ast.AnnAssign) and isinstance(st_.target, ast.Name) and st_.value is not None}
                vals = {}
                if len(args) > len(names) or any(k not in names for k in kwargs):
                    raise Undecided("NamedTuple arguments")
                for nm, a in zip(names, args):
                    vals[nm] = a
                vals.update(kwargs)
                for nm in names:
                    if nm not in vals:
                        if nm in defaults:
                            vals[nm] = self.ev(defaults[nm], {})
                        else:
                            raise Undecided("missing NamedTuple field " + nm)
                return NTValue([vals[nm] for nm in names], names, fv)
            return Opaque("instance", (fv, args, kwargs, n))
        if isinstance(fv, Opaque) and fv.kind == "ext" and fv.info == ("collections", "deque") \
                and len(args) <= 1 and not kwargs:
            for a in args:
                self._need_concrete(a)
            return _collections.deque(*[list(a) for a in args])
        if isinstance(fv, Opaque):
            return Opaque("call", (fv, None, args, kwargs, n))
        raise Undecided("call of " + type(fv).__name__)

    # -- pure function calls (for _mk_pod_hours-like helpers) -----------------
    def call_func(self, fr, args, kwargs):
        node = fr.node
        if node.decorator_list and not (getattr(self, "allow_methods", False) and all(
                ast.unparse(d) in ("classmethod", "staticmethod") for d in node.decorator_list)):
            raise Undecided("decorated function called at fold time: " + node.name)
        local = dict(fr.closure or {})
        params = [a.arg for a in node.args.args]
        defaults = node.args.defaults
        if node.args.kwarg or node.args.kwonlyargs:
            raise Undecided("complex signature")
        if node.args.vararg:
            local[node.args.vararg.arg] = tuple(args[len(params):])
            args = list(args[:len(params)])
        for i, p in enumerate(params):
            if i < len(args):
                local[p] = args[i]
            elif p in kwargs:
                local[p] = kwargs[p]
            else:
                di = i - (len(params) - len(defaults))
                if di < 0:
                    raise Undecided("missing argument " + p)
                local[p] = self.ev(defaults[di], {})
        is_gen = any(isinstance(x, (ast.Yield, ast.YieldFrom)) for x in _own_scope_nodes(node))
        if is_gen:
            # a generator is folded eagerly into the list of what it yields (no side effects
            # are modelled at fold time, so laziness is not observable)
            local["__yield__"] = []
        try:
            self.block(node.body, local)
        except _Return as r:
            return local["__yield__"] if is_gen else r.v
        return local["__yield__"] if is_gen else None

    def block(self, body, env):
        for st in body:
            self.stmt(st, env)

    def stmt(self, st, env):
        self.tick()
        if isinstance(st, ast.Return):
            raise _Return(self.ev(st.value, env) if st.value else None)
        if isinstance(st, ast.Assign):
            v = self.ev(st.value, env)
            for t in st.targets:
                self.assign(t, v, env)
            return
        if isinstance(st, ast.AnnAssign):
            if st.value is not None:
                self.assign(st.target, self.ev(st.value, env), env)
            return
        if isinstance(st, ast.AugAssign):
            cur = self.ev(st.target, env)
            v = self.ev(ast.BinOp(left=st.target, op=st.op, right=st.value), env)
            del cur
            self.assign(st.target, v, env)
            return
        if isinstance(st, ast.Expr):
            if isinstance(st.value, ast.Constant):
                return
            if isinstance(st.value, ast.Yield) and "__yield__" in env:
                env["__yield__"].append(self.ev(st.value.value, env) if st.value.value is not None else None)
                return
            if isinstance(st.value, ast.YieldFrom) and "__yield__" in env:
                v = self.ev(st.value.value, env)
                self._need_concrete(v)
                env["__yield__"].extend(list(v))
                return
            self.ev(st.value, env)
            return
        if isinstance(st, ast.If):
            c = self.ev(st.test, env)
            self._need_concrete(c)
            self.block(st.body if c else st.orelse, env)
            return
        if isinstance(st, ast.For):
            it = self.ev(st.iter, env)
            self._need_concrete(it)
            if isinstance(it, dict):
                it = list(it)
            broke = False
            for x in list(it):
                self.tick()
                self.assign(st.target, x, env)
                try:
                    self.block(st.body, env)
                except _Continue:
                    continue
                except _Break:
                    broke = True
                    break
            if not broke:
                self.block(st.orelse, env)
            return
        if isinstance(st, ast.While):
            broke = False
            while True:
                self.tick()
                c = self.ev(st.test, env)
                self._need_concrete(c)
                if not c:
                    break
                try:
                    self.block(st.body, env)
                except _Continue:
                    continue
                except _Break:
                    broke = True
                    break
            if not broke:
                self.block(st.orelse, env)
            return
        if isinstance(st, ast.Continue):
            raise _Continue()
        if isinstance(st, ast.Break):
            raise _Break()
        if isinstance(st, ast.Pass):
            return
        if isinstance(st, (ast.FunctionDef,)):
            env[st.name] = FuncRef(self.mod, st, closure=env)
            return
        if isinstance(st, ast.Global):
            if self.globals_decl is not None:
                self.globals_decl.update(st.names)
                return
            raise Undecided("global statement")
        if isinstance(st, ast.Raise):
            raise _Raised(ast.unparse(st.exc) if st.exc is not None else "re-raise")
        if isinstance(st, ast.Assert):
            t = self.ev(st.test, env)
            self._need_concrete(t)
            if not t:
                raise _Raised("AssertionError")
            return
        raise Undecided("statement " + type(st).__name__)


def _own_scope_nodes(fn):
    out = []
    stack = list(fn.body)
    while stack:
        n = stack.pop()
        out.append(n)
        if isinstance(n, (ast.FunctionDef, ast.AsyncFunctionDef, ast.Lambda, ast.ClassDef)):
            continue
        stack.extend(ast.iter_child_nodes(n))
    return out


def _cmp(op, a, b):
    try:
        if isinstance(op, ast.Eq):
            return a == b
        if isinstance(op, ast.NotEq):
            return a != b
        if isinstance(op, ast.Lt):
            return a < b
        if isinstance(op, ast.LtE):
            return a <= b
        if isinstance(op, ast.Gt):
            return a > b
        if isinstance(op, ast.GtE):
            return a >= b
        if isinstance(op, ast.In):
            return a in b
        if isinstance(op, ast.NotIn):
            return a not in b
        if isinstance(op, ast.Is):
            return a is b
        if isinstance(op, ast.IsNot):
            return a is not b
    except Exception as e:
        raise Undecided("compare failed: {}".format(e))
    raise Undecided("compare op")


def _assigned_names(st):
    out = []
    if isinstance(st, ast.Assign):
        for t in st.targets:
            for n in ast.walk(t):
                if isinstance(n, ast.Name):
                    out.append(n.id)
    elif isinstance(st, ast.AnnAssign) and isinstance(st.target, ast.Name):
        out.append(st.target.id)
    return out


# ---------------------------------------------------------------------------
# Rule table


class Pat:
    """One element of a @rule(...) argument list."""

    def __init__(self, kind, value, node):
        self.kind = kind      # 'regex' | 'pred' | 'dim' | 'unknown'
        self.value = value    # text | predicate name | class name
        self.node = node
        self.rid = None       # simulated id for regex patterns

    def __repr__(self):
        if self.kind == "regex":
            return "R{}".format(self.rid)
        return "{}({})".format(self.kind, self.value)


class Rule:
    def __init__(self, mod, node, pats):
        self.mod = mod
        self.node = node
        self.name = node.name
        self.pats = pats
        self.params = [a.arg for a in node.args.args]

    @property
    def where(self):
        return self.mod.where(self.node)

    @property
    def arity(self):
        return len(self.pats)

    def __repr__(self):
        return "<rule {} {}>".format(self.name, self.pats)


class RuleBase:
    """All @rule-decorated productions, in definition order, with simulated ids."""

    def __init__(self, model):
        self.model = model
        self.rules = []
        self.helpers = []
        self.id_of_text = {}
        self.text_of_id = {}
        self.rule_mods = []
        self._collect()

    def _rule_modules(self):
        # modules star-imported by ctparse.rule, in order
        rm = self.model.mod("ctparse.rule")
        out = []
        for st in rm.tree.body:
            if isinstance(st, ast.ImportFrom) and any(a.name == "*" for a in st.names):
                full = self.model.resolve_import(rm, st)
                if full in self.model.mods:
                    out.append(full)
        if not out:
            raise AnalysisError("anchor vanished: ctparse.rule no longer star-imports a rule module")
        return out

    def _collect(self):
        model = self.model
        renv = model.env("ctparse.rule")
        cnt = renv.get("_regex_cnt")
        if not isinstance(cnt, int):
            raise AnalysisError("cannot fold initial _regex_cnt in ctparse/rule.py")
        self.first_id = cnt
        seen_mods = {"ctparse.rule"}
        state = {"cnt": cnt}

        def run(mn):
            """register the rules of module *mn* in the order its body runs: a package module that
            defines rules and is imported by a rule module runs, whole, at its first import (rules
            moved to a module that is imported back register there)"""
            if mn in seen_mods:
                return
            seen_mods.add(mn)
            mod = model.mod(mn)
            self.rule_mods.append(mod)
            env = model.env(mn)
            ev = PureEval(model, mod, env)
            # the rule table is read off the decorators of the module-level functions; a rule that
            # is registered by code (rule(...)(fn) in a factory or a loop) is not in that table
            deco_calls = {id(d) for st in mod.tree.body if isinstance(st, ast.FunctionDef)
                          for d in st.decorator_list}
            for n in ast.walk(mod.tree):
                if isinstance(n, ast.Call) and _callee_name(n.func) == "rule" and id(n) not in deco_calls:
                    raise AnalysisError(
                        "{}:{}: a production is registered by a call of rule() that is not the decorator of "
                        "a module-level function; the rule table cannot be read off the source".format(
                            mod.rel, getattr(n, "lineno", 0)))
            for st in mod.tree.body:
                if isinstance(st, ast.ImportFrom):
                    full_ = model.resolve_import(mod, st)
                    for c_ in [full_] + [full_ + "." + a_.name for a_ in st.names if a_.name != "*"]:
                        if c_ in model.mods and c_ not in seen_mods and _uses_rule(model.mod(c_)):
                            run(c_)
                    continue
                if not isinstance(st, ast.FunctionDef):
                    continue
                deco = None
                for d in st.decorator_list:
                    if isinstance(d, ast.Call) and _callee_name(d.func) == "rule":
                        deco = d
                if deco is None:
                    self.helpers.append((mod, st))
                    continue
                pats = []
                for a in deco.args:
                    pats.append(self._pat(ev, a))
                for p in pats:
                    if p.kind == "regex":
                        if p.value not in self.id_of_text:
                            self.id_of_text[p.value] = state["cnt"]
                            self.text_of_id[state["cnt"]] = p.value
                            state["cnt"] += 1
                        p.rid = self.id_of_text[p.value]
                self.rules.append(Rule(mod, st, pats))
        for mn in self._rule_modules():
            run(mn)
        cnt = state["cnt"]
        self.next_id = cnt

    def _pat(self, ev, a):
        if isinstance(a, ast.Call):
            cn = _callee_name(a.func)
            if cn == "predicate" and a.args:
                try:
                    v = ev.ev(a.args[0], {})
                except Undecided:
                    v = None
                if isinstance(v, str):
                    return Pat("pred", v, a)
            if cn == "dimension" and a.args and isinstance(a.args[0], ast.Name):
                return Pat("dim", a.args[0].id, a)
        try:
            v = ev.ev(a, {})
        except Undecided as e:
            return Pat("unknown", str(e), a)
        if isinstance(v, str):
            return Pat("regex", v, a)
        return Pat("unknown", repr(v), a)

    def by_name(self, name):
        return [r for r in self.rules if r.name == name]


def _uses_rule(mod):
    """does the module apply the rule() decorator (or call it) anywhere?"""
    for n in ast.walk(mod.tree):
        if isinstance(n, ast.Call) and _callee_name(n.func) == "rule":
            return True
    return False


def _callee_name(f):
    if isinstance(f, ast.Name):
        return f.id
    if isinstance(f, ast.Attribute):
        return f.attr
    return None


def callee_name(f):
    return _callee_name(f)


class Registration:
    """Outcome of one simulated registration of a pattern text (see simulate_registration)."""

    def __init__(self):
        self.compiles = []      # (pattern string, [flag names])
        self.predicate_ids = [] # ids handed to regex_match()
        self.before = {}        # module-level tables / counters before the run
        self.after = {}
        self.raised = None
        self.returned = None


def _rule_map_func(model):
    """(inlined rule module, function to simulate, is it the whole decorator factory?)"""
    from .inline import inlined_module
    key = "_inl_rule"
    im = getattr(model, key, None)
    if im is None:
        im = inlined_module(model.mod("ctparse.rule"), model)
        setattr(model, key, im)
    f = im.funcs.get("rule._map")
    if f is not None:
        return im, f, False
    # the pattern mapping is not a closure of rule(): simulate rule(<text>) itself
    f = im.funcs.get("rule")
    if f is None:
        raise AnalysisError("anchor vanished: rule() in ctparse/rule.py")
    return im, f, True


def simulate_registration(model, text, counter=None, prefill=None):
    """Constant-propagate rule.py's registration of one pattern *text* (the body of rule._map
    with its private helpers inlined) on a private copy of the module state: the counter set to
    *counter*, the tables empty or, for *prefill* = {table name: {key: value}}, pre-filled.  The
    external regex.compile() is not run; its arguments are recorded."""
    im, f, _whole = _rule_map_func(model)
    base = model.env("ctparse.rule")
    genv = dict(base)
    tables = [k for k, v in base.items() if isinstance(v, dict) and not v]
    for k in tables:
        genv[k] = {}
    for k, d in (prefill or {}).items():
        genv[k] = dict(d)
    counters = [k for k, v in base.items() if isinstance(v, int) and not isinstance(v, bool) and k.startswith("_")]
    if counter is not None:
        if "_regex_cnt" not in base:
            raise AnalysisError("anchor vanished: ctparse.rule._regex_cnt")
        genv["_regex_cnt"] = counter
    res = Registration()
    res.before = {k: (dict(genv[k]) if isinstance(genv[k], dict) else genv[k]) for k in tables + counters}
    ev = PureEval(model, im, genv, budget=200000)
    ev.globals_decl = set()

    def hook(obj, attr, args, kwargs):
        base_name = obj.info[1] if obj.kind == "ext" else (obj.info if obj.kind == "extmod" else None)
        if attr == "compile" and args and isinstance(args[0], str):
            flags = []
            for a in list(args[1:]) + list(kwargs.values()):
                if isinstance(a, Opaque) and a.kind == "attr":
                    flags.append("{}.{}".format(getattr(a.info[0], "info", "?") if not isinstance(
                        a.info[0].info, tuple) else a.info[0].info[1], a.info[1]))
                else:
                    flags.append(repr(a))
            res.compiles.append((args[0], flags))
            return Probe("compiled", args, kwargs, answer=None)
        if base_name in ("logging", "logger") or attr in ("debug", "info", "warning"):
            return None
        return NotImplemented
    ev.ext_hook = hook
    fr = FuncRef(im, f, closure={})
    orig_call_func = ev.call_func

    def call_func(fref, args, kwargs):
        if fref.name == "regex_match" and args:
            res.predicate_ids.append(args[0])
        return orig_call_func(fref, args, kwargs)
    ev.call_func = call_func
    try:
        res.returned = ev.call_func(fr, [text], {})
    except _Raised as e:
        res.raised = e.what
    except (Undecided, StepBudget) as e:
        raise AnalysisError("cannot fold the pattern registration in ctparse/rule.py: {}".format(e))
    res.after = {k: (dict(genv[k]) if isinstance(genv[k], dict) else genv[k]) for k in tables + counters}
    return res


def wrapped_pattern(model, text, rid):
    """The string rule.py hands to regex.compile() for pattern *text* registered under id *rid*
    (its own wrapping code, folded), and the names of the flags."""
    res = simulate_registration(model, text, counter=rid)
    if not res.compiles:
        raise AnalysisError("anchor vanished: regex.compile call in rule._map")
    v, flags = res.compiles[-1]
    return v, flags


# ---------------------------------------------------------------------------
# Registry keys of all registrations, decorator form or call form (C19 unique-name).
# Tolerant: needs no RuleBase (which refuses call-form registrations), answers None where the
# name of the registered callable cannot be derived.


def _wraps_param(fn):
    """parameter name p when nested def *fn* is decorated with [functools.]wraps(p), else None"""
    for d in fn.decorator_list:
        if isinstance(d, ast.Call) and _callee_name(d.func) == "wraps" and len(d.args) == 1 \
                and isinstance(d.args[0], ast.Name) and not d.keywords:
            return d.args[0].id
    return None


def _touches_name_attr(fn):
    for n in ast.walk(fn):
        if isinstance(n, ast.Attribute) and n.attr in ("__name__", "__wrapped__") and \
                isinstance(n.ctx, (ast.Store, ast.Del)):
            return True
        if isinstance(n, ast.Call) and _callee_name(n.func) in ("update_wrapper", "setattr"):
            return True
    return False


def _returned_inner_def(fn):
    """the one nested FunctionDef every return statement of *fn* returns by name, else None"""
    inner = {st.name: st for st in fn.body if isinstance(st, ast.FunctionDef)}
    rets = []

    def walk(stmts):
        for st in stmts:
            if isinstance(st, (ast.FunctionDef, ast.AsyncFunctionDef, ast.ClassDef, ast.Lambda)):
                continue
            if isinstance(st, ast.Return):
                rets.append(st)
            for f in ("body", "orelse", "finalbody", "handlers"):
                sub = getattr(st, f, None)
                if isinstance(sub, list):
                    walk([x for x in sub if isinstance(x, ast.AST)])
    walk(fn.body)
    if not rets:
        return None
    names = set()
    for r in rets:
        if not isinstance(r.value, ast.Name) or r.value.id not in inner:
            return None
        names.add(r.value.id)
    if len(names) != 1:
        return None
    # a nested def bound twice, or rebound by an assignment, is outside the idiom
    nm = names.pop()
    binds = [st for st in ast.walk(fn) if (isinstance(st, ast.FunctionDef) and st is not fn and st.name == nm)
             or (isinstance(st, ast.Name) and st.id == nm and isinstance(st.ctx, ast.Store))]
    if len(binds) != 1:
        return None
    return inner[nm]


def registration_keys(model):
    """[(key or None, module, node, form)] for every registration of a production in the modules
    that use rule(), in source order; form is 'decorator' or 'call'.  The key is derived from
    rule.py's own store into the registry (``rules[<f>.__name__] = ...``)."""
    rm = model.mod("ctparse.rule")
    rule_fn = None
    for st in rm.tree.body:
        if isinstance(st, ast.FunctionDef) and st.name == "rule":
            rule_fn = st
    if rule_fn is None:
        raise AnalysisError("anchor vanished: rule() in ctparse/rule.py")
    fw = _returned_inner_def(rule_fn)
    if fw is None or len(fw.args.args) != 1 or _touches_name_attr(rule_fn):
        return None
    fparam = fw.args.args[0].arg
    stores = [n for n in ast.walk(fw) if isinstance(n, ast.Subscript) and isinstance(n.ctx, ast.Store)
              and isinstance(n.value, ast.Name) and n.value.id == "rules"]
    if len(stores) != 1:
        return None
    key = stores[0].slice
    if not (isinstance(key, ast.Attribute) and key.attr == "__name__" and isinstance(key.value, ast.Name)
            and key.value.id == fparam):
        return None
    wr = _returned_inner_def(fw)
    if wr is None:
        # fwrapper returns something else (e.g. f itself): name preserved only in that case
        rets = [n for n in ast.walk(fw) if isinstance(n, ast.Return)]
        if len(rets) == 1 and isinstance(rets[0].value, ast.Name) and rets[0].value.id == fparam:
            rule_ret = lambda nm: nm  # noqa: E731
        else:
            return None
    elif _wraps_param(wr) == fparam:
        rule_ret = lambda nm: nm  # noqa: E731
    elif _wraps_param(wr) is None and not wr.decorator_list:
        rule_ret = lambda nm, _n=wr.name: _n  # noqa: E731
    else:
        return None

    out = []
    for mn in sorted(model.mods):
        mod = model.mods[mn]
        if mn == "ctparse.rule" or not _uses_rule(mod) or "/tests/" in "/" + mod.rel:
            continue
        # only modules that import the decorator itself (a local variable called `rule` is not it)
        if not any(isinstance(st, ast.ImportFrom) and (st.module or "").split(".")[-1] == "rule"
                   and any(a.name == "rule" and a.asname in (None, "rule") for a in st.names)
                   for st in mod.tree.body):
            continue
        top = {}
        for st in mod.tree.body:
            if isinstance(st, ast.FunctionDef):
                top.setdefault(st.name, []).append(st)
            elif isinstance(st, ast.Assign):
                for t in st.targets:
                    if isinstance(t, ast.Name):
                        top.setdefault(t.id, []).append(st)

        def is_rule_call(c):
            return isinstance(c, ast.Call) and isinstance(c.func, ast.Call) and \
                _callee_name(c.func.func) == "rule" and len(c.args) == 1 and not c.keywords

        def through_decorators(fn, upto=None):
            nm = fn.name
            for d in reversed(fn.decorator_list):
                if d is upto:
                    return nm
                if isinstance(d, ast.Call) and _callee_name(d.func) == "rule":
                    nm = rule_ret(nm)
                else:
                    nm = helper_ret(d, nm)
                if nm is None:
                    return None
            return nm

        def helper_ret(fexpr, argname, argpos=0):
            """__name__ of helper(<callable named argname>)"""
            if not isinstance(fexpr, ast.Name):
                return None
            defs = top.get(fexpr.id, [])
            if len(defs) != 1 or not isinstance(defs[0], ast.FunctionDef) or defs[0].decorator_list:
                return None
            h = defs[0]
            if _touches_name_attr(h):
                return None
            inner = _returned_inner_def(h)
            if inner is None:
                return None
            wp = _wraps_param(inner)
            if wp is None:
                return inner.name if not inner.decorator_list else None
            params = [a.arg for a in h.args.args]
            if len(inner.decorator_list) == 1 and wp in params and params.index(wp) == argpos:
                return argname
            return None

        def name_of(e, depth=0):
            if depth > 8:
                return None
            if isinstance(e, ast.Lambda):
                return "<lambda>"
            if isinstance(e, ast.Name):
                defs = top.get(e.id, [])
                if len(defs) != 1:
                    return None
                d = defs[0]
                if isinstance(d, ast.FunctionDef):
                    return through_decorators(d)
                if isinstance(d, ast.Assign) and len(d.targets) == 1:
                    return name_of(d.value, depth + 1)
                return None
            if is_rule_call(e):
                inner = name_of(e.args[0], depth + 1)
                return None if inner is None else rule_ret(inner)
            if isinstance(e, ast.Call) and len(e.args) >= 1 and not e.keywords and \
                    not any(isinstance(a, ast.Starred) for a in e.args):
                # helper(f, ...): the callable is looked for at each position whose parameter is wrapped
                for pos, a in enumerate(e.args):
                    an = name_of(a, depth + 1) if isinstance(a, (ast.Name, ast.Lambda, ast.Call)) else None
                    if an is not None:
                        r = helper_ret(e.func, an, pos)
                        if r is not None:
                            return r
                return helper_ret(e.func, "", -1) if len(e.args) else None
            return None

        deco_calls = {}
        for st in mod.tree.body:
            if isinstance(st, ast.FunctionDef):
                for d in st.decorator_list:
                    if isinstance(d, ast.Call) and _callee_name(d.func) == "rule":
                        deco_calls[id(d)] = (st, d)
        regs = []
        for n in ast.walk(mod.tree):
            if isinstance(n, ast.Call) and _callee_name(n.func) == "rule":
                if id(n) in deco_calls:
                    st, d = deco_calls[id(n)]
                    regs.append((n.lineno, through_decorators(st, upto=d), mod, st, "decorator"))
                else:
                    regs.append((n.lineno, None, mod, n, "call"))
        # call form: rule(...)(X) anywhere at module level (assignment value or expression statement)
        for st in mod.tree.body:
            if isinstance(st, (ast.Assign, ast.Expr, ast.AnnAssign)) and st.value is not None:
                for n in ast.walk(st.value):
                    if is_rule_call(n):
                        for i, r in enumerate(regs):
                            if r[3] is n.func:
                                regs[i] = (r[0], name_of(n.args[0]), mod, n.func, "call")
        out.extend(sorted(regs, key=lambda r: r[0]))
    return [(k, m, nd, form) for (_ln, k, m, nd, form) in out]
