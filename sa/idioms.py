"""Idiom census for the structural (syntax-tree) clauses.

The structural clauses over ctparse.py, partial_parse.py, rule.py, timers.py, loader.py, corpus.py,
nb_scorer.py and types.py recognise the computation of a function when it is written with the
idioms listed here (after helper inlining and normalisation, sa/inline.py).  A function that uses
something else -- functools.partial, operator.attrgetter, itertools beyond chain, a private helper
class, a context manager, a helper that could not be inlined -- may compute the same thing in a
way those clauses cannot see.  A VIOLATED verdict of a structural clause about such a function is
therefore withheld (UNDECIDED, exit 2), never reported: "pattern not found" is evidence only when
everything in the function is within the modelled idioms.

The E3-interpreted modules (time/rules.py, time/postprocess_latent.py) are not subject to this:
the interpreter reports the idioms it does not model itself.
"""
import ast

STRUCTURAL_MODULES = (
    "ctparse/ctparse.py", "ctparse/partial_parse.py", "ctparse/rule.py", "ctparse/timers.py",
    "ctparse/loader.py", "ctparse/corpus.py", "ctparse/nb_scorer.py", "ctparse/types.py",
    "ctparse/scorer.py", "ctparse/count_vectorizer.py", "ctparse/nb_estimator.py",
    "scripts/train_default_model.py",
)

# callables the structural clauses know the meaning of (or know to be irrelevant: logging, typing)
ALLOWED_NAMES = {
    # builtins
    "len", "list", "set", "frozenset", "sorted", "range", "zip", "enumerate", "isinstance", "type",
    "str", "int", "float", "bool", "tuple", "dict", "print", "max", "min", "sum", "any", "all",
    "reversed", "abs", "getattr", "hasattr", "repr", "format", "next", "iter", "round", "map",
    "filter", "super", "divmod", "callable", "id", "hash", "ord", "chr", "open", "vars",
    "ValueError", "TypeError", "Exception", "NotImplementedError", "RuntimeError", "KeyError",
    "IndexError", "StopIteration", "AssertionError", "UnboundLocalError", "OverflowError",
    # library and package names used by the analysed modules
    "cast", "chain", "defaultdict", "deepcopy", "copy", "perf_counter", "tqdm", "relativedelta",
    "datetime", "timedelta", "Counter", "log", "exp", "TypeVar", "NamedTuple", "Random", "wraps",
}

FLAGGED_ATTRS = {"partial", "attrgetter", "itemgetter", "methodcaller", "reduce", "starmap",
                 "takewhile", "dropwhile", "islice", "groupby", "product", "combinations",
                 "permutations", "accumulate", "zip_longest", "suppress", "update_wrapper",
                 "namedtuple", "lru_cache", "cache", "contextmanager", "ExitStack"}


def _own_nodes(fn):
    out = []
    stack = list(fn.body)
    while stack:
        n = stack.pop()
        out.append(n)
        stack.extend(ast.iter_child_nodes(n))
    return out


def census(mod, fn, model=None):
    """idioms of *fn* (a function of the inlined view *mod*) outside the modelled set"""
    found = []
    params = {a.arg for a in ast.walk(fn) if isinstance(a, ast.arg)}
    local = {n.id for n in _own_nodes(fn) if isinstance(n, ast.Name) and isinstance(n.ctx, ast.Store)}
    nested = {n.name for n in _own_nodes(fn) if isinstance(n, (ast.FunctionDef, ast.AsyncFunctionDef))}
    # names of the enclosing functions (closures): parameters, locals and sibling nested functions
    cur = getattr(fn, "_parent", None)
    while cur is not None:
        if isinstance(cur, (ast.FunctionDef, ast.AsyncFunctionDef)):
            params |= {a.arg for a in ast.walk(cur.args) if isinstance(a, ast.arg)}
            for n in _own_nodes(cur):
                if isinstance(n, ast.Name) and isinstance(n.ctx, ast.Store):
                    local.add(n.id)
                elif isinstance(n, (ast.FunctionDef, ast.AsyncFunctionDef)):
                    nested.add(n.name)
        cur = getattr(cur, "_parent", None)
    env = model.env(mod.name) if model is not None else {}
    from . import e1_model as e1
    from .inline import ANCHORS
    for n in _own_nodes(fn):
        if isinstance(n, ast.Call):
            f = n.func
            if isinstance(f, ast.Name):
                nm = f.id
                if nm in params or nm in local or nm in nested or nm in ALLOWED_NAMES:
                    continue
                if nm in mod.funcs:
                    if nm.startswith("_") and not nm.startswith("__") and nm not in ANCHORS:
                        found.append("helper {}() is not inlined".format(nm))
                    continue
                if nm in mod.classes:
                    if nm.startswith("_"):
                        found.append("private helper class {}".format(nm))
                    continue
                v = env.get(nm)
                if isinstance(v, e1.FuncRef):
                    continue
                if isinstance(v, e1.ClassRef):
                    if nm.startswith("_"):
                        found.append("private helper class {}".format(nm))
                    continue
                if nm in FLAGGED_ATTRS:
                    found.append("{}()".format(nm))
                    continue
                if isinstance(v, e1.Opaque) and v.kind in ("call", "instance") and not nm.startswith("_"):
                    continue      # a public module-level object (e.g. a NamedTuple type made by a call)
                if isinstance(v, e1.Opaque):
                    # a library symbol the clauses have no model for
                    found.append("library call {}()".format(nm))
                    continue
                found.append("call of {}".format(nm))
            elif isinstance(f, ast.Attribute):
                if f.attr in FLAGGED_ATTRS:
                    found.append("{}()".format(f.attr))
                # a (class)method of a private helper class
                if isinstance(f.value, ast.Name) and f.value.id in mod.classes and f.value.id.startswith("_"):
                    found.append("private helper class {}".format(f.value.id))
            elif isinstance(f, ast.Call):
                inner = f.func
                nm = inner.id if isinstance(inner, ast.Name) else (inner.attr if isinstance(inner, ast.Attribute) else None)
                if nm not in ("timeit", "super"):
                    found.append("call of a call result ({})".format(nm))
        elif isinstance(n, (ast.With, ast.AsyncWith)):
            for it in n.items:
                src = ast.unparse(it.context_expr)
                if not (src.startswith("bz2.open(") or src.startswith("open(")):
                    found.append("context manager {}".format(src[:40]))
        elif isinstance(n, ast.NamedExpr):
            found.append("assignment expression")
        elif isinstance(n, ast.ClassDef):
            found.append("class defined inside a function")
        elif isinstance(n, (ast.FunctionDef, ast.AsyncFunctionDef)) and n.decorator_list:
            if not all(ast.unparse(d).startswith("wraps(") for d in n.decorator_list):
                found.append("decorated nested function")
    # names of flagged library helpers used as values (key=attrgetter("score") is a call; a bare
    # reference such as key=operator.neg is a value)
    out = []
    for x in found:
        if x not in out:
            out.append(x)
    return out
