"""Analysis context shared by the checks of one run (one repository root)."""
import ast
import warnings

from .core import AnalysisError, Undecided
from . import e1_model as e1
from . import e2_regex as e2


class Ctx:
    def __init__(self, root):
        warnings.simplefilter("ignore")
        self.root = root
        self.model = e1.Model(root)
        self._rb = None
        self._pp = {}
        self._cache = {}

    @property
    def rb(self):
        if self._rb is None:
            self._rb = e1.RuleBase(self.model)
        return self._rb

    def mod(self, name):
        return self.model.mod(name)

    def imod(self, name):
        """the module with same-module helper calls inlined (sa/inline.py): what the structural
        checks read, so that splitting a function into helpers does not change what they see"""
        from .inline import inlined_module
        return self.memo(("imod", name), lambda: inlined_module(self.model.mod(name), self.model))

    # -- rule patterns ------------------------------------------------------------
    def wrapped(self, text):
        """(wrapped text, Parsed) for a rule pattern, using rule.py's own wrapping."""
        if text in self._pp:
            return self._pp[text]
        rid = self.rb.id_of_text.get(text, 0)
        w, flags = e1.wrapped_pattern(self.model, text, rid)
        v1 = any("VERSION1" in f or f.endswith(".V1") for f in flags)
        P = e2.parse(w, version1=v1)
        key = "R{}".format(rid)
        P.id_group = P.group(key)
        if P.id_group is None:
            raise AnalysisError("wrapped pattern has no id group {}".format(key))
        self._pp[text] = (w, P)
        return self._pp[text]

    def memo(self, key, fn):
        if key not in self._cache:
            self._cache[key] = fn()
        return self._cache[key]


def find_calls(node, name):
    out = []
    for n in ast.walk(node):
        if isinstance(n, ast.Call) and e1.callee_name(n.func) == name:
            out.append(n)
    return out


def const_str(node):
    if isinstance(node, ast.Constant) and isinstance(node.value, str):
        return node.value
    return None
