#!/venv/bin/python
"""Regenerates, in DESIGN.md §10.7, the numbers of the behaviour-preserving refactorings (between the
<!-- benignstats:begin --> / <!-- benignstats:end --> markers) from seeded/benign/*/meta.json."""
import glob
import json
import os
import re

VERIF = os.path.dirname(os.path.dirname(os.path.abspath(__file__)))
MACH = {1: "690fcac", 2: "2c15178", 3: "93dd4d5", 4: "030d5a4"}
ASKED = {
    1: "helpers, guard clauses, f-strings, `timedelta`, `max(reversed())`, `next()` over a generator",
    2: "table-driven rewrites, NamedTuples, `partial`, callable classes, itertools, De Morgan, new keyword arguments",
    3: "`match`/`case`, walrus, for/else, dataclasses, enums, code moved to a new module and imported back, "
       "changed data structures, context managers, conditional expressions",
    4: "one maintenance goal per change, several places touched: typing passes, de-duplication, value classes "
       "for tuples, a function split into a class with methods, index arithmetic turned into slices and iterators",
}


def main():
    rows = {}
    for f in sorted(glob.glob(os.path.join(VERIF, "seeded", "benign", "*", "meta.json"))):
        tag = os.path.basename(os.path.dirname(f))
        m = json.load(open(f))
        r = re.search(r"-r(\d+)-", tag)
        rnd = int(r.group(1)) if r else 1
        rows.setdefault(rnd, []).append((tag, m))
    out = ["| round | asked for | first pass against | alarm from >= 1 check | no verdict from >= 1 check | "
           "all 19 silent | with the committed machinery: alarm / no verdict / silent |",
           "|---|---|---|---|---|---|---|"]
    tot = [0, 0, 0, 0]
    commits = set()
    for rnd in sorted(rows):
        ms = rows[rnd]
        fa = sum(1 for t, m in ms if m["first_pass"]["alarms"])
        fi = sum(1 for t, m in ms if m["first_pass"]["incomplete"])
        fc = sum(1 for t, m in ms if not m["first_pass"]["alarms"] and not m["first_pass"]["incomplete"])
        na = sum(1 for t, m in ms if m["checks_raising_alarm"])
        ni = sum(1 for t, m in ms if m["checks_analysis_incomplete"] and not m["checks_raising_alarm"])
        nc = len(ms) - na - ni
        for t, m in ms:
            commits.add(m.get("machinery_commit", "?"))
        out.append("| {} | {} | {} | {} of {} | {} | {} | {} / {} / {} |".format(
            rnd, ASKED.get(rnd, ""), MACH.get(rnd, "?"), fa, len(ms), fi, fc, na, ni, nc))
        tot[0] += len(ms)
        tot[1] += na
        tot[2] += ni
        tot[3] += nc
    notconf = [t for rnd in rows for t, m in rows[rnd] if not m["confirmed_benign"]]
    text = "\n".join(out) + "\n\n"
    text += ("All {} refactorings were confirmed behaviour-preserving here (patch applies, 70 tests pass, equivalence "
             "digest identical with and without it){}. With the machinery as committed ({}) they give {} alarms; on {} of "
             "them at least one check ends without a verdict (exit 2), {} are passed silently by all 19 checks. "
             "The first-pass columns are the honest measure of what happens on code the machinery has not seen; "
             "the last column only says that every cause found was removed.\n").format(
        tot[0], "" if not notconf else " except " + ", ".join(notconf), ", ".join(sorted(commits)), tot[1], tot[2], tot[3])
    inc = []
    for rnd in sorted(rows):
        for t, m in rows[rnd]:
            if m["checks_analysis_incomplete"] or m["checks_raising_alarm"]:
                inc.append("`{}` ({}{})".format(t, " ".join(m["checks_analysis_incomplete"]),
                                                 (" ALARM " + " ".join(m["checks_raising_alarm"]))
                                                 if m["checks_raising_alarm"] else ""))
    text += "\nRefactorings on which a check ends without a verdict: " + "; ".join(inc) + ".\n"
    p = os.path.join(VERIF, "DESIGN.md")
    s = open(p).read()
    a = s.index("<!-- benignstats:begin -->") + len("<!-- benignstats:begin -->")
    b = s.index("<!-- benignstats:end -->")
    s = s[:a] + "\n" + text + s[b:]
    open(p, "w").write(s)
    print(tot)


if __name__ == "__main__":
    main()
