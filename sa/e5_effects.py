"""E5 — call graph, phases (import-time vs call-time), module-state writes, caching
constructs.  Purely syntactic over the package's trees."""
import ast

from .core import AnalysisError
from . import e1_model as e1

MUTATORS = {"append", "extend", "insert", "pop", "remove", "clear", "sort", "reverse", "update",
            "setdefault", "add", "discard", "popitem", "__setitem__", "appendleft", "__delitem__"}
CACHE_DECOS = {"lru_cache", "cache", "cached_property", "memoize", "memoized"}


class FuncInfo:
    def __init__(self, mod, qual, node):
        self.mod = mod
        self.qual = qual
        self.node = node
        self.key = (mod.name, qual)
        self.calls = set()      # keys of callees
        self.call_names = set()


class CallGraph:
    def __init__(self, ctx):
        self.ctx = ctx
        self.model = ctx.model
        self.funcs = {}
        self.by_name = {}
        self.methods = {}
        for mn, m in self.model.mods.items():
            if not mn.startswith("ctparse") or mn.endswith("corpus") and "time" in mn:
                continue
            for q, f in m.funcs.items():
                fi = FuncInfo(m, q, f)
                self.funcs[fi.key] = fi
                self.by_name.setdefault(f.name, []).append(fi)
                if getattr(f, "_cls", None):
                    self.methods.setdefault(f.name, []).append(fi)
        # class hierarchy by name (bases written as plain names)
        self.bases = {}
        for mn, m in self.model.mods.items():
            if not mn.startswith("ctparse"):
                continue
            for cname, cnode in m.classes.items():
                self.bases.setdefault(cname.split(".")[-1], set()).update(
                    b.id if isinstance(b, ast.Name) else (b.attr if isinstance(b, ast.Attribute) else "?")
                    for b in cnode.bases)
        for fi in self.funcs.values():
            self._resolve(fi)

    def _ancestors(self, cls):
        out, todo = set(), [cls]
        while todo:
            c = todo.pop()
            for b in self.bases.get(c, ()):
                if b not in out:
                    out.add(b)
                    todo.append(b)
        return out

    def _family(self, cls):
        """the class, its ancestors and its descendants (where a method called on self can live)"""
        fam = {cls} | self._ancestors(cls)
        for c in self.bases:
            if cls in self._ancestors(c):
                fam.add(c)
        return fam

    def _own_nodes(self, fnode):
        """Nodes of the function body excluding nested function bodies."""
        out = []
        stack = list(fnode.body)
        while stack:
            n = stack.pop()
            out.append(n)
            for c in ast.iter_child_nodes(n):
                if isinstance(c, (ast.FunctionDef, ast.AsyncFunctionDef, ast.Lambda)):
                    out.append(c)
                    if isinstance(c, ast.Lambda):
                        stack.append(c.body)
                    continue
                stack.append(c)
        return out

    def _resolve(self, fi):
        env = self.model.env(fi.mod.name)
        nodes = self._own_nodes(fi.node)
        # nested functions are reachable from their parent (conservatively)
        for n in nodes:
            if isinstance(n, (ast.FunctionDef, ast.AsyncFunctionDef)):
                q = fi.qual + "." + n.name
                if (fi.mod.name, q) in self.funcs:
                    fi.calls.add((fi.mod.name, q))
        for n in nodes:
            names = []
            if isinstance(n, ast.Call):
                f = n.func
                if isinstance(f, ast.Name):
                    names.append(("name", f.id))
                elif isinstance(f, ast.Attribute):
                    own_cls = getattr(fi.node, "_cls", None)
                    recv = f.value
                    first = fi.node.args.args[0].arg if fi.node.args.args else None
                    if own_cls and isinstance(recv, ast.Call) and isinstance(recv.func, ast.Name) \
                            and recv.func.id == "super":
                        names.append(("in", f.attr, frozenset(self._ancestors(own_cls))))
                    elif own_cls and isinstance(recv, ast.Name) and recv.id == first and first in ("self", "cls"):
                        names.append(("in", f.attr, frozenset(self._family(own_cls))))
                    else:
                        names.append(("attr", f.attr))
                # function values passed as arguments (timeit(_match_regex))
                for a in n.args:
                    if isinstance(a, ast.Name):
                        names.append(("name", a.id))
            elif isinstance(n, ast.Attribute) and isinstance(n.ctx, ast.Load):
                # property access: any property with this name
                for m in self.methods.get(n.attr, []):
                    if any(isinstance(d, ast.Name) and d.id == "property" for d in m.node.decorator_list):
                        fi.calls.add(m.key)
            for ent in names:
                kind, nm = ent[0], ent[1]
                fi.call_names.add(nm)
                if kind == "in":
                    fam = ent[2]
                    hit = [m for m in self.methods.get(nm, []) if getattr(m.node, "_cls", None) in fam]
                    if not hit and "?" in fam:
                        hit = self.methods.get(nm, [])      # a base outside the package: unknown
                    for m in hit:
                        fi.calls.add(m.key)
                    continue
                if kind == "name":
                    v = env.get(nm)
                    if isinstance(v, e1.FuncRef):
                        q = getattr(v.node, "_qual", v.node.name)
                        fi.calls.add((v.mod.name, q))
                    elif isinstance(v, e1.ClassRef):
                        for meth in ("__init__",):
                            k = (v.mod.name, v.name + "." + meth)
                            if k in self.funcs:
                                fi.calls.add(k)
                        # inherited constructors
                        for m in self.methods.get("__init__", []):
                            pass
                    else:
                        # local nested function
                        k = (fi.mod.name, fi.qual + "." + nm)
                        if k in self.funcs:
                            fi.calls.add(k)
                else:
                    for m in self.methods.get(nm, []):
                        fi.calls.add(m.key)
                    for m in self.by_name.get(nm, []):
                        if getattr(m.node, "_cls", None) is None and "." not in m.qual:
                            pass

    def reachable(self, roots):
        seen = set()
        stack = [r for r in roots if r in self.funcs]
        while stack:
            k = stack.pop()
            if k in seen:
                continue
            seen.add(k)
            stack.extend(self.funcs[k].calls)
        return seen


def call_time_functions(ctx):
    """Functions reachable from the two public entry points, including every registered
    production, its helpers and the scorers' methods."""
    def build():
        cg = CallGraph(ctx)
        roots = [("ctparse.ctparse", "ctparse"), ("ctparse.ctparse", "ctparse_gen")]
        for r in ctx.rb.rules:
            roots.append((r.mod.name, r.name))
        # the wrapper installed by the decorator runs at call time
        roots.append(("ctparse.rule", "rule.fwrapper.wrapper"))
        for k, fi in cg.funcs.items():
            cls = getattr(fi.node, "_cls", None)
            if fi.node.name in ("score", "score_final"):
                roots.append(k)
            if fi.node.name in ("__eq__", "__hash__", "__lt__", "__len__", "__bool__", "__str__",
                                "__repr__") and cls:
                roots.append(k)
        for r in roots:
            if r not in cg.funcs and r[1] in ("ctparse", "ctparse_gen"):
                raise AnalysisError("anchor vanished: {}.{}".format(*r))
        return cg, cg.reachable(roots)
    return ctx.memo("calltime", build)


def module_state(ctx):
    """Module-level bindings of the package: name -> (module, node)."""
    out = {}
    for mn, m in ctx.model.mods.items():
        if not mn.startswith("ctparse"):
            continue
        for st in m.tree.body:
            tg = []
            if isinstance(st, ast.Assign):
                tg = st.targets
            elif isinstance(st, ast.AnnAssign):
                tg = [st.target]
            for t in tg:
                for x in ast.walk(t):
                    if isinstance(x, ast.Name):
                        out.setdefault((mn, x.id), st)
            if isinstance(st, ast.ImportFrom):
                for a in st.names:
                    out.setdefault((mn, a.asname or a.name), st)
    return out


def local_names(fnode):
    """Names bound locally in a function (parameters, assignments, loop targets...)."""
    names = set()
    a = fnode.args
    for p in a.posonlyargs + a.args + a.kwonlyargs:
        names.add(p.arg)
    if a.vararg:
        names.add(a.vararg.arg)
    if a.kwarg:
        names.add(a.kwarg.arg)
    globs = set()
    for n in ast.walk(fnode):
        if isinstance(n, (ast.Global, ast.Nonlocal)):
            globs.update(n.names)
    for n in ast.walk(fnode):
        if isinstance(n, ast.Name) and isinstance(n.ctx, (ast.Store, ast.Del)):
            names.add(n.id)
        elif isinstance(n, (ast.FunctionDef, ast.ClassDef)) and n is not fnode:
            names.add(n.name)
        elif isinstance(n, ast.ExceptHandler) and n.name:
            names.add(n.name)
        elif isinstance(n, (ast.Import, ast.ImportFrom)):
            for al in n.names:
                names.add((al.asname or al.name).split(".")[0])
    return names - globs, globs


def enclosing_locals(fnode):
    """Locals of enclosing functions (closure variables)."""
    out = set()
    cur = getattr(fnode, "_parent", None)
    while cur is not None:
        if isinstance(cur, (ast.FunctionDef, ast.AsyncFunctionDef)):
            l, _ = local_names(cur)
            out |= l
        cur = getattr(cur, "_parent", None)
    return out


def base_name(node):
    """Root Name of an attribute/subscript chain."""
    while isinstance(node, (ast.Attribute, ast.Subscript)):
        node = node.value
    if isinstance(node, ast.Name):
        return node.id
    if isinstance(node, ast.Call):
        return None
    return None


def writes_in(fi, ctx, mstate):
    """Writes performed by one function: list of (kind, target name, node).
    kind: 'global-rebind' | 'module-store' | 'module-mutate' | 'param-store' |
          'param-mutate' | 'self-store' | 'nonlocal-rebind' | 'closure-mutate'"""
    f = fi.node
    locs, globs = local_names(f)
    encl = enclosing_locals(f)
    params = {a.arg for a in f.args.posonlyargs + f.args.args + f.args.kwonlyargs}
    if f.args.vararg:
        params.add(f.args.vararg.arg)
    out = []
    own = set(id(n) for n in CallGraph._own_nodes(None, f))
    for n in ast.walk(f):
        if id(n) not in own and n is not f:
            continue
        if isinstance(n, ast.Name) and isinstance(n.ctx, ast.Store) and n.id in globs:
            kind = "global-rebind" if (fi.mod.name, n.id) in mstate or True else "global-rebind"
            if any(isinstance(g, ast.Nonlocal) and n.id in g.names for g in ast.walk(f)):
                kind = "nonlocal-rebind"
            out.append((kind, n.id, n))
        tgt = None
        if isinstance(n, ast.Assign):
            tgt = n.targets
        elif isinstance(n, (ast.AugAssign, ast.AnnAssign)):
            tgt = [n.target]
        elif isinstance(n, ast.Delete):
            tgt = n.targets
        for t in tgt or []:
            for x in ([t] if not isinstance(t, (ast.Tuple, ast.List)) else t.elts):
                if isinstance(x, (ast.Attribute, ast.Subscript)):
                    b = base_name(x)
                    if b is None:
                        continue
                    out.append(_classify(b, "store", x, n, locs, params, encl, fi, mstate))
        if isinstance(n, ast.Call) and isinstance(n.func, ast.Attribute) and n.func.attr in MUTATORS:
            b = base_name(n.func.value)
            if b is not None:
                out.append(_classify(b, "mutate", n.func.value, n, locs, params, encl, fi, mstate))
    return [o for o in out if o is not None]


def _classify(b, what, target, node, locs, params, encl, fi, mstate):
    if b == "self" and b in params:
        return ("self-" + what, norm_target(target), node)
    if b in params:
        return ("param-" + what, b, node)
    if b in locs:
        return None
    if b in encl:
        return ("closure-" + what, b, node)
    if (fi.mod.name, b) in mstate:
        return ("module-" + what, b, node)
    return ("module-" + what, b, node)


def norm_target(t):
    try:
        return " ".join(ast.unparse(t).split())
    except Exception:
        return "?"


def cache_constructs(fi):
    out = []
    for d in fi.node.decorator_list:
        nm = d
        if isinstance(nm, ast.Call):
            nm = nm.func
        s = nm.id if isinstance(nm, ast.Name) else (nm.attr if isinstance(nm, ast.Attribute) else "")
        if s in CACHE_DECOS:
            out.append(("cache-decorator", s, d))
    # mutable defaults that are mutated in the body
    a = fi.node.args
    defaults = list(zip([p.arg for p in (a.posonlyargs + a.args)][-len(a.defaults):] if a.defaults else [],
                        a.defaults))
    for name, dv in defaults:
        if isinstance(dv, (ast.Dict, ast.List, ast.Set)) or (
                isinstance(dv, ast.Call) and isinstance(dv.func, ast.Name) and dv.func.id in ("dict", "list", "set")):
            for n in ast.walk(fi.node):
                if isinstance(n, ast.Call) and isinstance(n.func, ast.Attribute) and n.func.attr in MUTATORS \
                        and base_name(n.func.value) == name:
                    out.append(("mutable-default", name, n))
                if isinstance(n, ast.Subscript) and isinstance(n.ctx, ast.Store) and base_name(n) == name:
                    out.append(("mutable-default", name, n))
    # function attributes used as storage
    for n in ast.walk(fi.node):
        if isinstance(n, ast.Attribute) and isinstance(n.ctx, ast.Store) and isinstance(n.value, ast.Name) \
                and n.value.id == fi.node.name:
            out.append(("function-attribute", n.attr, n))
    return out
