"""Syntactic sugar removed before any analysis reads a module.

Every engine (E1 folder, E3 interpreter, E5 effects, the structural clauses) works on the tree
this pass returns, so newer surface syntax is read as the core statements it abbreviates:

* ``match``/``case`` (PEP 634) becomes an if/elif chain: value, singleton, class (keyword
  sub-patterns), sequence (fixed length), or- and capture patterns, with guards.  Captured names
  are substituted by the (pure) expression they capture in the guard and assigned at the top of
  the case body.  A statement that uses a pattern outside this set (star, mapping, positional
  class patterns of user classes, captures inside an or-pattern) is left as it is, and the engines
  report it as an idiom outside their subset (no verdict) -- never a guess.
* the conditional update ``x = A if c else x`` (or ``x = x if c else B``) becomes ``if c: x = A``.
* an assignment expression (PEP 572) that is the first thing a statement evaluates
  (``if (x := f()) is None``, ``if not (m := P.match(s))``, ``while (y := g()) > 0``) is hoisted
  into an assignment in front of the statement.  Assignment expressions elsewhere (a later
  operand of and/or, inside a comprehension) stay; E1 and E3 evaluate them natively.

Line numbers of the original statements are kept on the generated ones.
"""
import ast
import copy


class _Unsupported(Exception):
    pass


_BUILTIN_SELF = {"str", "int", "float", "bool", "bytes", "list", "tuple", "dict", "set", "frozenset", "bytearray"}


def _clone(n):
    if isinstance(n, ast.AST):
        new = n.__class__()
        for f in n._fields:
            if hasattr(n, f):
                setattr(new, f, _clone(getattr(n, f)))
        for a in ("lineno", "col_offset", "end_lineno", "end_col_offset"):
            if hasattr(n, a):
                setattr(new, a, getattr(n, a))
        return new
    if isinstance(n, list):
        return [_clone(x) for x in n]
    return n


def _loc(new, old):
    for x in ast.walk(new):
        if not hasattr(x, "lineno"):
            ast.copy_location(x, old)
        for a in ("lineno", "col_offset"):
            if getattr(x, a, None) is None:
                setattr(x, a, getattr(old, a, 0))
    return new


def _pure(e):
    """re-evaluable without effect: names, constants, attribute / constant-subscript chains"""
    if isinstance(e, (ast.Name, ast.Constant)):
        return True
    if isinstance(e, ast.Attribute):
        return _pure(e.value)
    if isinstance(e, ast.Subscript):
        return _pure(e.value) and isinstance(e.slice, ast.Constant)
    return False


def _true():
    return ast.Constant(value=True)


def _is_true(e):
    return isinstance(e, ast.Constant) and e.value is True


def _and(tests):
    tests = [t for t in tests if not _is_true(t)]
    if not tests:
        return _true()
    if len(tests) == 1:
        return tests[0]
    return ast.BoolOp(op=ast.And(), values=tests)


class _Subst(ast.NodeTransformer):
    def __init__(self, mapping):
        self.mapping = mapping

    def visit_Name(self, n):
        if isinstance(n.ctx, ast.Load) and n.id in self.mapping:
            return _clone(self.mapping[n.id])
        return n


class _Matcher:
    def __init__(self, counter):
        self.counter = counter

    def pattern(self, p, subj, elts=None, listy=False):
        """(test expression, [(name, source expression)]) for pattern *p* on the pure expression
        *subj* (or on the element expressions *elts* when the subject is a tuple display)"""
        if isinstance(p, ast.MatchValue):
            if subj is None:
                raise _Unsupported()
            return ast.Compare(left=_clone(subj), ops=[ast.Eq()], comparators=[_clone(p.value)]), []
        if isinstance(p, ast.MatchSingleton):
            if subj is None:
                raise _Unsupported()
            return ast.Compare(left=_clone(subj), ops=[ast.Is()], comparators=[ast.Constant(value=p.value)]), []
        if isinstance(p, ast.MatchAs):
            if p.pattern is None:
                if p.name is None:
                    return _true(), []
                if subj is None:
                    raise _Unsupported()
                return _true(), [(p.name, subj)]
            t, b = self.pattern(p.pattern, subj, elts, listy)
            if p.name is not None:
                if subj is None:
                    raise _Unsupported()
                b = b + [(p.name, subj)]
            return t, b
        if isinstance(p, ast.MatchOr):
            tests = []
            for q in p.patterns:
                t, b = self.pattern(q, subj, elts, listy)
                if b:
                    raise _Unsupported()
                tests.append(t)
            if any(_is_true(t) for t in tests):
                return _true(), []
            return ast.BoolOp(op=ast.Or(), values=tests), []
        if isinstance(p, ast.MatchClass):
            if subj is None:
                raise _Unsupported()
            tests = [ast.Call(func=ast.Name(id="isinstance", ctx=ast.Load()),
                              args=[_clone(subj), _clone(p.cls)], keywords=[])]
            binds = []
            if p.patterns:
                if len(p.patterns) == 1 and isinstance(p.cls, ast.Name) and p.cls.id in _BUILTIN_SELF:
                    t, b = self.pattern(p.patterns[0], subj)
                    tests.append(t)
                    binds += b
                else:
                    raise _Unsupported()
            for attr, sp in zip(p.kwd_attrs, p.kwd_patterns):
                t, b = self.pattern(sp, ast.Attribute(value=_clone(subj), attr=attr, ctx=ast.Load()))
                tests.append(t)
                binds += b
            return _and(tests), binds
        if isinstance(p, ast.MatchSequence):
            if any(isinstance(q, ast.MatchStar) for q in p.patterns):
                raise _Unsupported()
            n = len(p.patterns)
            if elts is not None:
                if len(elts) != n:
                    return ast.Constant(value=False), []
                tests, binds = [], []
                for q, e in zip(p.patterns, elts):
                    t, b = self.pattern(q, e)
                    tests.append(t)
                    binds += b
                return _and(tests), binds
            if subj is None:
                raise _Unsupported()
            tests = []
            if not listy:
                tests.append(ast.Call(func=ast.Name(id="isinstance", ctx=ast.Load()), args=[
                    _clone(subj), ast.Tuple(elts=[ast.Name(id="list", ctx=ast.Load()),
                                                  ast.Name(id="tuple", ctx=ast.Load())], ctx=ast.Load())],
                    keywords=[]))
            tests.append(ast.Compare(
                left=ast.Call(func=ast.Name(id="len", ctx=ast.Load()), args=[_clone(subj)], keywords=[]),
                ops=[ast.Eq()], comparators=[ast.Constant(value=n)]))
            binds = []
            for i, q in enumerate(p.patterns):
                t, b = self.pattern(q, ast.Subscript(value=_clone(subj), slice=ast.Constant(value=i), ctx=ast.Load()))
                tests.append(t)
                binds += b
            return _and(tests), binds
        raise _Unsupported()

    def match(self, st):
        """statements replacing the match statement *st*; raises _Unsupported"""
        pre = []
        subj = st.subject
        elts = None
        listy = False
        if isinstance(subj, ast.Tuple) and not any(isinstance(e, ast.Starred) for e in subj.elts):
            elts = []
            for e in subj.elts:
                if _pure(e):
                    elts.append(e)
                else:
                    self.counter[0] += 1
                    nm = "_match_{}".format(self.counter[0])
                    pre.append(ast.Assign(targets=[ast.Name(id=nm, ctx=ast.Store())], value=e))
                    elts.append(ast.Name(id=nm, ctx=ast.Load()))
            subj_e = None
            # a capture of the whole tuple needs the tuple itself
            whole = ast.Tuple(elts=[_clone(e) for e in elts], ctx=ast.Load())
        elif _pure(subj):
            subj_e = subj
            whole = subj
        else:
            listy = isinstance(subj, (ast.List, ast.ListComp)) or (
                isinstance(subj, ast.Call) and isinstance(subj.func, ast.Name) and subj.func.id in ("list", "sorted"))
            self.counter[0] += 1
            nm = "_match_{}".format(self.counter[0])
            pre.append(ast.Assign(targets=[ast.Name(id=nm, ctx=ast.Store())], value=subj))
            subj_e = ast.Name(id=nm, ctx=ast.Load())
            whole = subj_e
        chain = None
        last = None
        for case in st.cases:
            p = case.pattern
            if elts is not None and not isinstance(p, (ast.MatchSequence, ast.MatchOr)):
                t, b = self.pattern(p, whole)
            elif elts is not None and isinstance(p, ast.MatchOr):
                tests = []
                for q in p.patterns:
                    if isinstance(q, ast.MatchSequence):
                        t_, b_ = self.pattern(q, None, elts)
                    else:
                        t_, b_ = self.pattern(q, whole)
                    if b_:
                        raise _Unsupported()
                    tests.append(t_)
                t = _true() if any(_is_true(x) for x in tests) else ast.BoolOp(op=ast.Or(), values=tests)
                b = []
            else:
                t, b = self.pattern(p, subj_e, elts, listy)
            mapping = {}
            for name, src in b:
                if name in mapping:
                    raise _Unsupported()
                mapping[name] = src
            test = t
            if case.guard is not None:
                g = _Subst(mapping).visit(_clone(case.guard)) if mapping else case.guard
                test = _and([t, g])
            body = [ast.Assign(targets=[ast.Name(id=name, ctx=ast.Store())], value=_clone(src))
                    for name, src in b
                    if not (isinstance(src, ast.Name) and src.id == name)] + list(case.body)
            if _is_true(test):
                if last is None:
                    chain = body
                else:
                    last.orelse = body
                last = "closed"
                break
            node = ast.If(test=test, body=body, orelse=[])
            if last is None:
                chain = [node]
            else:
                last.orelse = [node]
            last = node
        out = pre + (chain or [ast.Pass()])
        for x in out:
            _loc(x, st)
        return out


def _leftmost_walrus(e, parent_setter=None):
    """(NamedExpr node, setter replacing it) when it is the first thing *e* evaluates"""
    cur = e
    setter = parent_setter
    while True:
        if isinstance(cur, ast.NamedExpr):
            return cur, setter
        if isinstance(cur, ast.UnaryOp):
            nxt, setter = cur.operand, (lambda v, c=cur: setattr(c, "operand", v))
        elif isinstance(cur, ast.Compare):
            nxt, setter = cur.left, (lambda v, c=cur: setattr(c, "left", v))
        elif isinstance(cur, ast.BoolOp):
            nxt, setter = cur.values[0], (lambda v, c=cur: c.values.__setitem__(0, v))
        elif isinstance(cur, ast.BinOp):
            nxt, setter = cur.left, (lambda v, c=cur: setattr(c, "left", v))
        elif isinstance(cur, (ast.Attribute, ast.Subscript, ast.Starred)):
            nxt, setter = cur.value, (lambda v, c=cur: setattr(c, "value", v))
        elif isinstance(cur, ast.IfExp):
            nxt, setter = cur.test, (lambda v, c=cur: setattr(c, "test", v))
        elif isinstance(cur, (ast.Tuple, ast.List)) and cur.elts:
            nxt, setter = cur.elts[0], (lambda v, c=cur: c.elts.__setitem__(0, v))
        elif isinstance(cur, ast.Call):
            if isinstance(cur.func, ast.NamedExpr) or not _pure(cur.func):
                nxt, setter = cur.func, (lambda v, c=cur: setattr(c, "func", v))
            elif cur.args:
                nxt, setter = cur.args[0], (lambda v, c=cur: c.args.__setitem__(0, v))
            else:
                return None, None
        else:
            return None, None
        cur = nxt


def _hoist(expr_get, expr_set, st):
    """assignments hoisted out of the expression of statement *st* (in evaluation order)"""
    pre = []
    for _ in range(8):
        e = expr_get()
        if e is None:
            break
        w, setter = _leftmost_walrus(e, expr_set)
        if w is None or not isinstance(w.target, ast.Name):
            break
        # hoist what the value itself evaluates first
        inner = []
        holder = [w.value]
        inner = _hoist(lambda: holder[0], lambda v: holder.__setitem__(0, v), st)
        pre.extend(inner)
        pre.append(_loc(ast.Assign(targets=[ast.Name(id=w.target.id, ctx=ast.Store())], value=holder[0]), st))
        setter(_loc(ast.Name(id=w.target.id, ctx=ast.Load()), st))
    return pre


class _Pass:
    def __init__(self):
        self.counter = [0]
        self.matcher = _Matcher(self.counter)

    def block(self, stmts):
        out = []
        for st in stmts:
            out.extend(self.stmt(st))
        return out

    def stmt(self, st):
        # nested blocks first
        for fld in ("body", "orelse", "finalbody"):
            v = getattr(st, fld, None)
            if isinstance(v, list) and v and isinstance(v[0], ast.stmt):
                setattr(st, fld, self.block(v))
        for h in getattr(st, "handlers", []) or []:
            h.body = self.block(h.body)
        if isinstance(st, ast.Match):
            for c in st.cases:
                c.body = self.block(c.body)
            try:
                new = self.matcher.match(st)
            except _Unsupported:
                return [st]
            return self.block_no_recurse(new)
        return self.hoist_stmt(st)

    def block_no_recurse(self, stmts):
        """generated if-chains: hoist assignment expressions of the generated tests"""
        out = []
        for st in stmts:
            if isinstance(st, ast.If):
                st.orelse = self.block_no_recurse(st.orelse)
            out.extend(self.hoist_stmt(st))
        return out

    def hoist_stmt(self, st):
        if isinstance(st, ast.If):
            pre = _hoist(lambda: st.test, lambda v: setattr(st, "test", v), st)
            return pre + [st]
        if isinstance(st, ast.While):
            probe, _s = _leftmost_walrus(st.test, None)
            if probe is None:
                return [st]
            holder = [st.test]
            pre = _hoist(lambda: holder[0], lambda v: holder.__setitem__(0, v), st)
            stop = ast.If(test=ast.UnaryOp(op=ast.Not(), operand=holder[0]),
                          body=list(st.orelse) + [ast.Break()], orelse=[])
            new = ast.While(test=ast.Constant(value=True), body=pre + [stop] + st.body, orelse=[])
            return [_loc(new, st)]
        if isinstance(st, (ast.Assign, ast.AugAssign, ast.AnnAssign, ast.Return, ast.Expr)):
            if getattr(st, "value", None) is None:
                return [st]
            split = self.split_ifexp(st)
            if split is not None:
                return split
            if isinstance(st, ast.Expr) and isinstance(st.value, ast.NamedExpr):
                return [st]
            pre = _hoist(lambda: st.value, lambda v: setattr(st, "value", v), st)
            return pre + [st]
        if isinstance(st, ast.Assert):
            pre = _hoist(lambda: st.test, lambda v: setattr(st, "test", v), st)
            return pre + [st]
        return [st]


def _split_ifexp(self, st):
    """x = A if c else B  ->  if c: x = A / else: x = B   (likewise return); x = x is dropped"""
    v = st.value
    if not isinstance(v, ast.IfExp):
        return None
    # only the conditional update  x = A if c else x  /  x = x if c else B  is rewritten (it is the
    # statement 'if c: x = A'); other conditional expressions stay expressions, which is how the
    # printer templates and the expression-helper inlining read them
    tname = None
    if isinstance(st, ast.Assign) and len(st.targets) == 1 and isinstance(st.targets[0], ast.Name):
        tname = st.targets[0].id
    elif isinstance(st, ast.AnnAssign) and isinstance(st.target, ast.Name) and st.simple:
        tname = st.target.id
    if tname is None or not any(isinstance(b_, ast.Name) and b_.id == tname for b_ in (v.body, v.orelse)):
        return None
    if isinstance(st, ast.Return):
        mk = lambda e: [ast.Return(value=e)]                      # noqa: E731
    elif isinstance(st, ast.Assign) and len(st.targets) == 1 and isinstance(st.targets[0], ast.Name):
        name = st.targets[0].id

        def mk(e):
            if isinstance(e, ast.Name) and e.id == name:
                return []
            return [ast.Assign(targets=[ast.Name(id=name, ctx=ast.Store())], value=e)]
    elif isinstance(st, ast.AnnAssign) and isinstance(st.target, ast.Name) and st.simple:
        name = st.target.id

        def mk(e):
            if isinstance(e, ast.Name) and e.id == name:
                return []
            return [ast.Assign(targets=[ast.Name(id=name, ctx=ast.Store())], value=e)]
    else:
        return None
    body, orelse = mk(v.body), mk(v.orelse)
    test = v.test
    if not body and not orelse:
        return [_loc(ast.Expr(value=test), st)]
    if not body:
        test = ast.UnaryOp(op=ast.Not(), operand=test)
        body, orelse = orelse, []
    new = _loc(ast.If(test=test, body=body, orelse=orelse), st)
    # nested conditional expressions and assignment expressions of the new statements
    new.body = self.block(new.body)
    new.orelse = self.block(new.orelse)
    return self.hoist_stmt(new)


_Pass.split_ifexp = _split_ifexp


def desugar(tree):
    """the module tree with match statements and leading assignment expressions rewritten (in place)"""
    p = _Pass()

    def walk_defs(body):
        new = p.block(body)
        return new
    tree.body = walk_defs(tree.body)
    ast.fix_missing_locations(tree)
    return tree
