#!/bin/bash
# benigncheck.sh <PROP> <k> : validate one behaviour-preserving refactoring written by a sub-agent and run
# every check on it.  Any check that does not exit 0 on it is a false alarm (exit 1) or an incomplete
# analysis (exit 2) of the machinery.
# Input:  /tmp/wtb_<PROP>/seed_out/patch<k>.diff, equiv<k>.py, notes<k>.md   (round N>1: /tmp/wtb<N>_<PROP>, tag <PROP>-r<N>-<k>)
# A patch stored under /verif/seeded/benign/<tag>/patch.diff (e.g. rebased onto a later HEAD) takes precedence.
# Output: /verif/seeded/benign/<PROP>-<k>/{patch.diff,equiv.py,notes.md,meta.json,checks.txt}
set -u
P=$1; K=$2; R=${3:-1}
if [ "$R" = "1" ]; then ORIG=/tmp/wtb_$P; TAG=$P-$K; else ORIG=/tmp/wtb${R}_$P; TAG=$P-r$R-$K; fi
SRC=$ORIG/seed_out
WT=/tmp/sb_$TAG
OUT=/verif/seeded/benign/$TAG
# the agents' scratch worktrees are removed at the end of the session; the patch, the equivalence script
# and the notes are kept under /verif/seeded/benign/<tag>/ and are enough for RECHECK_ONLY=1
[ -f $SRC/patch$K.diff ] || [ -f $OUT/patch.diff ] || { echo "no patch $SRC/patch$K.diff"; exit 3; }
PATCH=$SRC/patch$K.diff
[ -f $OUT/patch.diff ] && PATCH=$OUT/patch.diff
rm -rf $WT; git -C /repo worktree add -q --detach $WT HEAD || exit 3
cd $WT
res_apply=ok; git apply $PATCH 2>/dev/null || git apply -3 $PATCH || res_apply=fail
# RECHECK_ONLY=1: the refactoring was confirmed earlier (meta.json holds the test and equivalence outcome);
# only the checks are run again, e.g. after a change of the machinery
if [ "${RECHECK_ONLY:-0}" = "1" ] && [ -f $OUT/meta.json ]; then
  tests=$(/venv/bin/python -c "import json;print(json.load(open('$OUT/meta.json'))['tests_with_change'])")
  same=$(/venv/bin/python -c "import json;print('yes' if json.load(open('$OUT/meta.json'))['equivalence_digest_identical'] else 'no')")
else
tests=$(PYTHONPATH=$WT timeout 900 /venv/bin/python -m pytest -q -p no:cacheprovider tests 2>&1 | tail -1)
LOCK=/tmp/seedlock_$(basename $ORIG)
flock $LOCK sh -c "cd $ORIG && git checkout -q -- . && git clean -fdq -e seed_out -e __pycache__ && git apply $SRC/patch$K.diff && PYTHONPATH=$ORIG timeout 3000 /venv/bin/python seed_out/equiv$K.py > $WT/equiv_with.log 2> $WT/equiv_with.err; git checkout -q -- .; git clean -fdq -e seed_out -e __pycache__"
flock $LOCK sh -c "cd $ORIG && git checkout -q -- . && PYTHONPATH=$ORIG timeout 3000 /venv/bin/python seed_out/equiv$K.py > $WT/equiv_without.log 2> $WT/equiv_without.err"
same=no; cmp -s $WT/equiv_with.log $WT/equiv_without.log && [ -s $WT/equiv_with.log ] && same=yes
fi
mkdir -p $WT/chk
ls /verif/sa/checks | sed -n 's/^\(c[0-9][0-9]\)\.py$/\1/p' | tr a-z A-Z | xargs -P 10 -I{} sh -c "cd /verif && timeout 900 /venv/bin/python sa/run.py {} --repo $WT --scratch > $WT/chk/{}.log 2>&1; echo \$? > $WT/chk/{}.rc"
mkdir -p $OUT
[ -f $OUT/patch.diff ] || cp $SRC/patch$K.diff $OUT/patch.diff; cp $SRC/equiv$K.py $OUT/equiv.py 2>/dev/null; cp $SRC/notes$K.md $OUT/notes.md 2>/dev/null
: > $OUT/checks.txt
alarm=""; undec=""
for f in $WT/chk/*.rc; do id=$(basename $f .rc); rc=$(cat $f);
  if [ "$rc" != "0" ]; then grep -v "^  *ok\|^analysed" $WT/chk/$id.log | cut -c1-600 | head -60 > $OUT/$id.log; fi
  if [ "$rc" = "1" ]; then alarm="$alarm $id"; grep -B2 "^VIOLATION" $WT/chk/$id.log | grep -v "^VIOLATION\|witness\|^--" | cut -c1-400 | sed "s/^/$id: /" >> $OUT/checks.txt; fi
  if [ "$rc" != "0" ] && [ "$rc" != "1" ]; then undec="$undec $id"; grep -E "^UNDECIDED|^ANALYSIS-ERROR" $WT/chk/$id.log | cut -c1-300 | sed "s/^/$id: /" >> $OUT/checks.txt; fi
done
BENIGN_TAG=$TAG /venv/bin/python - "$P" "$K" "$res_apply" "$tests" "$same" "$alarm" "$undec" <<'PY'
import json,sys
from os import environ as _os_env
P,K,app,tests,same,alarm,undec=sys.argv[1:8]
import os, re
# what the checks said the first time this refactoring was run (before any correction of the machinery):
# kept from the first run's meta.json
first_pass=None
import os as _os
TAG=_os.environ.get("BENIGN_TAG","%s-%s"%(P,K))
mp="/verif/seeded/benign/%s/meta.json"%TAG
if os.path.exists(mp):
    try:
        old=json.load(open(mp))
        first_pass=old.get("first_pass") or {"alarms":old.get("checks_raising_alarm",[]),"incomplete":old.get("checks_analysis_incomplete",[])}
    except ValueError:
        pass
if first_pass is None:
    first_pass={"alarms":alarm.split(),"incomplete":undec.split()}
meta={"property":P,"variant":int(K),"kind":"behaviour-preserving refactoring","patch_applies":app=="ok",
      "tests_with_change":tests.strip(),"equivalence_digest_identical":same=="yes",
      "confirmed_benign": app=="ok" and "70 passed" in tests and same=="yes",
      "checks_raising_alarm":alarm.split(),"checks_analysis_incomplete":undec.split(),
      "first_pass": first_pass,
      "how_run":"sa/benigncheck.sh %s %s: patch applied in a scratch worktree of /repo HEAD; pytest tests; equiv script with/without the change in the agent's worktree (outputs compared); every check run with --repo <worktree> --scratch"%(P,K)}
import subprocess as _sp
meta["machinery_commit"]=_sp.run(["git","-C","/verif","rev-parse","--short","HEAD"],capture_output=True,text=True).stdout.strip()
meta["checks_rerun_only"]=_os_env.get("RECHECK_ONLY","0")=="1"
json.dump(meta,open("/verif/seeded/benign/%s/meta.json"%TAG,"w"),indent=1)
print(json.dumps(meta))
PY
cd /; git -C /repo worktree remove --force $WT
