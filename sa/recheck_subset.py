#!/venv/bin/python
"""recheck_subset.py [--all-checks] : re-run, on every kept sub-agent patch, the (patch, check) pairs a
machinery change can have affected, and merge the outcome into seeded/**/meta.json.

A full re-run (sa/seedcheck.sh / sa/benigncheck.sh with RECHECK_ONLY=1, every check on every patch) costs
about an hour on 16 cores.  This script is the bounded version used when the change is confined to named
checks.  Pairs that are run:

  * ALWAYS (checks that gained a clause or whose code changed so that a *new* report is possible): every patch;
  * REMOVED_ONLY (checks whose change can only withdraw reports): the patches on which that check reported
    or ended without a verdict before;
  * every (patch, check) pair that ended without a verdict before (run.py now keeps construct-reporting
    violations across an analysis error);
  * every check on patches that put a valued annotated assignment into a class body (E3 reads it as a class
    attribute now).

The patch is applied to a scratch copy of /repo's ctparse/ and scripts/ under a fresh temporary directory
(removed afterwards); the confirmation of the patch (tests, demonstration, equivalence digest) is not repeated.
"""
import glob
import json
import os
import re
import shutil
import subprocess
import sys
import tempfile
from concurrent.futures import ProcessPoolExecutor

VERIF = os.path.dirname(os.path.dirname(os.path.abspath(__file__)))
REPO = "/repo"
ALL = ["C01", "C02", "C03", "C04", "C05", "C06", "C07", "C08", "C09", "C10", "C11", "C12", "C13", "C14",
       "C15", "C17", "C18", "C19", "C20"]
ALWAYS = os.environ.get("RECHECK_ALWAYS", "C10 C13 C14 C19").split()
REMOVED_ONLY = os.environ.get("RECHECK_REMOVED_ONLY", "C01 C03 C06 C11 C17 C18").split()
CLASS_ANN = re.compile(r"^\+    [A-Za-z_][A-Za-z_0-9]*\s*:\s*[^=\n]+=\s*\S", re.M)


def kept():
    out = []
    for meta in sorted(glob.glob(os.path.join(VERIF, "seeded", "C*", "meta.json"))):
        out.append(("seed", os.path.dirname(meta)))
    for meta in sorted(glob.glob(os.path.join(VERIF, "seeded", "benign", "*", "meta.json"))):
        out.append(("benign", os.path.dirname(meta)))
    return out


def run_patch(args):
    kind, d, checks = args
    tmp = tempfile.mkdtemp(prefix="sa_recheck_")
    res = {}
    try:
        for sub in ("ctparse", "scripts"):
            src = os.path.join(REPO, sub)
            if os.path.isdir(src):
                shutil.copytree(src, os.path.join(tmp, sub), ignore=shutil.ignore_patterns("__pycache__"))
        r = subprocess.run(["git", "apply", "--whitespace=nowarn", "--include=ctparse/*", "--include=scripts/*",
                            os.path.join(d, "patch.diff")], cwd=tmp, capture_output=True, text=True)
        if r.returncode != 0:
            return kind, d, None, "patch does not apply: " + r.stderr[:200]
        for c in checks:
            p = subprocess.run(["/venv/bin/python", os.path.join(VERIF, "sa", "run.py"), c, "--repo", tmp, "--scratch"],
                               capture_output=True, text=True, timeout=1200)
            lines = []
            out = p.stdout.splitlines()
            if p.returncode == 1:
                for i, ln in enumerate(out):
                    if ln.startswith("VIOLATION"):
                        for j in range(max(0, i - 2), i):
                            if "witness" not in out[j]:
                                lines.append(out[j].replace(tmp + "/", "")[:400])
            elif p.returncode != 0:
                lines = [ln[:300] for ln in out if ln.startswith(("UNDECIDED", "ANALYSIS-ERROR"))]
            res[c] = (p.returncode, lines)
        return kind, d, res, None
    finally:
        shutil.rmtree(tmp, ignore_errors=True)


def main():
    all_checks = "--all-checks" in sys.argv
    only = [a for a in sys.argv[1:] if not a.startswith("--")]
    jobs = []
    for kind, d in kept():
        if only and not any(o in d for o in only):
            continue
        with open(os.path.join(d, "meta.json"), encoding="utf-8") as fd:
            m = json.load(fd)
        fired = set(m.get("checks_reporting_violation") or m.get("checks_raising_alarm") or [])
        und = set(m.get("checks_analysis_incomplete") or [])
        checks = set(ALWAYS) | und | {c for c in REMOVED_ONLY if c in fired}
        try:
            with open(os.path.join(d, "patch.diff"), encoding="utf-8") as fd:
                if CLASS_ANN.search(fd.read()):
                    checks = set(ALL)
        except OSError:
            continue
        if all_checks:
            checks = set(ALL)
        # one job per (patch, check): better balance than one per patch
        for c in sorted(checks):
            jobs.append((kind, d, [c]))
    print("pairs to run:", len(jobs))
    head = subprocess.run(["git", "-C", VERIF, "rev-parse", "--short", "HEAD"], capture_output=True, text=True).stdout.strip()
    merged = {}
    with ProcessPoolExecutor(max_workers=int(os.environ.get("JOBS", "16"))) as ex:
        for kind, d, res, err in ex.map(run_patch, jobs, chunksize=1):
            if err:
                print("SKIP", d, err)
                continue
            merged.setdefault((kind, d), {}).update(res)
    changes = []
    for (kind, d), res in sorted(merged.items()):
        mp = os.path.join(d, "meta.json")
        with open(mp, encoding="utf-8") as fd:
            m = json.load(fd)
        fkey = "checks_reporting_violation" if kind == "seed" else "checks_raising_alarm"
        fired = set(m.get(fkey) or [])
        und = set(m.get("checks_analysis_incomplete") or [])
        before = (sorted(fired), sorted(und))
        for c, (rc, _lines) in res.items():
            fired.discard(c)
            und.discard(c)
            if rc == 1:
                fired.add(c)
            elif rc != 0:
                und.add(c)
        m[fkey] = sorted(fired)
        m["checks_analysis_incomplete"] = sorted(und)
        if kind == "seed":
            m["detected_by_own_property_check"] = m["property"] in fired
        m["machinery_commit"] = head
        m["checks_rerun_only"] = True
        m["checks_rerun_subset"] = sorted(set(m.get("checks_rerun_subset") or []) | set(res))
        with open(mp, "w", encoding="utf-8") as fd:
            json.dump(m, fd, indent=1)
        # checks.txt: replace the lines of the re-run checks
        cp = os.path.join(d, "checks.txt")
        try:
            with open(cp, encoding="utf-8") as fd:
                old = [ln for ln in fd.read().splitlines() if ln[:3] not in res]
        except OSError:
            old = []
        for c, (rc, lines) in sorted(res.items()):
            old.extend("{}: {}".format(c, ln) for ln in lines)
        with open(cp, "w", encoding="utf-8") as fd:
            fd.write("\n".join(old) + ("\n" if old else ""))
        after = (sorted(fired), sorted(und))
        if before != after:
            changes.append("{} {}: fired {} -> {}; no verdict {} -> {}".format(
                kind, os.path.basename(d), before[0], after[0], before[1], after[1]))
    print("\n".join(changes))
    print("patches touched:", len(merged), "changed:", len(changes))


if __name__ == "__main__":
    main()
