"""E3 part 2 — calls, object construction, statements."""
import ast
import datetime as _dtmod

from .core import Undecided
from . import e1_model as e1
from . import e2_regex as e2
from .e3_values import *   # noqa
from .e3_values import INF
from .e3_state import State, Issue, Effect, merge_states
from .e3_interp import (Interp as _Base, Raised, PathLimit, exc_matches, join_vals, ABS_KEYS,
                        REL_KEYS, TD_KEYS, DT_RANGES, MAX_DEPTH)


# datetime.timedelta(**{unit: n}) raises OverflowError in the constructor beyond these magnitudes
TD_CTOR_LIMIT = {"days": 999999999, "weeks": 142857142, "hours": 23999999976, "minutes": 1439999998560,
                 "seconds": 86399999913600}

class Interp(_Base):
    def __init__(self, ctx):
        super().__init__(ctx)
        self.cur_fnode = []
        self.construct_log = None

    # ------------------------------------------------------------------
    # calls
    # ------------------------------------------------------------------
    # comprehensions (single or nested generators over known-length iterables)
    def _comp_iter(self, n, st, gi, on_item):
        """Enumerate bindings of generator gi..; calls on_item(state) -> list of
        (state, stop: bool); returns list of (state, stopped)."""
        g = n.generators[gi]
        out = []
        for s, itv in self.ev(g.iter, st):
            if isinstance(itv, Raised):
                out.append((s, itv))
                continue
            items = self._as_items(itv)
            if items is None:
                self.undecided(s, n, "comprehension over unknown iterable")
                out.append((s, "unknown"))
                continue
            states = [s]
            for x in items:
                nxt = []
                for s1 in states:
                    for s2, oc in self.assign(s1, g.target, x, n):
                        if oc[0] != "next":
                            out.append((s2, oc[1]))
                            continue
                        conds = [(s2, True)]
                        for c in g.ifs:
                            nc = []
                            for s3, ok in conds:
                                if ok is not True:
                                    nc.append((s3, ok))
                                    continue
                                nc.extend(self.cond(c, s3))
                            conds = nc
                        for s3, ok in conds:
                            if isinstance(ok, Raised):
                                out.append((s3, ok))
                            elif not ok:
                                nxt.append(s3)
                            elif gi + 1 < len(n.generators):
                                for s4, r in self._comp_iter(n, s3, gi + 1, on_item):
                                    if r is None:
                                        nxt.append(s4)
                                    else:
                                        out.append((s4, r))
                            else:
                                for s4, r in on_item(s3):
                                    if r is None:
                                        nxt.append(s4)
                                    else:
                                        out.append((s4, r))
                states = nxt
            out.extend((s1, None) for s1 in states)
        return out

    def _comp_frame(self, st):
        st.frames.append({"__parent__": len(st.frames) - 1})

    def _yield_into(self, s, vals):
        for fr in reversed(s.frames):
            if "__yield__" in fr:
                cur = fr["__yield__"]
                fr["__yield__"] = TupleV(cur.items + list(vals), True)
                return True
        return False

    def ev_Yield(self, n, st):
        out = []
        for s, v in (self.ev(n.value, st) if n.value is not None else [(st, NONE)]):
            if isinstance(v, Raised):
                out.append((s, v))
            elif self._yield_into(s, [v]):
                out.append((s, NONE))
            else:
                out.append((s, self.undecided(s, n, "yield outside an interpreted generator")))
        return out

    def ev_YieldFrom(self, n, st):
        out = []
        for s, v in self.ev(n.value, st):
            if isinstance(v, Raised):
                out.append((s, v))
                continue
            items = self._as_items(v)
            if items is None or not self._yield_into(s, items):
                out.append((s, self.undecided(s, n, "yield from an unknown iterable")))
            else:
                out.append((s, NONE))
        return out

    def ev_ListComp(self, n, st):
        return self._ev_comp(n, st, True)

    def ev_DictComp(self, n, st):
        """{k: v for ...} over an unrollable iterable -> a dict literal value"""
        pair = ast.Tuple(elts=[n.key, n.value], ctx=ast.Load())
        ast.copy_location(pair, n)
        proxy = ast.ListComp(elt=pair, generators=n.generators)
        ast.copy_location(proxy, n)
        out = []
        for s, v in self._ev_comp(proxy, st, True):
            if isinstance(v, Raised) or not isinstance(v, TupleV):
                out.append((s, v))
                continue
            items = []
            ok = True
            for it in v.items:
                if isinstance(it, TupleV) and len(it.items) == 2:
                    items.append((it.items[0], it.items[1]))
                else:
                    ok = False
            out.append((s, DictV(items) if ok else TopV("dict comprehension")))
        return out

    def ev_GeneratorExp(self, n, st):
        return self._ev_comp(n, st, False)

    def _ev_comp(self, n, st, is_list):
        self._comp_frame(st)
        key = "__acc{}__".format(id(n))
        st.frames[-1][key] = TupleV([], is_list=True)

        def on_item(s):
            res = []
            for s2, v in self.ev(n.elt, s):
                if isinstance(v, Raised):
                    res.append((s2, v))
                else:
                    acc = s2.frames[-1][key]
                    s2.frames[-1][key] = TupleV(acc.items + [v], True)
                    res.append((s2, None))
            return res
        out = []
        for s, r in self._comp_iter(n, st, 0, on_item):
            acc = s.frames[-1].get(key)
            s.frames.pop()
            if isinstance(r, Raised):
                out.append((s, r))
            elif r == "unknown":
                out.append((s, TopV("comprehension")))
            else:
                out.append((s, acc))
        return out

    def _all_any(self, n, st, is_all):
        """all(<genexp>) / any(<genexp>) with short circuit."""
        g = n.args[0]
        self._comp_frame(st)

        def on_item(s):
            res = []
            for s2, t in self.cond(g.elt, s):
                if isinstance(t, Raised):
                    res.append((s2, t))
                elif t != is_all:
                    res.append((s2, "stop"))
                else:
                    res.append((s2, None))
            return res
        out = []
        for s, r in self._comp_iter(g, st, 0, on_item):
            s.frames.pop()
            if isinstance(r, Raised):
                out.append((s, r))
            elif r == "unknown":
                out.append((s, BoolV(None, sym=("allany",))))
            elif r == "stop":
                out.append((s, BoolV(not is_all)))
            else:
                out.append((s, BoolV(is_all)))
        return out

    def _next_genexp(self, n, st):
        """next(<genexp>[, default]): the first element, lazily."""
        g = n.args[0]
        self._comp_frame(st)
        key = "__next{}__".format(id(n))

        def on_item(s):
            res = []
            for s2, v in self.ev(g.elt, s):
                if isinstance(v, Raised):
                    res.append((s2, v))
                else:
                    s2.frames[-1][key] = v
                    res.append((s2, "stop"))
            return res
        out = []
        for s, r in self._comp_iter(g, st, 0, on_item):
            got = s.frames[-1].get(key)
            s.frames.pop()
            if isinstance(r, Raised):
                out.append((s, r))
            elif r == "unknown":
                out.append((s, TopV("next over unknown iterable")))
            elif r == "stop":
                out.append((s, got))
            elif len(n.args) > 1:
                out.extend(self.ev(n.args[1], s))
            else:
                out.append((s, self.raised("stop-iteration", "StopIteration", n,
                                           "next() of an exhausted generator without default")))
        return out

    def ev_Call(self, n, st):
        if isinstance(n.func, ast.Name) and n.func.id in ("all", "any") and len(n.args) == 1 \
                and isinstance(n.args[0], (ast.GeneratorExp, ast.ListComp)) \
                and self.lookup(n.func.id, st, n)[1] is None:
            return self._all_any(n, st, n.func.id == "all")
        if isinstance(n.func, ast.Name) and n.func.id == "next" and 1 <= len(n.args) <= 2 \
                and isinstance(n.args[0], ast.GeneratorExp) and not n.keywords \
                and self.lookup("next", st, n)[1] is None:
            return self._next_genexp(n, st)
        out = []
        for s, fv in self.ev(n.func, st):
            if isinstance(fv, Raised):
                out.append((s, fv))
                continue
            # arguments
            arg_nodes = list(n.args)
            acc = self._ev_seq(arg_nodes, s, lambda items: items)
            for s2, args in acc:
                if isinstance(args, Raised):
                    out.append((s2, args))
                    continue
                kw_nodes = [k.value for k in n.keywords]
                for s3, kwv in self._ev_seq(kw_nodes, s2, lambda items: items):
                    if isinstance(kwv, Raised):
                        out.append((s3, kwv))
                        continue
                    kwargs = {}
                    bad = None
                    for k, v in zip(n.keywords, kwv):
                        if k.arg is not None:
                            kwargs[k.arg] = v
                            continue
                        # **mapping with constant string keys
                        if isinstance(v, DictV) and all(
                                isinstance(kv, StrV) and kv.is_const() for kv, _ in v.items):
                            for kv, vv in v.items:
                                kwargs[kv.const()] = vv
                        else:
                            bad = "**kwargs call"
                    if bad:
                        out.append((s3, self.undecided(s3, n, bad)))
                        continue
                    out.extend(self.call(s3, fv, args, kwargs, n))
        return out

    def call(self, st, fv, args, kwargs, node):
        if isinstance(fv, FuncV):
            res = []
            for s, oc in self.call_func(fv, args, kwargs, st, node):
                res.append((s, oc[1]))
            return res
        if isinstance(fv, ClassV):
            return self.instantiate(st, fv, args, kwargs, node)
        if isinstance(fv, ExtV):
            return self.call_ext(st, fv, args, kwargs, node)
        if isinstance(fv, RefV):
            mem = self.find_member(st.heap[fv.oid].cls, "__call__")
            if mem is not None and mem[0] == "func":
                bound = FuncV(mem[1], mem[2], bound_self=fv)
                return [(s, oc[1]) for s, oc in self._call_method(bound, mem[3], args, kwargs, st, node)]
        if isinstance(fv, PartialV):
            kw = dict(fv.kwargs)
            kw.update(kwargs)
            return self.call(st, fv.fv, list(fv.args) + list(args), kw, node)
        if isinstance(fv, GetterV) and len(args) == 1 and not kwargs:
            outs = [(st, [])]
            for nm in fv.names:
                nxt = []
                for s, acc in outs:
                    base_paths = [(s, args[0])]
                    for part in nm.split("."):
                        bp2 = []
                        for s1, b in base_paths:
                            if isinstance(b, Raised):
                                bp2.append((s1, b))
                            else:
                                bp2.extend(self.getattr_(s1, b, part, node))
                        base_paths = bp2
                    for s1, v in base_paths:
                        nxt.append((s1, v if isinstance(v, Raised) else acc + [v]))
                outs = nxt
            res = []
            for s, acc in outs:
                if isinstance(acc, Raised):
                    res.append((s, acc))
                else:
                    res.append((s, acc[0] if len(fv.names) == 1 else TupleV(acc)))
            return res
        if isinstance(fv, TopV):
            return [(st, self.undecided(st, node, "call of unknown value"))]
        return [(st, self.undecided(st, node, "call of " + fv.kind))]

    def getattr_(self, st, base, attr, node, default=None):
        if isinstance(base, _SuperV):
            obj = st.heap[base.selfv.oid]
            mro = self.class_of(obj.cls)
            idx = None
            for i, (m, c) in enumerate(mro):
                if c is base.cnode.cnode:
                    idx = i
            if idx is None:
                return [(st, self.undecided(st, node, "super() class not in MRO"))]
            for m, c in mro[idx + 1:]:
                for s_ in c.body:
                    if isinstance(s_, ast.FunctionDef) and s_.name == attr:
                        return [(st, _with_class(FuncV(m, s_, bound_self=base.selfv), c))]
            return [(st, ExtV("noop"))]
        return super().getattr_(st, base, attr, node, default)

    def is_rule_func(self, fnode):
        for d in fnode.decorator_list:
            if isinstance(d, ast.Call) and e1.callee_name(d.func) == "rule":
                return True
        return False

    def call_func(self, fv, args, kwargs, st, node, via_wrapper=True):
        """-> list of (state, ('ret', v) | ('raise', Raised))"""
        fnode = fv.node
        if via_wrapper and self.is_rule_func(fnode) and fv.bound_self is None \
                and not getattr(fv, "raw", False):
            return self.call_rule_wrapper(st, fv, args, node)
        if len(st.frames) > MAX_DEPTH:
            return [(st, ("ret", self.undecided(st, node, "call depth")))]
        other = [d for d in fnode.decorator_list
                 if not (isinstance(d, ast.Name) and d.id in ("property", "classmethod",
                                                               "staticmethod"))
                 and not self.is_rule_func(fnode)]
        cached = False
        if other:
            def _dn(d):
                d = d.func if isinstance(d, ast.Call) else d
                return d.id if isinstance(d, ast.Name) else getattr(d, "attr", "")
            if all(_dn(d) in ("lru_cache", "cache", "cached_property", "wraps") for d in other):
                cached = any(_dn(d) != "wraps" for d in other)
            else:
                return [(st, ("ret", self.undecided(st, node, "decorated callee " + fnode.name)))]
        frame = {}
        a = fnode.args
        params = [p.arg for p in a.posonlyargs + a.args]
        pos = list(args)
        if fv.bound_self is not None:
            pos = [fv.bound_self] + pos
        defaults = a.defaults
        for kwa, kwd in zip(a.kwonlyargs, a.kw_defaults):
            if kwa.arg in kwargs:
                frame[kwa.arg] = kwargs[kwa.arg]
            elif kwd is not None:
                frame[kwa.arg] = self.lift(self._fold_in(fv.mod, kwd))
            else:
                return [(st, ("raise", self.raised("arity", "TypeError", node,
                                                   "missing keyword-only argument " + kwa.arg)))]
        for i, p in enumerate(params):
            if i < len(pos):
                frame[p] = pos[i]
            elif p in kwargs:
                frame[p] = kwargs[p]
            else:
                di = i - (len(params) - len(defaults))
                if di < 0:
                    return [(st, ("raise", self.raised("arity", "TypeError", node,
                                                       "missing argument " + p)))]
                dv = self._fold_in(fv.mod, defaults[di])
                frame[p] = self.lift(dv)
        extra = pos[len(params):]
        if a.vararg:
            frame[a.vararg.arg] = TupleV(extra)
        elif extra:
            return [(st, ("raise", self.raised("arity", "TypeError", node, "too many arguments")))]
        unknown_kw = [k for k in kwargs if k not in params and k not in [x.arg for x in a.kwonlyargs]]
        if unknown_kw and not a.kwarg:
            return [(st, ("raise", self.raised("arity", "TypeError", node,
                                               "unexpected keyword " + unknown_kw[0])))]
        if a.kwarg:
            frame[a.kwarg.arg] = DictV([(StrV({k}), kwargs[k]) for k in unknown_kw])
        if fv.frame_depth is not None:
            live = fv.frame_depth < len(st.frames) and \
                st.frames[fv.frame_depth].get("__fid__") == getattr(fv, "def_fid", None)
            if live:
                frame["__parent__"] = fv.frame_depth
            else:
                # the defining frame has returned: read the captured variables
                for k, v in (getattr(fv, "def_frame", None) or {}).items():
                    if not k.startswith("__"):
                        frame.setdefault(k, v)
        if fv.closure:
            for k, v in fv.closure.items():
                frame.setdefault(k, v)
        is_gen = any(isinstance(x, (ast.Yield, ast.YieldFrom)) for x in _own_scope(fnode))
        if is_gen:
            # a generator function: interpreted eagerly, the call yields the list of what it
            # produces (no effects are attributed to laziness)
            frame["__yield__"] = TupleV([], True)
        st.frames.append(frame)
        self.cur_mod.append(fv.mod)
        qual = getattr(fnode, "_qual", fnode.name)
        self.cur_func.append(qual)
        self.cur_fnode.append(fnode)
        self.call_chain.append((fv.mod.rel, qual, getattr(node, "lineno", 0)))
        try:
            outs = self.exec_block(fnode.body, st)
        finally:
            self.cur_mod.pop()
            self.cur_func.pop()
            self.cur_fnode.pop()
            self.call_chain.pop()
        res = []
        for s, oc in outs:
            fr_ = s.frames.pop()
            if is_gen and oc[0] != "raise":
                res.append((s, ("ret", fr_.get("__yield__", TupleV([], True)))))
                continue
            if cached and oc[0] == "ret" and isinstance(oc[1], RefV):
                # a memoised result is one object shared by every caller with equal arguments
                o = s.heap[oc[1].oid]
                o.fresh = False
                o.sym = ("cached", qual, o.oid)
            if oc[0] == "ret":
                res.append((s, oc))
            elif oc[0] == "raise":
                res.append((s, oc))
            else:
                res.append((s, ("ret", NONE)))
        return res

    def call_rule_wrapper(self, st, fv, args, node):
        """A @rule-decorated name is bound to rule.fwrapper.wrapper: interpret that
        wrapper with f bound to the production."""
        rm = self.model.mod("ctparse.rule")
        w = rm.funcs.get("rule.fwrapper.wrapper")
        if w is None:
            return self._call_registered(st, fv, args, node, rm)
        fparam = rm.func("rule.fwrapper").args.args[0].arg
        inner = FuncV(fv.mod, fv.node, bound_self=None)
        inner._raw = True
        wv = FuncV(rm, w, closure={fparam: _RawFunc(inner)})
        return self.call_func(wv, args, {}, st, node, via_wrapper=False)

    def _call_registered(self, st, fv, args, node, rm):
        """The decorator does not wrap the production in a closure called 'wrapper': interpret the
        decorator's inner function on the production to obtain what it registers (any callable:
        a closure, an instance of a class with __call__), then call that."""
        fw = rm.funcs.get("rule.fwrapper")
        if fw is None or len(fw.args.args) != 1:
            return [(st, ("ret", self.undecided(st, node, "rule wrapper not found")))]
        inner = FuncV(fv.mod, fv.node, bound_self=None)
        inner._raw = True
        # names of rule()'s own frame that the inner function may read: unknown at this point
        outer = rm.funcs.get("rule")
        closure = {}
        if outer is not None:
            for n_ in ast.walk(outer):
                if isinstance(n_, ast.Name) and isinstance(n_.ctx, ast.Store):
                    closure.setdefault(n_.id, TupleV([], is_list=True))
            for a_ in ast.walk(outer.args):
                if isinstance(a_, ast.arg):
                    closure.setdefault(a_.arg, TupleV([]))
        n_eff = len(st.effects)
        n_und = len(st.undecided)
        outs = self.call_func(FuncV(rm, fw, closure=closure), [_RawFunc(inner)], {}, st, node, via_wrapper=False)
        res = []
        for s, oc in outs:
            # registering the rule is import-time work: its effects are not the production's
            del s.effects[n_eff:]
            if oc[0] != "ret":
                res.append((s, ("ret", self.undecided(s, node, "rule decorator raises on the production"))))
                continue
            reg = oc[1]
            if isinstance(reg, (FuncV, RefV, PartialV)):
                for s2, v in self.call(s, reg, args, {}, node):
                    res.append((s2, ("raise", v) if isinstance(v, Raised) else ("ret", v)))
            else:
                res.append((s, ("ret", self.undecided(s, node, "rule wrapper not found"))))
        return res

    # ------------------------------------------------------------------
    def instantiate(self, st, cv, args, kwargs, node):
        cref = self._enum_class(cv.name)
        if cref is not None:
            # Enum lookup by value
            if args and isinstance(args[0], StrV) and args[0].vals is not None:
                names = set()
                for m in cref.members.values():
                    if m.value in args[0].vals:
                        names.add(m.name)
                if len(names) == len(args[0].vals):
                    return [(st, EnumV(cv.name, names))]
            return [(st, self.raised("enum-value", "ValueError", node, "value may not name a member"))]
        obj = st.new_obj(cv, fresh=True)
        obj.site = self.construct("new", node)
        ref = RefV(obj.oid)
        mem = self.find_member(cv, "__init__")
        if mem is None or mem[0] != "func":
            # no constructor in the package: a plain class (no state), a typing.NamedTuple (fields
            # are the annotated names of the class body, in order), or a class whose construction
            # lives in a library base the interpreter has no model of
            ext_bases = [ast.unparse(b) for _m, c in self.class_of(cv) for b in c.bases
                         if not (isinstance(b, ast.Name) and isinstance(self.model.env(_m.name).get(b.id), e1.ClassRef))]
            if any(b.split(".")[-1] == "NamedTuple" for b in ext_bases):
                fields = []
                defaults = {}
                for st_ in cv.node.body:
                    if isinstance(st_, ast.AnnAssign) and isinstance(st_.target, ast.Name):
                        fields.append(st_.target.id)
                        if st_.value is not None:
                            defaults[st_.target.id] = st_.value
                if len(args) > len(fields) or any(k not in fields for k in kwargs):
                    return [(st, self.raised("arity", "TypeError", node, "NamedTuple arguments"))]
                vals = dict(zip(fields, args))
                vals.update(kwargs)
                states = [st]
                for fld in fields:
                    if fld in vals:
                        for s_ in states:
                            s_.heap[obj.oid].attrs[fld] = vals[fld]
                    elif fld in defaults:
                        nxt = []
                        for s_ in states:
                            for s2, v in self.ev(defaults[fld], s_):
                                if not isinstance(v, Raised):
                                    s2.heap[obj.oid].attrs[fld] = v
                                    nxt.append(s2)
                        states = nxt
                    else:
                        return [(st, self.raised("arity", "TypeError", node, "missing NamedTuple field " + fld))]
                return [(s_, ref) for s_ in states]
            if ext_bases and any(b not in ("object", "Generic", "ABC") and not b.startswith("Generic[") for b in ext_bases) \
                    and (args or kwargs):
                return [(st, self.undecided(st, node, "construction of a class with library base {}".format(ext_bases[0])))]
            return [(st, ref)]
        fv = FuncV(mem[1], mem[2], bound_self=ref)
        fv_cls = mem[3]
        out = []
        for s, oc in self._call_method(fv, fv_cls, args, kwargs, st, node):
            if oc[0] == "raise":
                out.append((s, oc[1]))
            else:
                if self.on_construct is not None:
                    self.on_construct(self, s, s.heap[obj.oid], node)
                if self.construct_log is not None:
                    o2 = s.heap[obj.oid]
                    self.construct_log.append((o2.site, self.where(node), o2.cls.name,
                                               dict(o2.attrs), o2.cal,
                                               self.cur_func[0] if self.cur_func else "?"))
                out.append((s, ref))
        return out

    def _call_method(self, fv, cnode, args, kwargs, st, node):
        # remember the defining class for super()
        res = self.call_func(_with_class(fv, cnode), args, kwargs, st, node)
        return res

    # ------------------------------------------------------------------
    def call_ext(self, st, fv, args, kwargs, node):
        name = fv.name
        b = fv.bound
        R = lambda v: [(st, v)]   # noqa
        if name == "noop":
            return R(NONE)
        if name in ("perf_counter", "monotonic", "time", "process_time", "module:time.perf_counter",
                    "module:time.time", "module:time.monotonic"):
            return R(FloatV(("clock",)))
        if name in ("copy", "deepcopy", "module:copy.copy", "module:copy.deepcopy"):
            v = args[0] if args else NONE
            if isinstance(v, RefV):
                src = st.heap[v.oid]
                o = st.new_obj(src.cls, fresh=True)
                o.attrs = dict(src.attrs)
                o.cal = src.cal
                o.site = self.construct("copy", node)
                o.copied_from = src.sym
                return R(RefV(o.oid))
            return R(v)
        if name == "cast":
            return R(args[1] if len(args) > 1 else TopV("cast"))
        if name in ("map", "filter") and len(args) == 2 and not kwargs:
            items = self._as_items(args[1])
            if items is None:
                return R(self.undecided(st, node, name + " over unknown iterable"))
            done = []
            cur = [(st, [])]
            for x in items:
                nxt = []
                for s_, acc in cur:
                    if name == "filter" and isinstance(args[0], NoneV):
                        outs_ = [(s_, x)]
                    else:
                        outs_ = self.call(s_, args[0], [x], {}, node)
                    for s2, v in outs_:
                        if isinstance(v, Raised):
                            done.append((s2, v))
                        elif name == "map":
                            nxt.append((s2, acc + [v]))
                        else:
                            for s3, t in self.truth(s2, v, node):
                                if isinstance(t, Raised):
                                    done.append((s3, t))
                                else:
                                    nxt.append((s3, acc + [x] if t else acc))
                cur = nxt
            return done + [(s_, TupleV(acc, is_list=True)) for s_, acc in cur]
        if name == "super":
            frame = st.frames[-1]
            selfv = None
            fn = self.cur_fnode[-1]
            if fn.args.args:
                selfv = frame.get(fn.args.args[0].arg)
            cctx = frame.get("__defclass__")
            if selfv is None or cctx is None:
                return R(self.undecided(st, node, "super() outside method"))
            return R(_SuperV(selfv, cctx))
        if name == "int":
            if not args:
                return R(IntV(0, 0))
            return R(self._to_int(st, args[0], node))
        if name == "str":
            if args and isinstance(args[0], StrV):
                return R(args[0])
            return R(StrV(None, sym=("str", getattr(args[0], "sym", None) if args else None)))
        if name == "repr":
            return R(StrV(None, sym=("repr",)))
        if name == "bool":
            out = []
            for s, t in self.truth(st, args[0], node.args[0]):
                out.append((s, t if isinstance(t, Raised) else BoolV(t)))
            return out
        if name == "len":
            v = args[0]
            if isinstance(v, TupleV):
                return R(IntV(len(v.items), len(v.items)))
            if isinstance(v, StrV):
                if v.is_const():
                    return R(IntV(len(v.const()), len(v.const())))
                return R(IntV(1 if v.nonempty else 0, INF, ("len", v.sym)))
            if isinstance(v, PyV):
                return R(IntV(len(v.value), len(v.value)))
            if isinstance(v, RefV):
                mem = self.find_member(st.heap[v.oid].cls, "__len__")
                if mem:
                    return [(s, oc[1]) for s, oc in
                            self.call_func(FuncV(mem[1], mem[2], bound_self=v), [], {}, st, node)]
            if isinstance(v, NoneV):
                return R(self.raised("none-operand", "TypeError", node, "len(None)"))
            return R(IntV(0, INF, ("len", getattr(v, "sym", None))))
        if name == "type":
            v = args[0]
            if isinstance(v, IntV):
                return R(ExtV("int"))
            if isinstance(v, StrV):
                return R(ExtV("str"))
            if isinstance(v, NoneV):
                return R(ExtV("NoneType"))
            if isinstance(v, BoolV):
                return R(ExtV("bool"))
            if isinstance(v, RefV):
                return R(st.heap[v.oid].cls)
            if isinstance(v, FloatV):
                return R(ExtV("float"))
            return R(self.undecided(st, node, "type() of " + v.kind))
        if name == "isinstance":
            v, c = args[0], args[1]
            classes = c.items if isinstance(c, TupleV) else [c]
            res = False
            for cc in classes:
                if isinstance(v, RefV) and isinstance(cc, ClassV):
                    res = res or self.is_subclass(st.heap[v.oid].cls, cc.name)
                elif isinstance(cc, ExtV):
                    res = res or (cc.name == "int" and isinstance(v, (IntV, BoolV))) or \
                        (cc.name == "str" and isinstance(v, StrV)) or \
                        (cc.name == "float" and isinstance(v, FloatV)) or \
                        (cc.name == "datetime" and isinstance(v, DTV))
                elif isinstance(v, TopV):
                    return self._unknown_bool_v(st, ("isinstance", v.sym))
            return R(BoolV(res))
        if name == "getattr":
            if len(args) >= 2 and isinstance(args[1], StrV) and args[1].is_const():
                default = args[2] if len(args) > 2 else None
                return self.getattr_(st, args[0], args[1].const(), node, default=default)
            return R(self.undecided(st, node, "getattr with non-constant name"))
        if name == "hasattr":
            if isinstance(args[0], RefV) and isinstance(args[1], StrV) and args[1].is_const():
                o = st.heap[args[0].oid]
                return R(BoolV(args[1].const() in o.attrs or
                               self.find_member(o.cls, args[1].const()) is not None))
            return R(BoolV(None, sym=("hasattr",)))
        if name in ("min", "max"):
            vs = args[0].items if (len(args) == 1 and isinstance(args[0], TupleV)) else args
            if vs and all(isinstance(v, IntV) for v in vs):
                f = min if name == "min" else max
                return R(IntV(f(v.lo for v in vs), f(v.hi for v in vs),
                              (name,) + tuple(v.sym for v in vs)))
            if any(isinstance(v, NoneV) for v in vs):
                return R(self.raised("none-operand", "TypeError", node, name + "() with None"))
            return R(self.undecided(st, node, name + " of non-int"))
        if name == "abs":
            v = args[0]
            if isinstance(v, IntV):
                lo = 0 if v.lo <= 0 <= v.hi else min(abs(v.lo), abs(v.hi))
                return R(IntV(lo, max(abs(v.lo), abs(v.hi)), ("abs", v.sym)))
            if isinstance(v, NoneV):
                return R(self.raised("none-operand", "TypeError", node, "abs(None)"))
            return R(self.undecided(st, node, "abs"))
        if name == "enumerate":
            v = args[0]
            seq = self._as_items(v)
            if seq is None:
                return R(self.undecided(st, node, "enumerate of unknown iterable"))
            sv = args[1] if len(args) > 1 else kwargs.get("start")
            if sv is not None and not (isinstance(sv, IntV) and sv.is_const()):
                return R(self.undecided(st, node, "enumerate start"))
            start = sv.lo if sv is not None else 0
            return R(TupleV([TupleV([IntV(i + start, i + start), x]) for i, x in enumerate(seq)],
                            is_list=True))
        if name in ("tuple", "list", "sorted", "reversed"):
            if not args:
                return R(TupleV([], is_list=(name == "list")))
            seq = self._as_items(args[0])
            if seq is None:
                return R(self.undecided(st, node, name + " of unknown iterable"))
            if name == "reversed":
                seq = list(reversed(seq))
            return R(TupleV(seq, is_list=name != "tuple"))
        if name == "range":
            if all(isinstance(a, IntV) and a.is_const() for a in args) and args:
                r = range(*[int(a.lo) for a in args])
                if len(r) <= 200:
                    return R(TupleV([IntV(i, i) for i in r], is_list=True))
            return R(self.undecided(st, node, "range"))
        if name in ("product", "module:itertools.product") and args and not kwargs:
            seqs = [self._as_items(a) for a in args]
            if all(s_ is not None for s_ in seqs):
                import itertools as _it
                n_ = 1
                for s_ in seqs:
                    n_ *= max(1, len(s_))
                if n_ <= 2000:
                    return R(TupleV([TupleV(list(t)) for t in _it.product(*seqs)], is_list=True))
            return R(self.undecided(st, node, "itertools.product"))
        if name in ("chain", "module:itertools.chain") and args and not kwargs:
            seqs = [self._as_items(a) for a in args]
            if all(s_ is not None for s_ in seqs):
                return R(TupleV([x for s_ in seqs for x in s_], is_list=True))
        if name == "zip":
            seqs = [self._as_items(a) for a in args]
            if all(s is not None for s in seqs):
                return R(TupleV([TupleV(list(t)) for t in zip(*seqs)], is_list=True))
            return R(self.undecided(st, node, "zip"))
        if name in ("partial", "module:functools.partial") and args:
            return R(PartialV(args[0], args[1:], kwargs))
        if name in ("attrgetter", "module:operator.attrgetter") and args and \
                all(isinstance(a_, StrV) and a_.is_const() for a_ in args):
            return R(GetterV([a_.const() for a_ in args]))
        if name in ("update_wrapper", "module:functools.update_wrapper") and args:
            return R(args[0])
        opn = name.split(".")[-1] if name.startswith("module:operator.") else name
        if opn in ("eq", "ne", "lt", "le", "gt", "ge") and len(args) == 2 and \
                (name.startswith("module:operator.") or name in ("eq", "ne", "lt", "le", "gt", "ge")):
            cmpop = {"eq": ast.Eq, "ne": ast.NotEq, "lt": ast.Lt, "le": ast.LtE, "gt": ast.Gt, "ge": ast.GtE}[opn]()
            an = node.args[0] if len(getattr(node, "args", [])) == 2 else None
            bn = node.args[1] if len(getattr(node, "args", [])) == 2 else None
            return [(s_, t_ if isinstance(t_, Raised) else BoolV(t_))
                    for s_, t_ in self.cmp1(st, cmpop, args[0], an, args[1], bn, node)]
        if name == "relativedelta":
            return R(self._mk_rd(st, args, kwargs, node, "relativedelta"))
        if name == "timedelta":
            v_ = self._mk_rd(st, args, kwargs, node, "timedelta")
            if isinstance(v_, RDV):
                # unlike relativedelta, datetime.timedelta normalises in its constructor and raises
                # OverflowError there when the total exceeds 999999999 days
                for k_, x_ in v_.rel.items():
                    lim_ = TD_CTOR_LIMIT.get(k_)
                    if lim_ is not None and isinstance(x_, IntV) and (abs(x_.lo) > lim_ or abs(x_.hi) > lim_):
                        bad_ = self.raised("datetime-overflow", "OverflowError", node,
                                           "timedelta({}={}) exceeds the representable range in its "
                                           "constructor".format(k_, x_))
                        s2_ = st.fork()
                        self.tick()
                        rel2_ = dict(v_.rel)
                        rel2_[k_] = IntV(max(x_.lo, -lim_), min(x_.hi, lim_), x_.sym)
                        return [(st, RDV(v_.abs, rel2_, sym=v_.sym)), (s2_, bad_)]
            return R(v_)
        if name == "rrule":
            self.site_counter += 1
            for k in ("bymonthday", "byweekday", "bymonth"):
                if isinstance(kwargs.get(k), NoneV):
                    pass
            return R(RRuleV(("rrule", self.where(node)), kwargs))
        if name == "datetime":
            return self._mk_datetime(st, args, kwargs, node)
        if name in ("datetime.now", "datetime.utcnow", "datetime.today"):
            self.site_counter += 1
            return R(DTV(("now", self.site_counter)))
        if name == "date":
            return self._mk_datetime(st, args, kwargs, node)
        if name in ("module:calendar.monthrange", "monthrange", "calendar.monthrange"):
            if len(args) == 2 and all(isinstance(a, IntV) for a in args):
                if args[1].lo < 1 or args[1].hi > 12:
                    s2 = st.fork()
                    ok = TupleV([IntV(0, 6, ("weekday1", args[0].sym, args[1].sym)),
                                 IntV(28, 31, ("monthlen", args[0].sym, args[1].sym))])
                    return [(st, ok), (s2, self.raised("datetime-field", "ValueError", node,
                                                       "monthrange with month {}".format(args[1])))]
                return R(TupleV([IntV(0, 6, ("weekday1", args[0].sym, args[1].sym)),
                                 IntV(28, 31, ("monthlen", args[0].sym, args[1].sym))]))
            return R(self.undecided(st, node, "monthrange arguments"))
        if name in ("module:calendar.isleap", "isleap", "calendar.isleap"):
            if args and isinstance(args[0], IntV):
                return R(BoolV(None, sym=("isleap", args[0].sym)))
            return R(BoolV(None, sym=("isleap?",)))
        if name.startswith("dt."):
            meth = name[3:]
            if meth == "date":
                return R(DateV(b))
            if meth in ("weekday",):
                return R(IntV(0, 6, ("dtfield", b.sym, "weekday")))
            if meth == "timetuple" and not args:
                items = []
                for fld in ("year", "month", "day", "hour", "minute", "second"):
                    if fld in b.fields and not b.deltas:
                        items.append(b.fields[fld])
                    else:
                        lo, hi = DT_RANGES[fld]
                        items.append(IntV(lo, hi, ("dtfield", b.sym, fld)))
                items.append(IntV(0, 6, ("dtfield", b.sym, "weekday")))
                items.append(IntV(1, 366, ("dtfield", b.sym, "yday")))
                items.append(IntV(-1, 1, ("dtfield", b.sym, "isdst")))
                return R(TupleV(items))
            if meth == "isoweekday":
                return R(IntV(1, 7, ("dtfield", b.sym, "isoweekday")))
            if meth == "replace":
                self.site_counter += 1
                abs_ = {k: v for k, v in kwargs.items() if isinstance(v, IntV)}
                rd = RDV(abs_, {})
                def _within(k, lo_, hi_):
                    v_ = abs_.get(k)
                    return v_ is None or (isinstance(v_, IntV) and v_.lo >= lo_ and v_.hi <= hi_)
                day_safe = "day" in abs_ and _within("day", 1, 28)
                if day_safe and _within("month", 1, 12) and _within("year", 1, 9999):
                    # a day every month has, month and year within their ranges: replace cannot raise
                    return R(DTV(("dtexpr", b.sym, rd.sym, "replace"), base=b.base,
                                 deltas=b.deltas + (rd,)))
                if "day" in abs_ or "month" in abs_ or "year" in abs_:
                    # datetime.replace raises on an invalid calendar date
                    s2 = st.fork()
                    ok = DTV(("dtexpr", b.sym, rd.sym, "replace"), base=b.base,
                             deltas=b.deltas + (rd,))
                    return [(st, ok), (s2, self.raised("calendar", "ValueError", node,
                                                       "datetime.replace with unchecked day/month"))]
                return R(DTV(("dtexpr", b.sym, rd.sym, "replace"), base=b.base,
                             deltas=b.deltas + (rd,)))
            if meth in ("strftime", "isoformat"):
                return R(StrV(None, sym=("strftime",)))
            return R(self.undecided(st, node, "datetime method " + meth))
        if name == "groupdict.get" and args:
            out_ = []
            kn = node.args[0] if getattr(node, "args", None) else None
            for s_, v_ in self._match_call(st, b.match, "group", [args[0]], node, knode=kn):
                if isinstance(v_, NoneV) and len(args) > 1:
                    v_ = args[1]
                elif isinstance(v_, Raised) and getattr(v_, "exc", "") == "IndexError":
                    v_ = args[1] if len(args) > 1 else NONE      # dict.get of an unknown key
                out_.append((s_, v_))
            return out_
        if name.startswith("match."):
            return self._match_call(st, b, name[6:], args, node)
        if name.startswith("str."):
            return self._str_call(st, b, name[4:], args, kwargs, node)
        if name.startswith("coll."):
            meth = name[5:]
            if meth == "get" and isinstance(b, PyV) and isinstance(b.value, dict) and args:
                k = args[0]
                default = args[1] if len(args) > 1 else NONE
                if isinstance(k, StrV) and k.vals is not None:
                    vals = [self.lift(b.value[x]) if x in b.value else default for x in sorted(k.vals)]
                    out = []
                    for v in _dedupe_vals(vals):
                        out.append((st.fork() if len(vals) > 1 else st, v))
                    return out or R(default)
            if meth == "get" and isinstance(b, PyV) and isinstance(b.value, dict) and args and b.value \
                    and isinstance(args[0], (EnumV, NoneV)):
                k = args[0]
                default = args[1] if len(args) > 1 else NONE
                if isinstance(k, NoneV):
                    return R(self.lift(b.value[None]) if None in b.value else default)
                out = []
                for nm in sorted(k.names):
                    s2 = st.fork() if len(k.names) > 1 else st
                    if len(k.names) > 1 and node.args:
                        self._refine_expr(s2, node.args[0], EnumV(k.cls, {nm}))
                    ek = e1.EnumVal(k.cls, nm, None)
                    out.append((s2, self.lift(b.value[ek]) if ek in b.value else default))
                return out
            if meth in ("get", "setdefault") and isinstance(b, PyV) and isinstance(b.value, dict) and args \
                    and not b.value:
                # an (initially) empty module-level table: its call-time content is unknown; the
                # store that fills it is reported as an effect, reads yield the default
                return R(args[1] if len(args) > 1 else NONE)
            if meth in ("items", "keys", "values") and isinstance(b, PyV) and isinstance(b.value, dict):
                def lv(k, v):
                    # a module-level instance kept in the table: the one shared object
                    if isinstance(v, e1.Opaque) and v.kind == "instance" and isinstance(v.info[0], e1.ClassRef):
                        return self._global_object(st, self.cur_mod[-1], "{}[{!r}]".format(b.name, k), v)
                    return self.lift(v)
                if meth == "items":
                    return R(TupleV([TupleV([self.lift(k), lv(k, v)]) for k, v in b.value.items()],
                                    is_list=True))
                if meth == "keys":
                    return R(TupleV([self.lift(k) for k in b.value], is_list=True))
                return R(TupleV([lv(k, v) for k, v in b.value.items()], is_list=True))
            if meth == "get" and isinstance(b, DictV) and args:
                default = args[1] if len(args) > 1 else NONE
                out = []
                for s2, v in self.subscript(st, b, args[0], node):
                    out.append((s2, default if isinstance(v, Raised) else v))
                return out
            if meth in ("append", "extend") and isinstance(b, TupleV) and b.is_list and len(args) == 1 \
                    and isinstance(getattr(node, "func", None), ast.Attribute):
                # a local list grown in place: the variable is rebound to the longer list (the
                # interpreter's lists are values; a second name for the same list is not followed)
                slot = self.slot_of(node.func.value, st)
                if slot is not None and slot[0] == "var":
                    if meth == "append":
                        new_items = b.items + [args[0]]
                    else:
                        more = self._as_items(args[0])
                        new_items = None if more is None else b.items + list(more)
                    if new_items is not None:
                        self.write_slot(st, slot, TupleV(new_items, True))
                        return R(NONE)
            if meth == "index" and isinstance(b, TupleV) and args:
                return R(IntV(0, max(len(b.items) - 1, 0), ("index",)))
            return R(self.undecided(st, node, "collection method " + meth))
        if name.startswith("logger.") or name.startswith("logging.") or \
                (name.startswith("result:") and "logging" in name) or name.startswith("module:logging."):
            return R(NONE)   # logging is not an effect the properties speak about
        if name in ("ValueError", "TypeError", "KeyError", "IndexError", "Exception",
                    "NotImplementedError", "AssertionError", "OverflowError", "StopIteration",
                    "RuntimeError"):
            return R(ExtV("exc:" + name))
        if name in ("print",):
            return R(NONE)
        if name == "all" or name == "any":
            seq = self._as_items(args[0]) if args else None
            if seq is not None and all(isinstance(x, BoolV) and x.value is not None for x in seq):
                f = all if name == "all" else any
                return R(BoolV(f(x.value for x in seq)))
            return R(self.undecided(st, node, name + "() over non-unrolled iterable"))
        if name == "round" and args and isinstance(args[0], IntV):
            return R(args[0])
        if name == "sum":
            seq = self._as_items(args[0]) if args else None
            if seq is not None and all(isinstance(x, IntV) for x in seq):
                return R(IntV(sum(x.lo for x in seq), sum(x.hi for x in seq), ("sum",) + tuple(x.sym for x in seq)))
            return R(self.undecided(st, node, "sum of non-int"))
        if name == "divmod" and len(args) == 2 and all(isinstance(a, IntV) for a in args):
            q = self.int_arith(st, "FloorDiv", args[0], args[1], node)
            r_ = self.int_arith(st, "Mod", args[0], args[1], node)
            if isinstance(q, Raised):
                return R(q)
            return R(TupleV([q, r_]))
        if name in ("set", "frozenset"):
            if not args:
                return R(TupleV([], True))
            seq = self._as_items(args[0])
            if seq is not None:
                return R(TupleV(seq, True))
            return R(self.undecided(st, node, "set of unknown iterable"))
        return R(self.undecided(st, node, "external call " + name))

    def _unknown_bool_v(self, st, sym):
        return [(s, BoolV(t)) for s, t in self._unknown_bool(st, sym)]

    def _as_items(self, v):
        if isinstance(v, TupleV):
            return list(v.items)
        if isinstance(v, ClassV):
            # iterating an Enum class: its members in definition order
            cref = self._enum_class(v.name)
            if cref is not None and cref.members and cref.node is v.node:
                return [EnumV(v.name, {nm}) for nm in cref.members]
            return None
        if isinstance(v, PyV):
            if isinstance(v.value, dict):
                return [self.lift(k) for k in v.value]
            if isinstance(v.value, (list, tuple)):
                return [self.lift(x) for x in v.value]
        return None

    def _to_int(self, st, v, node):
        if isinstance(v, IntV):
            return v
        if isinstance(v, BoolV):
            return IntV(0, 1)
        if isinstance(v, NoneV):
            return self.raised("none-operand", "TypeError", node, "int(None)")
        if isinstance(v, StrV):
            if v.group is not None:
                text, gname = v.group
                _, P = self.ctx.wrapped(text)
                rng = e2.int_range_of_group(P, gname)
                if rng is None:
                    return self.raised("int-nondigit", "ValueError", node,
                                       "group '{}' is not digits-only".format(gname))
                if not v.nonempty:
                    return self.raised("int-nondigit", "ValueError", node,
                                       "group '{}' may be empty".format(gname))
                return IntV(rng[0], rng[1], ("int", v.sym))
            if v.vals is not None:
                try:
                    xs = [int(x) for x in v.vals]
                    return IntV(min(xs), max(xs), ("int", v.sym))
                except ValueError:
                    return self.raised("int-nondigit", "ValueError", node, "non-numeric constant")
            return self.raised("int-nondigit", "ValueError", node,
                               "int() of a string not known to be numeric")
        if isinstance(v, FloatV):
            return IntV(-INF, INF, ("int", v.sym))
        return self.undecided(st, node, "int() of " + v.kind)

    def _mk_rd(self, st, args, kwargs, node, which):
        abs_, rel = {}, {}
        if args:
            if which == "timedelta":
                names = ["days", "seconds", "microseconds", "milliseconds", "minutes", "hours", "weeks"]
                for nme, a in zip(names, args):
                    kwargs = dict(kwargs)
                    kwargs[nme] = a
            elif len(args) == 2 and all(isinstance(a, DTV) for a in args):
                # relativedelta(dt1, dt2): the difference split into years/months/days...
                d = ("rddiff", args[0].sym, args[1].sym)
                rel = {"years": IntV(-INF, INF, ("rddifffield", d, "years")),
                       "months": IntV(-11, 11, ("rddifffield", d, "months")),
                       "days": IntV(-30, 30, ("rddifffield", d, "days")),
                       "hours": IntV(-23, 23, ("rddifffield", d, "hours")),
                       "minutes": IntV(-59, 59, ("rddifffield", d, "minutes"))}
                r = RDV({}, rel, sym=d)
                r.is_diff = True
                return r
            else:
                return self.undecided(st, node, "positional relativedelta arguments")
        for k, v in kwargs.items():
            if which == "relativedelta" and k in ABS_KEYS:
                if isinstance(v, NoneV):
                    continue
                if k == "weekday":
                    abs_[k] = v if isinstance(v, IntV) else IntV(0, 6, getattr(v, "sym", None))
                    if isinstance(v, IntV) and (v.lo < 0 or v.hi > 6):
                        return self.raised("datetime-field", "ValueError", node,
                                           "weekday={} outside [0,6]".format(v))
                    continue
                if not isinstance(v, IntV):
                    return self.undecided(st, node, "relativedelta {}= of kind {}".format(k, v.kind))
                abs_[k] = v
            elif (which == "relativedelta" and k in REL_KEYS) or (which == "timedelta" and k in TD_KEYS):
                if isinstance(v, NoneV):
                    return self.raised("none-operand", "TypeError", node,
                                       "{}({}=None)".format(which, k))
                if not isinstance(v, IntV):
                    if isinstance(v, FloatV):
                        v = IntV(-INF, INF, v.sym)
                    else:
                        return self.undecided(st, node, "{} {}= of kind {}".format(which, k, v.kind))
                rel[k] = v
            else:
                return self.raised("arity", "TypeError", node, "unexpected keyword " + k)
        return RDV(abs_, rel)

    def _mk_datetime(self, st, args, kwargs, node):
        names = ["year", "month", "day", "hour", "minute", "second", "microsecond"]
        f = {}
        for nme, a in zip(names, args):
            f[nme] = a
        for k, v in kwargs.items():
            f[k] = v
        for k in ("year", "month", "day"):
            if k not in f:
                return [(st, self.raised("arity", "TypeError", node, "datetime() missing " + k))]
        for k, v in f.items():
            if k == "tzinfo":
                continue
            if isinstance(v, NoneV):
                return [(st, self.raised("none-operand", "TypeError", node,
                                         "datetime({}=None)".format(k)))]
            if not isinstance(v, IntV):
                return [(st, self.undecided(st, node, "datetime field kind " + v.kind))]
            lo, hi = DT_RANGES.get(k, (-INF, INF))
            if v.hi < lo or v.lo > hi:
                return [(st, self.raised("datetime-field", "ValueError", node,
                                         "datetime {}={} outside [{},{}]".format(k, v, lo, hi)))]
            if v.lo < lo or v.hi > hi:
                # partly out of range: the call may raise, or succeed with the value
                # inside the range
                s2 = st.fork()
                self.tick()
                f2 = dict(f)
                f2[k] = IntV(max(v.lo, lo), min(v.hi, hi), v.sym)
                kw2 = {kk: vv for kk, vv in f2.items()}
                ok = self._mk_datetime(st, [], kw2, node)
                return ok + [(s2, self.raised("datetime-field", "ValueError", node,
                                              "datetime {}={} outside [{},{}]".format(k, v, lo, hi)))]
        self.site_counter += 1
        dt = DTV(("dtnew",) + tuple(
            (f[k].sym if k in f else ("const", 0)) for k in ("year", "month", "day", "hour", "minute")),
            fields=f)
        status = self.calendar_status(st, f["year"], f["month"], f["day"])
        if status in ("REAL", "CHECKED", "CONST-OK"):
            return [(st, dt)]
        if status == "CONST-BAD":
            return [(st, self.raised("calendar", "ValueError", node, "constant date does not exist"))]
        if status == "UNKNOWN":
            self.note_cal_unknown(node, "calendar validity of the date handed to datetime() was not decided")
            return [(st, dt)]
        s2 = st.fork()
        self.tick()
        st.checked.add((f["year"].sym, f["month"].sym, f["day"].sym))
        vsym = ("validdate", f["year"].sym, f["month"].sym, f["day"].sym)
        st.conds.append((vsym, True))
        s2.conds.append((vsym, False))
        return [(st, dt), (s2, self.raised(
            "calendar", "ValueError", node,
            "day/month/year assembled from independent sources without a validity check"))]

    def calendar_status(self, st, y, m, d):
        if y.is_const() and m.is_const() and d.is_const():
            try:
                _dtmod.date(int(y.lo), int(m.lo), int(d.lo))
                return "CONST-OK"
            except ValueError:
                return "CONST-BAD"
        if d.hi <= 28:
            return "REAL"
        if (y.sym, m.sym, d.sym) in st.checked:
            return "CHECKED"
        # leap-year constant stands for "valid in some year"
        for (cy, cm, cd) in st.checked:
            if cm == m.sym and cd == d.sym and cy == y.sym:
                return "CHECKED"
        # dominated day: year and month copied from one valid date O, and the day is
        # known to be <= O.day on this path
        ys, ms = y.sym, m.sym
        if isinstance(ys, tuple) and isinstance(ms, tuple) and len(ys) == 3 and len(ms) == 3 \
                and ys[0] == ms[0] == "attr" and ys[1] == ms[1] and ys[2] == "year" \
                and ms[2] == "month":
            src = ys[1]
            good = any(o.sym == src and o.cal in ("REAL", "CHECKED") for o in st.heap.values())
            if good:
                for sa, opn, sb, asym, bsym in st.rels:
                    if asym == d.sym and bsym == ("attr", src, "day") and opn in ("Lt", "LtE"):
                        return "CHECKED"
        srcs = set()
        ok = True
        for fld, v in (("year", y), ("month", m), ("day", d)):
            s = v.sym
            if isinstance(s, tuple) and len(s) == 3 and s[0] in ("dtfield", "attr") and s[2] == fld:
                srcs.add((s[0], s[1]))
            else:
                ok = False
        if ok and len(srcs) == 1:
            kind, src = next(iter(srcs))
            if kind == "dtfield":
                return "REAL"
            # all three copied from one object: inherit its flag
            for o in st.heap.values():
                if o.sym == src:
                    if o.cal in ("REAL", "CHECKED", "NA"):
                        return "REAL"
                    if o.cal == "UNKNOWN":
                        return "UNKNOWN"
                    return "UNCHECKED"
        return "UNCHECKED"

    # ------------------------------------------------------------------
    def _match_call(self, st, mv, meth, args, node, knode=None):
        obj = st.heap.get(mv.oid)
        text = obj.attrs.get("__pattern__") if obj else None
        if meth == "groupdict" and not args and text is not None:
            return [(st, GroupDictV(mv))]
        if meth != "group" or text is None:
            return [(st, self.undecided(st, node, "match." + meth))]
        if len(args) != 1:
            return [(st, self.undecided(st, node, "group() arity"))]
        a = args[0]
        if not (isinstance(a, StrV) and a.vals is not None):
            return [(st, self.undecided(st, node, "group() with non-constant name"))]
        ptext = text.const()
        _, P = self.ctx.wrapped(ptext)
        out = []
        names = sorted(a.vals)
        for gname in names:
            s0 = st.fork() if len(names) > 1 else st
            if len(names) > 1:
                self._refine_expr(s0, knode if knode is not None else node.args[0],
                                  StrV({gname}, sym=a.sym))
            g = P.group(gname)
            if g is None:
                out.append((s0, self.raised("unknown-group", "IndexError", node,
                                            "pattern of this rule has no group '{}'".format(gname))))
                continue
            cfgs = s0.cfg.get(mv.oid)
            if cfgs is None:
                cfgs = frozenset(e2.group_configs(P.id_group.child, P))
            yes = frozenset(c for c in cfgs if gname in c)
            no = frozenset(c for c in cfgs if gname not in c)
            mw = e2.minwidth(g.child, P)
            sym = ("group", ptext, gname)
            if yes:
                s1 = s0.fork() if no else s0
                s1.cfg[mv.oid] = yes
                self.tick()
                out.append((s1, StrV(None, sym=sym, nonempty=mw >= 1, group=(ptext, gname))))
            if no:
                s0.cfg[mv.oid] = no
                out.append((s0, NONE))
            if not yes and not no:
                # infeasible path (no configuration left): drop it
                pass
        return out

    def _str_call(self, st, sv, meth, args, kwargs, node):
        R = lambda v: [(st, v)]   # noqa
        if meth in ("lower", "upper", "strip", "casefold", "title", "lstrip", "rstrip"):
            if sv.vals is not None and not args:
                return R(StrV({getattr(x, meth)() for x in sv.vals}, sym=(meth, sv.sym)))
            ne = sv.nonempty and meth in ("lower", "upper", "casefold", "title")
            return R(StrV(None, sym=(meth, sv.sym), nonempty=ne, group=None))
        if meth in ("startswith", "endswith"):
            a = args[0] if args else None
            if isinstance(a, StrV) and a.is_const():
                if sv.vals is not None:
                    t = [x for x in sv.vals if getattr(x, meth)(a.const())]
                    f = [x for x in sv.vals if not getattr(x, meth)(a.const())]
                    if t and f:
                        return self._unknown_bool_v(st, (meth, sv.sym, a.const()))
                    return R(BoolV(bool(t)))
                return R(BoolV(None, sym=(meth, sv.sym, a.const())))
            return R(BoolV(None, sym=(meth, sv.sym, None)))
        if meth == "format":
            if sv.is_const() and all(self._is_const(a) for a in args) and \
                    all(self._is_const(v) for v in kwargs.values()):
                try:
                    return R(StrV({sv.const().format(*[self._const(a) for a in args],
                                                     **{k: self._const(v) for k, v in kwargs.items()})}))
                except Exception:
                    return R(self.raised("format", "ValueError", node, "format failed on constants"))
            # format specs applied to None raise TypeError
            if sv.is_const():
                import string
                try:
                    fields = list(string.Formatter().parse(sv.const()))
                except ValueError:
                    fields = []
                idx = 0
                for lit, fname, spec, conv in fields:
                    if fname is None:
                        continue
                    if fname == "":
                        key = idx
                        idx += 1
                    elif fname.isdigit():
                        key = int(fname)
                    else:
                        key = fname
                    v = None
                    if isinstance(key, int) and key < len(args):
                        v = args[key]
                    elif isinstance(key, str):
                        v = kwargs.get(key)
                    if spec and isinstance(v, NoneV) and not conv:
                        return R(self.raised("format-none", "TypeError", node,
                                             "format spec '{}' applied to None".format(spec)))
            return R(StrV(None, sym=("format", sv.sym)))
        if meth == "join":
            return R(StrV(None, sym=("join", sv.sym)))
        if meth == "replace":
            if sv.vals is not None and all(isinstance(a, StrV) and a.is_const() for a in args):
                return R(StrV({x.replace(*[a.const() for a in args]) for x in sv.vals},
                              sym=("replace", sv.sym)))
            return R(StrV(None, sym=("replace", sv.sym)))
        if meth == "split":
            return R(self.undecided(st, node, "str.split"))
        if meth in ("isdigit", "isalpha", "isspace", "isascii", "isupper", "islower", "isnumeric"):
            return R(BoolV(None, sym=(meth, sv.sym)))
        if meth in ("count", "find", "rfind", "index"):
            a = args[0] if args else None
            if sv.vals is not None and isinstance(a, StrV) and a.is_const():
                try:
                    xs = [getattr(x, meth)(a.const()) for x in sv.vals]
                    return R(IntV(min(xs), max(xs), (meth, sv.sym, a.const())))
                except ValueError:
                    return R(self.raised("str-index", "ValueError", node, "substring may be missing"))
            lo = 0 if meth == "count" else -1
            return R(IntV(lo, INF, (meth, sv.sym, a.const() if isinstance(a, StrV) and a.is_const() else None)))
        if meth in ("partition", "rpartition"):
            return R(TupleV([StrV(None, sym=(meth, sv.sym, i)) for i in range(3)]))
        return R(self.undecided(st, node, "str." + meth))

    def _is_const(self, v):
        return (isinstance(v, IntV) and v.is_const()) or (isinstance(v, StrV) and v.is_const())

    def _const(self, v):
        return v.lo if isinstance(v, IntV) else v.const()

    # ------------------------------------------------------------------
    # statements
    def exec_block(self, body, st):
        states = [st]
        done = []
        for stmt in body:
            nxt = []
            for s in states:
                for s2, oc in self.exec_stmt(stmt, s):
                    if oc[0] == "next":
                        nxt.append(s2)
                    else:
                        done.append((s2, oc))
            states = merge_states(nxt) if len(nxt) > 1 else nxt
            if not states:
                break
        return done + [(s, ("next",)) for s in states]

    def exec_stmt(self, n, st):
        m = getattr(self, "st_" + type(n).__name__, None)
        if m is None:
            self.undecided(st, n, "statement " + type(n).__name__)
            return [(st, ("next",))]
        return m(n, st)

    def st_Pass(self, n, st):
        return [(st, ("next",))]

    def st_Expr(self, n, st):
        if isinstance(n.value, ast.Constant):
            return [(st, ("next",))]
        out = []
        for s, v in self.ev(n.value, st):
            out.append((s, ("raise", v) if isinstance(v, Raised) else ("next",)))
        return out

    def st_Return(self, n, st):
        if n.value is None:
            return [(st, ("ret", NONE))]
        out = []
        for s, v in self.ev(n.value, st):
            out.append((s, ("raise", v) if isinstance(v, Raised) else ("ret", v)))
        return out

    def st_Break(self, n, st):
        return [(st, ("break",))]

    def st_Continue(self, n, st):
        return [(st, ("continue",))]

    def st_Global(self, n, st):
        st.notes.append(("global", n.names))
        return [(st, ("next",))]

    def st_Nonlocal(self, n, st):
        return [(st, ("next",))]

    def st_Import(self, n, st):
        for a in n.names:
            self.set_var(st, (a.asname or a.name).split(".")[0], ExtV("module:" + a.name))
        return [(st, ("next",))]

    def st_ImportFrom(self, n, st):
        for a in n.names:
            self.set_var(st, a.asname or a.name, ExtV(a.name))
        return [(st, ("next",))]

    def st_FunctionDef(self, n, st):
        depth = len(st.frames) - 1
        self._fid = getattr(self, "_fid", 0) + 1
        st.frames[-1].setdefault("__fid__", self._fid)
        fv = FuncV(self.cur_mod[-1], n, frame_depth=depth)
        fv.def_fid = st.frames[-1]["__fid__"]
        fv.def_frame = st.frames[-1]
        self.set_var(st, n.name, fv)
        return [(st, ("next",))]

    def st_Assert(self, n, st):
        out = []
        for s, t in self.cond(n.test, st):
            if isinstance(t, Raised):
                out.append((s, ("raise", t)))
            elif t:
                out.append((s, ("next",)))
            else:
                out.append((s, ("raise", self.raised("assert", "AssertionError", n,
                                                     "assertion may fail"))))
        return out

    def st_Raise(self, n, st):
        exc = "Exception"
        if n.exc is not None:
            e = n.exc
            if isinstance(e, ast.Call):
                e = e.func
            if isinstance(e, ast.Name):
                exc = e.id
            elif isinstance(e, ast.Attribute):
                exc = e.attr
        if n.exc is None:
            cur = st.frames[-1].get("__cur_exc__")
            if isinstance(cur, Raised):
                return [(st, ("raise", cur))]
        return [(st, ("raise", self.raised("explicit-raise", exc, n, "explicit raise reached")))]

    def st_If(self, n, st):
        out = []
        for s, t in self.cond(n.test, st):
            if isinstance(t, Raised):
                out.append((s, ("raise", t)))
                continue
            out.extend(self.exec_block(n.body if t else n.orelse, s))
        return out

    def st_Assign(self, n, st):
        out = []
        for s, v in self.ev(n.value, st):
            if isinstance(v, Raised):
                out.append((s, ("raise", v)))
                continue
            cur = [(s, ("next",))]
            for t in n.targets:
                nxt = []
                for s2, oc in cur:
                    if oc[0] != "next":
                        nxt.append((s2, oc))
                    else:
                        nxt.extend(self.assign(s2, t, v, n))
                cur = nxt
            out.extend(cur)
        return out

    def st_AnnAssign(self, n, st):
        if n.value is None:
            return [(st, ("next",))]
        out = []
        for s, v in self.ev(n.value, st):
            if isinstance(v, Raised):
                out.append((s, ("raise", v)))
            else:
                out.extend(self.assign(s, n.target, v, n))
        return out

    def st_AugAssign(self, n, st):
        load = _as_load(n.target)
        expr = ast.BinOp(left=load, op=n.op, right=n.value)
        ast.copy_location(expr, n)
        ast.fix_missing_locations(expr)
        out = []
        for s, v in self.ev(expr, st):
            if isinstance(v, Raised):
                out.append((s, ("raise", v)))
            else:
                out.extend(self.assign(s, n.target, v, n))
        return out

    def assign(self, st, target, v, stmt):
        if isinstance(target, ast.Name):
            # a nonlocal/closure write is not modelled: bind locally
            self.set_var(st, target.id, v)
            return [(st, ("next",))]
        if isinstance(target, (ast.Tuple, ast.List)):
            stars = [i for i, t in enumerate(target.elts) if isinstance(t, ast.Starred)]
            if len(stars) == 1 and isinstance(v, TupleV):
                # a, b, *rest, z = items
                k = stars[0]
                after = len(target.elts) - k - 1
                if len(v.items) < len(target.elts) - 1:
                    return [(st, ("raise", self.raised("unpack", "ValueError", stmt, "unpack arity")))]
                mid = TupleV(list(v.items[k:len(v.items) - after]), is_list=True)
                items = list(v.items[:k]) + [mid] + (list(v.items[len(v.items) - after:]) if after else [])
                elts = [t.value if isinstance(t, ast.Starred) else t for t in target.elts]
                flat = ast.Tuple(elts=elts, ctx=ast.Store())
                return self.assign(st, flat, TupleV(items), stmt)
            if stars and isinstance(v, TupleV):
                self.undecided(st, stmt, "starred unpack")
                return [(st, ("next",))]
            if isinstance(v, TupleV) and len(v.items) == len(target.elts):
                cur = [(st, ("next",))]
                for t, x in zip(target.elts, v.items):
                    nxt = []
                    for s, oc in cur:
                        if oc[0] != "next":
                            nxt.append((s, oc))
                            continue
                        if isinstance(x, UnionV):
                            for alt in x.alts:
                                s2 = s.fork()
                                nxt.extend(self.assign(s2, t, alt, stmt))
                        else:
                            nxt.extend(self.assign(s, t, x, stmt))
                    cur = nxt
                return cur
            if isinstance(v, TupleV):
                return [(st, ("raise", self.raised("unpack", "ValueError", stmt, "unpack arity")))]
            for t in target.elts:
                for nn in ast.walk(t):
                    if isinstance(nn, ast.Name):
                        self.set_var(st, nn.id, TopV("unpack of " + v.kind))
            self.undecided(st, stmt, "unpack of " + v.kind)
            return [(st, ("next",))]
        if isinstance(target, ast.Attribute):
            out = []
            for s, base in self.ev(target.value, st):
                if isinstance(base, Raised):
                    out.append((s, ("raise", base)))
                    continue
                if isinstance(base, RefV):
                    obj = s.heap[base.oid]
                    if not obj.fresh:
                        s.effects.append(Effect(obj.sym, target.attr, self.where(stmt),
                                                self.construct("store", stmt),
                                                tuple(self.call_chain)))
                    obj.attrs[target.attr] = v
                    out.append((s, ("next",)))
                elif isinstance(base, NoneV):
                    out.append((s, ("raise", self.raised("none-attribute", "AttributeError", stmt,
                                                         "attribute store on None"))))
                else:
                    self.undecided(s, stmt, "attribute store on " + base.kind)
                    out.append((s, ("next",)))
            return out
        if isinstance(target, ast.Subscript):
            out = []
            for s, base in self.ev(target.value, st):
                if isinstance(base, Raised):
                    out.append((s, ("raise", base)))
                    continue
                if isinstance(base, PyV):
                    s.effects.append(Effect(("table", base.name), "[]", self.where(stmt),
                                            self.construct("store", stmt), tuple(self.call_chain)))
                else:
                    self.undecided(s, stmt, "subscript store")
                out.append((s, ("next",)))
            return out
        self.undecided(st, stmt, "assignment target")
        return [(st, ("next",))]

    def st_For(self, n, st):
        out = []
        for s, itv in self.ev(n.iter, st):
            if isinstance(itv, Raised):
                out.append((s, ("raise", itv)))
                continue
            items = self._as_items(itv)
            if items is None:
                self.undecided(s, n, "loop over unknown iterable")
                out.append((s, ("next",)))
                continue
            states = [s]
            for x in items:
                nxt = []
                for s1 in states:
                    for s2, oc in self.assign(s1, n.target, x, n):
                        if oc[0] != "next":
                            out.append((s2, oc))
                            continue
                        for s3, oc3 in self.exec_block(n.body, s2):
                            if oc3[0] in ("next", "continue"):
                                nxt.append(s3)
                            elif oc3[0] == "break":
                                out.append((s3, ("next",)))   # orelse skipped
                            else:
                                out.append((s3, oc3))
                states = merge_states(nxt) if len(nxt) > 1 else nxt
                if not states:
                    break
            for s1 in states:
                if n.orelse:
                    out.extend(self.exec_block(n.orelse, s1))
                else:
                    out.append((s1, ("next",)))
        return out

    WHILE_BOUND = 12

    def st_While(self, n, st):
        """Bounded unrolling: paths still looping after WHILE_BOUND iterations are
        outside the analysed subset."""
        out = []
        states = [st]
        for _ in range(self.WHILE_BOUND):
            nxt = []
            for s in states:
                for s2, t in self.cond(n.test, s):
                    if isinstance(t, Raised):
                        out.append((s2, ("raise", t)))
                    elif not t:
                        if n.orelse:
                            out.extend(self.exec_block(n.orelse, s2))
                        else:
                            out.append((s2, ("next",)))
                    else:
                        for s3, oc in self.exec_block(n.body, s2):
                            if oc[0] in ("next", "continue"):
                                nxt.append(s3)
                            elif oc[0] == "break":
                                out.append((s3, ("next",)))
                            else:
                                out.append((s3, oc))
            states = merge_states(nxt) if len(nxt) > 1 else nxt
            if not states:
                break
        for s in states:
            self.undecided(s, n, "while loop not finished after {} iterations".format(self.WHILE_BOUND))
            out.append((s, ("next",)))
        return out

    def st_With(self, n, st):
        # contextlib.suppress(E1, E2, ...): the listed exceptions raised in the body end the
        # block quietly; anything else passes
        if len(n.items) == 1 and n.items[0].optional_vars is None and isinstance(n.items[0].context_expr, ast.Call) \
                and e1.callee_name(n.items[0].context_expr.func) == "suppress" \
                and all(isinstance(a, ast.Name) for a in n.items[0].context_expr.args):
            names = {a.id for a in n.items[0].context_expr.args}
            out = []
            for s, oc in self.exec_block(n.body, st):
                if oc[0] == "raise" and exc_matches(oc[1].exc, names):
                    out.append((s, ("next",)))
                else:
                    out.append((s, oc))
            return out
        self.undecided(st, n, "with statement")
        return self.exec_block(n.body, st)

    def st_Try(self, n, st):
        out = []
        for s, oc in self.exec_block(n.body, st):
            if oc[0] == "raise":
                exc = oc[1].exc
                handled = False
                for h in n.handlers:
                    names = _handler_names(h)
                    if exc_matches(exc, names):
                        handled = True
                        if h.name:
                            self.set_var(s, h.name, ExtV("exc:" + exc))
                        s.frames[-1]["__cur_exc__"] = oc[1]
                        for s2, oc2 in self.exec_block(h.body, s):
                            out.extend(self._finally(n, s2, oc2))
                        break
                if not handled:
                    out.extend(self._finally(n, s, oc))
            elif oc[0] == "next":
                if n.orelse:
                    for s2, oc2 in self.exec_block(n.orelse, s):
                        out.extend(self._finally(n, s2, oc2))
                else:
                    out.extend(self._finally(n, s, oc))
            else:
                out.extend(self._finally(n, s, oc))
        return out

    def _finally(self, n, st, oc):
        if not n.finalbody:
            return [(st, oc)]
        res = []
        for s2, oc2 in self.exec_block(n.finalbody, st):
            res.append((s2, oc if oc2[0] == "next" else oc2))
        return res

    def st_Delete(self, n, st):
        self.undecided(st, n, "del")
        return [(st, ("next",))]

    def st_ClassDef(self, n, st):
        self.undecided(st, n, "nested class")
        return [(st, ("next",))]


def _own_scope(fn):
    out = []
    stack = list(fn.body)
    while stack:
        n = stack.pop()
        out.append(n)
        if isinstance(n, (ast.FunctionDef, ast.AsyncFunctionDef, ast.Lambda, ast.ClassDef)):
            continue
        stack.extend(ast.iter_child_nodes(n))
    return out


class _RawFunc(FuncV):
    """The undecorated production captured by the wrapper's closure."""

    def __init__(self, fv):
        FuncV.__init__(self, fv.mod, fv.node)
        self.raw = True


class _SuperV(Val):
    kind = "super"

    def __init__(self, selfv, cnode):
        self.selfv = selfv
        self.cnode = cnode
        self.sym = ("super",)


def _with_class(fv, cnode):
    f2 = FuncV(fv.mod, fv.node, fv.frame_depth, fv.bound_self, dict(fv.closure or {}))
    f2.closure["__defclass__"] = _ClassCtx(fv.mod, cnode)
    return f2


class _ClassCtx(Val):
    kind = "classctx"

    def __init__(self, mod, cnode):
        self.mod = mod
        self.cnode = cnode
        self.sym = ("classctx", cnode.name)

    def definite(self):
        return True


def _handler_names(h):
    if h.type is None:
        return None
    if isinstance(h.type, ast.Tuple):
        return [e.id if isinstance(e, ast.Name) else getattr(e, "attr", "?") for e in h.type.elts]
    if isinstance(h.type, ast.Name):
        return [h.type.id]
    if isinstance(h.type, ast.Attribute):
        return [h.type.attr]
    return None


def _as_load(t):
    import copy
    t2 = copy.deepcopy(t)
    for x in ast.walk(t2):
        if hasattr(x, "ctx"):
            x.ctx = ast.Load()
    return t2


def _is_leap_const(sym):
    if isinstance(sym, tuple) and len(sym) == 2 and sym[0] == "const" and isinstance(sym[1], int):
        y = sym[1]
        return y % 4 == 0 and (y % 100 != 0 or y % 400 == 0)
    return False


def _dedupe_vals(vals):
    out = []
    seen = set()
    for v in vals:
        k = repr(v)
        if k not in seen:
            seen.add(k)
            out.append(v)
    return out
