#!/bin/bash
# seedcheck.sh <PROP> <k> [round] : validate one sub-agent seeded change and run every check on it.
# Input:  /tmp/wt_<PROP>/seed_out/patch<k>.diff, demo<k>.py, notes<k>.md
# Output: /verif/seeded/<PROP>-<k>/{patch.diff,demo.py,notes.md,meta.json,checks.txt}
set -u
P=$1; K=$2; ROUND=${3:-1}
if [ "$ROUND" = "1" ]; then SRC=/tmp/wt_$P/seed_out; TAG=$P-$K; else SRC=/tmp/wt${ROUND}_$P/seed_out; TAG=$P-r$ROUND-$K; fi
WT=/tmp/sv_${TAG}
OUT=/verif/seeded/$TAG
# the agents' scratch worktrees are removed at the end of the session; patch, demonstration and notes are
# kept under /verif/seeded/<tag>/ and are enough for RECHECK_ONLY=1
[ -f $SRC/patch$K.diff ] || [ -f $OUT/patch.diff ] || { echo "no patch $SRC/patch$K.diff"; exit 3; }
# a patch already kept under /verif/seeded/<tag>/ (e.g. rebased onto a later /repo HEAD) takes precedence
PATCH=$SRC/patch$K.diff
[ -f $OUT/patch.diff ] && PATCH=$OUT/patch.diff
rm -rf $WT; git -C /repo worktree add -q --detach $WT HEAD || exit 3
cd $WT
res_apply=ok; git apply $PATCH || res_apply=fail
RECHECK=0; [ "${RECHECK_ONLY:-0}" = "1" ] && [ -f $OUT/meta.json ] && RECHECK=1
if [ $RECHECK = 1 ]; then
  # the change was confirmed earlier (meta.json holds the test and demonstration outcome); only the checks run again
  tests=$(/venv/bin/python -c "import json;print(json.load(open('$OUT/meta.json'))['tests_with_change'])")
  demo_with=$(/venv/bin/python -c "import json;print(json.load(open('$OUT/meta.json'))['demo_exit_with_change'])")
  demo_without=$(/venv/bin/python -c "import json;print(json.load(open('$OUT/meta.json'))['demo_exit_without_change'])")
else
tests=$(PYTHONPATH=$WT timeout 900 /venv/bin/python -m pytest -q -p no:cacheprovider tests 2>&1 | tail -1)
# the demonstration runs in the worktree it was written for (some demos assert their own path):
# that worktree is clean (the sub-agent is finished); apply the patch there, run, and undo
ORIG=$(dirname $SRC)
LOCK=/tmp/seedlock_$(basename $ORIG)
flock $LOCK sh -c "cd $ORIG && git checkout -q -- . && git apply $PATCH && PYTHONPATH=$ORIG timeout 600 /venv/bin/python seed_out/demo$K.py > $WT/demo_with.log 2>&1; rc=\$?; git checkout -q -- .; exit \$rc"; demo_with=$?
fi
# run all checks on the changed tree, in parallel
mkdir -p $WT/chk
ls /verif/sa/checks | sed -n 's/^\(c[0-9][0-9]\)\.py$/\1/p' | tr a-z A-Z | xargs -P 10 -I{} sh -c "cd /verif && timeout 900 /venv/bin/python sa/run.py {} --repo $WT --scratch > $WT/chk/{}.log 2>&1; echo \$? > $WT/chk/{}.rc"
git checkout -q -- .
if [ $RECHECK = 0 ]; then
flock $LOCK sh -c "cd $ORIG && git checkout -q -- . && PYTHONPATH=$ORIG timeout 600 /venv/bin/python seed_out/demo$K.py > $WT/demo_without.log 2>&1"; demo_without=$?
fi
mkdir -p $OUT
[ -f $OUT/patch.diff ] || cp $SRC/patch$K.diff $OUT/patch.diff; cp $SRC/demo$K.py $OUT/demo.py 2>/dev/null; cp $SRC/notes$K.md $OUT/notes.md 2>/dev/null
: > $OUT/checks.txt
fired=""; undec=""
for f in $WT/chk/*.rc; do id=$(basename $f .rc); rc=$(cat $f); 
  if [ "$rc" = "1" ]; then fired="$fired $id"; grep -B2 "^VIOLATION" $WT/chk/$id.log | grep -v "^VIOLATION\|witness\|^--" | cut -c1-400 | sed "s/^/$id: /" >> $OUT/checks.txt; fi
  if [ "$rc" = "2" ]; then undec="$undec $id"; grep -E "^UNDECIDED|^ANALYSIS-ERROR" $WT/chk/$id.log | cut -c1-300 | sed "s/^/$id: /" >> $OUT/checks.txt; fi
done
[ $RECHECK = 0 ] && tail -3 $WT/demo_with.log | cut -c1-300 > $OUT/demo_with_change.txt
/venv/bin/python - "$P" "$K" "$res_apply" "$tests" "$demo_with" "$demo_without" "$fired" "$undec" "$TAG" <<'PY'
import json,sys
from os import environ as _os_env
P,K,app,tests,dw,dwo,fired,undec,TAG=sys.argv[1:10]
meta={"property":P,"variant":int(K),"patch_applies":app=="ok","tests_with_change":tests.strip(),
      "demo_exit_with_change":int(dw),"demo_exit_without_change":int(dwo),
      "confirmed": app=="ok" and "70 passed" in tests and int(dw)!=0 and int(dwo)==0,
      "checks_reporting_violation":fired.split(),"checks_analysis_incomplete":undec.split(),
      "detected_by_own_property_check": P in fired.split(),
      "how_run":"sa/seedcheck.sh %s %s: patch applied in a scratch worktree of /repo HEAD; pytest tests; demo with/without the change; every check run with --repo <worktree> --scratch"%(P,K)}
import re as _re
_m=_re.search(r"-r(\d+)-",TAG)
meta["round"]=int(_m.group(1)) if _m else 1
import subprocess as _sp
meta["machinery_commit"]=_sp.run(["git","-C","/verif","rev-parse","--short","HEAD"],capture_output=True,text=True).stdout.strip()
meta["checks_rerun_only"]=_os_env.get("RECHECK_ONLY","0")=="1"
json.dump(meta,open("/verif/seeded/%s/meta.json"%TAG,"w"),indent=1)
print(json.dumps(meta))
PY
cd /; git -C /repo worktree remove --force $WT
