"""Shared plumbing: obligations, reports, known findings, evidence, exit codes.

Every check reduces to a list of obligations; each obligation is tied to a
construct (a stable key: file::function::what) and ends as DISCHARGED, VIOLATED
or UNDECIDED.  Nothing here reads or runs the code under analysis.
"""
import json
import os
import sys
import time

VERIF = os.path.dirname(os.path.dirname(os.path.abspath(__file__)))
DEFAULT_REPO = os.environ.get("VERIF_REPO", "/repo")

DISCHARGED = "DISCHARGED"
VIOLATED = "VIOLATED"
UNDECIDED = "UNDECIDED"


class AnalysisError(Exception):
    """The analysis could not complete (anchor vanished, unsupported idiom...)."""


class Undecided(Exception):
    """An idiom outside the analysed subset was met while deciding an obligation."""


class Ob:
    __slots__ = ("prop", "rule", "construct", "where", "status", "detail", "witness",
                 "nontrivial", "engine")

    def __init__(self, prop, rule, construct, where, status, detail="", witness=None,
                 nontrivial=True):
        self.prop = prop
        self.rule = rule
        self.construct = construct
        self.where = where
        self.status = status
        self.detail = detail
        self.witness = witness
        self.nontrivial = nontrivial
        self.engine = False     # recorded after the rule-base results were consulted

    def key(self):
        return (self.prop, self.rule, self.construct)

    def as_dict(self):
        d = {"rule": self.rule, "construct": self.construct, "where": self.where,
             "verdict": self.status}
        if self.detail:
            d["detail"] = self.detail
        if self.witness is not None:
            d["witness"] = self.witness
        return d

    def line(self):
        s = "{} {} — {} — {}".format(self.where, self.construct, self.rule, self.status)
        if self.detail:
            s += " — " + self.detail
        return s


class Report:
    """Collects obligations and analysed-unit counts for one property."""

    def __init__(self, prop):
        self.prop = prop
        self.obs = []
        self.counts = {}
        self.floors = {}
        self.notes = []
        self.assumptions = []
        self.rules_applied = {}
        self.ctx = None
        self.engine_free = set()    # clauses that never read the rule-base results
        self.withheld = 0

    def _mark(self, ob):
        eng = self.ctx._cache.get("e3") if self.ctx is not None else None
        ob.engine = bool(eng is not None and eng.consulted)
        self.obs.append(ob)

    def engine_guard(self):
        """A VIOLATED verdict drawn from the rule-base results is only as good as those
        results: when the interpreter met an idiom outside its subset while computing them
        (unknown values flow through the shape fixpoint), such verdicts are withheld and
        reported as UNDECIDED with the idiom that has to be modelled first."""
        eng = self.ctx._cache.get("e3") if self.ctx is not None else None
        if eng is None:
            return
        partial = getattr(eng, "partial", [])
        needs_all = getattr(self, "needs_all_runs", set())
        if partial:
            # runs cut short leave paths out: only verdicts that rest on *all* paths being there
            # (a rule being dead, a value never being produced) are withheld
            for o in self.obs:
                if o.status == VIOLATED and o.engine and o.rule in needs_all:
                    o.status = UNDECIDED
                    o.detail = "verdict withheld, a run of the rule-base analysis was cut short [{}]; candidate: {}".format(
                        partial[0], o.detail)
                    o.witness = None
                    self.withheld += 1
        if not eng.incomplete:
            return
        why = eng.incomplete[0]
        if len(eng.incomplete) > 1:
            why += " (+{} more)".format(len(eng.incomplete) - 1)
        for o in self.obs:
            if o.status == VIOLATED and o.engine and o.rule not in self.engine_free:
                o.status = UNDECIDED
                o.detail = "verdict withheld, the rule-base analysis is incomplete [{}]; candidate: {}".format(
                    why, o.detail)
                o.witness = None
                self.withheld += 1

    def idiom_guard(self):
        """A VIOLATED verdict of a structural clause about a function that uses idioms outside the
        modelled set (sa/idioms.py) is withheld: the clause may simply not see the computation."""
        if self.ctx is None:
            return
        from . import idioms
        cache = {}

        def unmodelled(rel, qual):
            key = (rel, qual)
            if key in cache:
                return cache[key]
            out = []
            modname = rel[:-3].replace("/", ".")
            try:
                im = self.ctx.imod(modname)
            except Exception:
                cache[key] = out
                return out
            fns = []
            if qual in im.funcs:
                fns.append(im.funcs[qual])
                # nested functions of it
                fns.extend(f for q, f in im.funcs.items() if q.startswith(qual + "."))
            elif qual in im.classes:
                fns.extend(f for q, f in im.funcs.items() if q.startswith(qual + "."))
            for f in fns:
                for x in idioms.census(im, f, self.ctx.model):
                    if x not in out:
                        out.append(x)
            cache[key] = out
            return out
        pairs = {("C10", "ctparse"): ["_ctparse"], ("C14", "ctparse"): ["ctparse_gen"],
                 ("C03", "ctparse_gen"): ["_ctparse"], ("C13", "_ctparse"): ["_regex_stack"]}
        exempt = getattr(self, "idiom_exempt", set())
        for o in self.obs:
            if o.status != VIOLATED:
                continue
            if "*" in exempt or o.rule in exempt:
                continue      # clauses that report what they found, not what they failed to find
            parts = o.construct.split("::")
            if len(parts) < 2 or parts[0] not in idioms.STRUCTURAL_MODULES:
                continue
            quals = [parts[1]] + pairs.get((self.prop, parts[1]), [])
            unk = []
            for q in quals:
                for x in unmodelled(parts[0], q):
                    if x not in unk:
                        unk.append("{}: {}".format(q, x))
            if unk:
                o.status = UNDECIDED
                o.detail = "verdict withheld, {} uses idioms outside the modelled set [{}]; candidate: {}".format(
                    parts[1], "; ".join(unk[:3]), o.detail)
                o.witness = None
                self.withheld += 1

    # -- obligations ------------------------------------------------------
    def add(self, rule, construct, where, ok, detail="", witness=None, nontrivial=True):
        st = DISCHARGED if ok else VIOLATED
        self._mark(Ob(self.prop, rule, construct, where, st, detail, witness,
                      nontrivial))
        return ok

    def violated(self, rule, construct, where, detail="", witness=None):
        self._mark(Ob(self.prop, rule, construct, where, VIOLATED, detail, witness))

    def ok(self, rule, construct, where, detail="", nontrivial=True):
        self.obs.append(Ob(self.prop, rule, construct, where, DISCHARGED, detail, None,
                           nontrivial))

    def undecided(self, rule, construct, where, detail=""):
        self.obs.append(Ob(self.prop, rule, construct, where, UNDECIDED, detail))

    def describe(self, rule, text):
        self.rules_applied[rule] = text

    # -- non-vacuity ------------------------------------------------------
    def count(self, name, n, floor=None):
        self.counts[name] = n
        if floor is not None:
            self.floors[name] = floor

    def assume(self, text):
        if text not in self.assumptions:
            self.assumptions.append(text)

    def floor_failures(self):
        return [(k, self.counts.get(k, 0), f) for k, f in self.floors.items()
                if self.counts.get(k, 0) < f]


def load_known_findings(path=None):
    path = path or os.path.join(VERIF, "known_findings.jsonl")
    known, fixed = [], []
    if not os.path.exists(path):
        return known, fixed
    with open(path, encoding="utf-8") as fd:
        for line in fd:
            line = line.strip()
            if not line or line.startswith("#"):
                continue
            if line.startswith("fixed:"):
                fixed.append(line)
                continue
            known.append(json.loads(line))
    return known, fixed


def _claimed_level(prop, default):
    """Evidence level = the level claimed for this property in MANIFEST.json."""
    try:
        with open(os.path.join(VERIF, "MANIFEST.json")) as fd:
            man = json.load(fd)
        for c in man.get("checks", []):
            if c.get("property_id") == prop:
                return c["level_claimed"]["category"]
    except Exception:
        pass
    return default


def finish(report, tier, t0, extra_cov=None, selftest=None, out=sys.stdout,
           write_evidence=True, evidence_dir=None, analysis_errors=(), write_replay=True):
    """Print the verdict lines, write replay + evidence files, return exit code."""
    prop = report.prop
    known, _fixed = load_known_findings()
    known_keys = {}
    for k in known:
        if k.get("property") == prop:
            known_keys[(k["property"], k["rule"], k["construct"])] = k

    viol = [o for o in report.obs if o.status == VIOLATED]
    und = [o for o in report.obs if o.status == UNDECIDED]
    dis = [o for o in report.obs if o.status == DISCHARGED]
    new_viol = [o for o in viol if o.key() not in known_keys]
    listed = [o for o in viol if o.key() in known_keys]
    floors = report.floor_failures()
    errors = list(analysis_errors)
    for name, got, fl in floors:
        errors.append("instance count below floor: {} = {} < {}".format(name, got, fl))

    for k, v in sorted(report.counts.items()):
        out.write("analysed {}: {}\n".format(k, v))
    out.write("obligations: {} discharged: {} violated: {} undecided: {}\n".format(
        len(report.obs), len(dis), len(viol), len(und)))

    seen_known = set()
    for o in listed:
        if o.key() in seen_known:
            continue
        seen_known.add(o.key())
        k = known_keys[o.key()]
        out.write("KNOWN-FINDING: property={} {} [{}] {}\n".format(
            prop, o.construct, o.rule, k.get("what", o.detail)))

    replay_dir = os.path.join(VERIF, "replay")
    for o in new_viol:
        os.makedirs(replay_dir, exist_ok=True)
        safe = "".join(c if c.isalnum() else "_" for c in o.rule + "__" + o.construct)[:150]
        rp = os.path.join(replay_dir, "{}__{}.json".format(prop, safe))
        try:
            if not write_replay:
                raise OSError("scratch run")
            with open(rp, "w", encoding="utf-8") as fd:
                json.dump({"property": prop, "obligation": o.as_dict(),
                           "rule_text": report.rules_applied.get(o.rule, "")}, fd,
                          indent=1, ensure_ascii=False)
        except OSError:
            pass
        out.write("  {}\n".format(o.line()))
        if o.witness is not None:
            out.write("    witness: {}\n".format(json.dumps(o.witness, ensure_ascii=False,
                                                             default=str)))
        out.write("VIOLATION property={} replay={}\n".format(prop, rp))

    for o in und:
        out.write("UNDECIDED {}\n".format(o.line()))
    for e in errors:
        out.write("ANALYSIS-ERROR {}\n".format(e))
    if selftest is not None:
        for f in selftest.get("failures", []):
            out.write("SELFTEST-FAIL {}\n".format(f))

    if new_viol:
        code = 1
    elif und or errors or (selftest and selftest.get("failures")):
        code = 2
    else:
        code = 0

    if write_evidence:
        nontriv = len({o.construct + "|" + o.rule for o in report.obs if o.nontrivial})
        samples = []
        by_rule = {}
        for o in report.obs:
            by_rule.setdefault(o.rule, []).append(o)
        for r, lst in sorted(by_rule.items()):
            for o in lst[:3]:
                samples.append(o.line())
        for o in viol[:20]:
            if o.line() not in samples:
                samples.append(o.line())
        n_ob = len(report.obs)
        all_closed = (not new_viol) and (not und) and (not errors) and not listed
        cov = {
            "obligations": n_ob,
            "discharged": len(dis),
            "violated_known": len(listed),
            "violated_new": len(new_viol),
            "undecided": len(und),
            "evaluations": max(n_ob, 1),
            "distinct_nontrivial": nontriv,
            "rule": "one obligation per (rule, construct) enumerated from /repo's syntax "
                    "trees / pattern trees / shipped pickle; non-trivial = needed an "
                    "engine fact (range, shape, ordering, language, effect or path) "
                    "rather than a constant; distinct = distinct (rule, construct) keys",
            "samples": samples[:60],
            "checker_cmd": "/venv/bin/python sa/run.py {} --tier {}".format(prop, tier),
            "trusted_base": ["CPython ast/pickletools", "regex._regex_core parser",
                             "dateutil model (DESIGN.md §9 A2)"],
            "explanation": "static analysis of /repo's current source; rules applied: "
                           + "; ".join("{}: {}".format(k, v) for k, v in
                                       sorted(report.rules_applied.items())),
            "analysed": report.counts,
            "floors": report.floors,
            "rules": sorted(by_rule),
            "known_findings_printed": sorted({o.construct for o in listed}),
            "exhaustive": True,
            "notes": report.notes,
        }
        if extra_cov:
            cov.update(extra_cov)
        if selftest is not None:
            cov["selftest"] = {k: v for k, v in selftest.items()}
        ev = {
            "property_id": prop,
            "tier": tier,
            "seed": int(os.environ.get("VERIF_SEED", "0") or 0),
            "level": _claimed_level(prop, "proof" if all_closed and n_ob > 0 else "other"),
            "coverage": cov,
            "assumptions": report.assumptions,
            "wall_s": round(time.time() - t0, 3),
            "violations": len(new_viol),
        }
        ed = evidence_dir or os.path.join(VERIF, "evidence")
        os.makedirs(ed, exist_ok=True)
        with open(os.path.join(ed, "{}.json".format(prop)), "w", encoding="utf-8") as fd:
            json.dump(ev, fd, indent=1, ensure_ascii=False, default=str)
    return code
