#!/venv/bin/python
"""Regenerates /verif/MANIFEST.json from the table below (kept next to the checks so
that claims and checks are edited together)."""
import json
import os
import sys

HERE = os.path.dirname(os.path.abspath(__file__))
VERIF = os.path.dirname(HERE)

PY = "/venv/bin/python"

# id -> (category, technique, text (what is decided), note (what is not / trusted base), design_ref)
CLAIMS = {
    "C01": ("proof",
            "abstract interpretation of all productions over a rule-base shape fixpoint "
            "(exception-freedom by raise class) + structural termination ranking",
            "Decides for all inputs: no path of any production, accessor, latent rewrite or "
            "result renderer reachable from ctparse()/ctparse_gen() ends in a raise (None "
            "operands, table keys, group names, int() of groups, unbound locals, datetime "
            "construction/overflow, format specs on None, log domain, explicit raises), "
            "and the search is bounded by a ranking argument.",
            "Not decided: exceptions from inside regex/dateutil internals, resource "
            "exhaustion. Trusted: ast, regex parser, dateutil model A2/A3; reference year in "
            "1970-2100.",
            "DESIGN.md §4 C01"),
    "C19": ("proof",
            "syntax-tree checks of the rule module and rule._map + regex-tree width analysis "
            "+ shape fixpoint (dead rules, part-of-day closure) + pickle opcode reader",
            "Decides every clause: unique names, registration, non-nullable patterns, no "
            "adjacent regexes, id sharing, rules not dead, part-of-day closure, model "
            "vocabulary names existing ids/rules.",
            "'can fire' is decided as 'not provably dead'. Inserting/reordering distinct "
            "patterns shifts ids without making a vocabulary token unknown; that the ids "
            "still mean the training-time patterns is not recoverable from the pickle.",
            "DESIGN.md §4 C19"),
}

NOT_APPLICABLE = {
    "C16": "numeric equivalence of the fitted estimator with textbook multinomial naive "
           "Bayes over all training sets: truth lives in loop index arithmetic and "
           "smoothing denominators on unbounded data; no sound static abstraction in reach "
           "decides it and the shape-level clauses available are not necessary-and-"
           "sufficient for any stated behaviour (DESIGN.md §4 C16, §8)",
}


def main():
    props = [json.loads(l)["id"] for l in open(os.path.join(VERIF, "properties.jsonl"))]
    checks = []
    for pid in props:
        if pid not in CLAIMS:
            continue
        cat, tech, text, note, ref = CLAIMS[pid]
        checks.append({
            "property_id": pid,
            "quick_cmd": "{} sa/run.py {} --tier quick".format(PY, pid),
            "thorough_cmd": "{} sa/run.py {} --tier thorough".format(PY, pid),
            "evidence_file": "evidence/{}.json".format(pid),
            "replay_cmd_template": PY + " sa/run.py --replay {path}",
            "engine": "sa",
            "level_claimed": {"category": cat, "text": text, "design_ref": ref},
            "level_note": note,
            "technique": "static analysis: " + tech,
        })
    na = []
    for pid in props:
        if pid in CLAIMS:
            continue
        reason = NOT_APPLICABLE.get(pid, "check under construction in this session; not claimed yet")
        na.append({"property_id": pid, "reason": reason})
    fixes = []
    kf = os.path.join(VERIF, "known_findings.jsonl")
    if os.path.exists(kf):
        for line in open(kf, encoding="utf-8"):
            if line.startswith("fixed:"):
                parts = line.split()
                if len(parts) > 2:
                    fixes.append(parts[2])
    man = {
        "version": 1,
        "setup_cmd": "true",
        "hooks": {
            "guard": "ACREOM_QUICKADD_VERIF",
            "enable": "none: static analysis reads /repo's sources, no hooks or instrumentation exist",
            "baseline_off_cmd": "cd /repo && /venv/bin/python -m pytest -ra -q -p no:cacheprovider "
                                "--timeout=900 --continue-on-collection-errors tests",
            "source_commits": sorted(set(fixes)),
            "add_only": True,
        },
        "engines": [{
            "name": "sa",
            "path": "sa/",
            "serves_properties": sorted(CLAIMS),
            "kind_free_text": "repository-specific static analysers: program model + constant "
                              "folder (E1), regex syntax-tree analyses and automata (E2), "
                              "path-forking abstract interpreter with rule-base fixpoint (E3), "
                              "ordering engine (E4), effect/alias analysis (E5), CFG of the "
                              "search loop (E6), pickle opcode reader (E7), sibling agreement (E8)",
        }],
        "checks": checks,
        "not_applicable": na,
        "notes": "All checks are static: no check imports or runs ctparse. Exit 2 = analysis "
                 "could not complete (never a violation). Genuine defects found while building "
                 "were repaired by 'fix:' commits in /repo (listed in known_findings.jsonl as "
                 "fixed:) or are listed there as known findings.",
    }
    with open(os.path.join(VERIF, "MANIFEST.json"), "w") as fd:
        json.dump(man, fd, indent=1)
    print("wrote MANIFEST.json with {} checks, {} not_applicable".format(len(checks), len(na)))


if __name__ == "__main__":
    main()
