#!/venv/bin/python
"""Regenerates /verif/MANIFEST.json from the table below (kept next to the checks so
that claims and checks are edited together)."""
import json
import os
import sys

HERE = os.path.dirname(os.path.abspath(__file__))
VERIF = os.path.dirname(HERE)

PY = "/venv/bin/python"

# id -> (category, technique, text (what is decided), note (what is not / trusted base), design_ref)
CLAIMS = {
    "C01": ("proof",
            "abstract interpretation of all productions over a rule-base shape fixpoint "
            "(exception-freedom by raise class) + structural termination ranking",
            "Decides for all inputs: no path of any production, accessor, latent rewrite or "
            "result renderer reachable from ctparse()/ctparse_gen() ends in a raise (None "
            "operands, table keys, group names, int() of groups, unbound locals, datetime "
            "construction/overflow, format specs on None, log domain, explicit raises), "
            "and the search is bounded by a ranking argument.",
            "Not decided: exceptions from inside regex/dateutil internals (incl. OverflowError of the "
            "datetime.timedelta constructor, seed C01-r4-1), ordering of tuples that falls through to "
            "unordered objects (seed C01-r4-2, reported by C14), resource exhaustion. Trusted: ast, regex parser, dateutil model A2/A3; reference year in "
            "1970-2100.",
            "DESIGN.md §4 C01"),
    "C02": ("proof",
            "abstract interpretation: field intervals, part-of-day vocabulary, calendar-validity "
            "flag and span provenance at every construction site; interval order by exhaustive "
            "evaluation of path summaries over orderings (E4)",
            "Decides: field ranges, known part of day, day exists in month/year (calendar flag), "
            "fully dated interval start <= end on every path, accessors never raise (dt only the "
            "documented ValueError on undated values), span = first argument start .. last "
            "argument end, carried through the latent layer, taken on the normalised text.",
            "Interval parameters are assumed ordered (induction over the rule base); date-less "
            "clock ranges are drawn from the producible tuple set over hours 0..23 x minutes "
            "{absent,0,30}. dateutil model A2.",
            "DESIGN.md §4 C02"),
    "C03": ("proof",
            "def-use chain of the reference time over the call sites + summary terms of the "
            "relative-day rules (located by vocabulary) compared with calendar arithmetic over "
            "the reference-date sweep",
            "Decides: reference-time defaulting and propagation; date/clock coherence of every "
            "constructed value; the offset of today/tomorrow/.../end of month/year and the "
            "this/next weekday conventions for every reference time of the sweep (quick: 14 "
            "months incl. leap day + year ends; thorough: the full 2016-2043 cycle).",
            "Not decided: which surface forms the regexes accept beyond the locating words; that "
            "the scorer ranks the intended reading first. dateutil.relativedelta is the arithmetic "
            "model of the summary terms.",
            "DESIGN.md §4 C03"),
    "C04": ("proof",
            "summary terms of the four latent rules (located by role) compared with the "
            "nearest-future specification over reference dates x written values",
            "Decides: nearest matching date not before the reference date with the written "
            "weekday/day/month preserved (incl. the clip hazard of relativedelta(day=N)), same-day "
            "conventions, part-of-day anchoring per table key, arguments of the weekday+day search.",
            "Not decided: ranking against competing readings. rrule(count=1)[0] assumed to be the "
            "first match (A3).",
            "DESIGN.md §4 C04"),
    "C05": ("other",
            "information-flow over E3 summary terms (reference-time dependence per returned "
            "field and per path condition), sibling comparison of two-digit-year maps, "
            "field-name provenance, month-name lexicon through the pattern automata, listed spellings matched whole in the engine's priority order (preferred-match over the pattern syntax tree)",
            "Decides: no production mixes reference-time-dependent fields with written ones or "
            "branches on the reference time for a written value (except the bare-year two-digit "
            "branch and the military-time heuristic, located by role); sibling agreement on "
            "two-digit years; field names; month names -> month numbers; no listed month spelling is cut short by an earlier alternative that is its prefix. One known finding "
            "(two-digit-year siblings disagree) is listed in known_findings.jsonl.",
            "Not decided: that all notations select the same candidate (ranking); regex coverage "
            "of every notation.",
            "DESIGN.md §4 C05"),
    "C06": ("proof",
            "summary terms of the clock rules evaluated exhaustively over hour x minute x am/pm; "
            "quarter/half maps; latent anchoring vs specification over the sweep; number-word "
            "lexicon through the pattern automata",
            "Decides: am/pm piecewise map (12 am = 0, pm adds 12 below 12), quarter/half maps and "
            "their minute guard, the am/pm marker as the code reads it when the pattern lets its group take a leading blank, latent clock anchoring strictly after the reference minute and "
            "skipped with the option off, named hours one..twelve / eins..zwölf, hour-in-part-of-day "
            "keeps minute and hour mod 12.",
            "Not decided: that each notation's regex accepts each of the 1440 minutes; ranking.",
            "DESIGN.md §4 C06"),
    "C07": ("proof",
            "interval order by exhaustive evaluation of path summaries over orderings / hours "
            "(E4) with inductive hypothesis and producible clock-range tuples; mirror analysis of "
            "the half-open rules; operand provenance",
            "Decides: start < end strictly at every construction of a dated range, clock ranges "
            "on a date and latent clock ranges at most 24 h, before/after bound the stated side "
            "only (negation flips), range ends come from the left/right operand.",
            "Not decided: joiner-word coverage; that the range reading is ranked first. Minutes "
            "represented by {absent, 0, 30}.",
            "DESIGN.md §4 C07"),
    "C08": ("proof",
            "sibling agreement of enum / vocabulary / offset table / tested unit sets by abstract "
            "interpretation per unit; number- and unit-word lexicon through restricted pattern "
            "automata; provenance of amount and end date",
            "Decides: unit tables exhaustive and homonymous, amount passthrough, half rules, every "
            "canonical number word 1..31 (EN/DE) and unit word accepted only through its own "
            "alternative, number tokens closed by a word boundary, end = start.dt + amount x unit "
            "for every unit, range accepted iff its day count equals the duration's.",
            "Not decided: the value of date + N units (dateutil's calendar arithmetic).",
            "DESIGN.md §4 C08"),
    "C09": ("proof",
            "regex edge-set analysis (can a pattern begin/end on a blank) + preferred-match of listed spellings + dataflow of the span "
            "trimming in RegexMatch.__init__ + span provenance through wrapper and latent layer",
            "Decides the span clauses and necessary conditions: blank-free spans, span = union of "
            "consumed matches, span carried through latent rewrites, length term depends on the "
            "text only through its length.",
            "Not decided: that the value is unchanged by inert neighbours (matching + ranking).",
            "DESIGN.md §4 C09"),
    "C10": ("proof",
            "automata comparison of the label find/strip languages on the valid-tag domain + "
            "comparison of the provenance terms (normalise / substitute / strip / split / filter / join) of the two subject/label derivations, read off an inlined and normalised view of the module + orderedness typing",
            "Decides: find and strip agree on valid hashtags, one derivation for the match and "
            "no-match paths on the normalised text, subject built order-preservingly from the "
            "split words, labels in text order, labels never reach matcher or subject.",
            "Not decided: 'drops exactly the words inside the used matches' (value-level).",
            "DESIGN.md §4 C10"),
    "C11": ("proof",
            "character-class semantics of the two substitution patterns compared with the stated "
            "Unicode categories code point by code point; idempotence by class reasoning; "
            "ignore-case flag of every cased pattern atom (group calls followed into their definitions); the substitution chain read off the provenance term of the normaliser's return value",
            "Decides: separator and dash classes equal the stated categories (quick: BMP + samples; "
            "thorough: all 0x110000 code points), run collapse, replacements, strips, idempotence, "
            "only normalised text reaches the matcher, every cased atom case-insensitive.",
            "unicodedata of the interpreter stands for the regex engine's Unicode tables.",
            "DESIGN.md §4 C11"),
    "C12": ("proof",
            "effect analysis over the name-resolved call graph (call-time vs import-time), "
            "caching constructs, E3 parameter effects of every production, hash-order analysis",
            "Decides: no call-time write to module state, no hidden memory, arguments/scorer/rule "
            "base unmodified, productions never store into their inputs (incl. the wrapper's span "
            "update), set iteration orders independent of the string-hash seed.",
            "Caller-supplied Scorer objects are outside the analysed program; no monkey-patching.",
            "DESIGN.md §4 C12"),
    "C13": ("proof",
            "control-flow analysis of the search loop: must-pass-through of the deadline closure "
            "per iteration of every sequence-indexed loop, handler containment, information flow "
            "of timeout/closure, abstract interpretation of the closure, the elapsed time as <clock> - START with START fixed",
            "Decides: a deadline check before the work in every iteration of every loop over the "
            "candidate sequences (and in the enumeration), every check inside the timeout handler, "
            "timeout/closure reach no yielded value, timeout 0 never raises and a positive one can, the deadline is measured from the creation of the closure.",
            "Not decided: the duration of one uninterruptible step.",
            "DESIGN.md §4 C13"),
    "C14": ("proof",
            "provenance term of the returned candidate (max / sorted-last over list(stream), however spelled), evaluation of the emptiness guard and "
            "of the re-emission guards on all orderings, signature comparison",
            "Decides: returned element is a max-score element of list(stream), empty result iff "
            "empty stream, options forwarded with equal defaults, re-emission only on strictly "
            "higher score, log arguments are positive length quotients.",
            "Not decided: finiteness of the log-odds of an arbitrary caller-supplied model.",
            "DESIGN.md §4 C14"),
    "C15": ("proof",
            "E3 parameter-effect analysis of every production through the wrapper + abstract "
            "interpretation of apply_rule + registry pairing",
            "Decides: applying a rule never alters its inputs; the trace is extended by exactly the "
            "applied registry item's name; the emitted production sequence is that trace; unique "
            "registration.",
            "Not decided: soundness/completeness of the optimised search vs. the derivation "
            "semantics.",
            "DESIGN.md §4 C15"),
    "C17": ("proof",
            "shape of the label expression + constant propagation of the sample-emitting loop body on marker traces of length 0..6 + "
            "value-equality of the resolution classes + def-use in the training script",
            "Decides: label = value equality with the gold annotation, one sample per trace prefix "
            "1..n with that label, trainer fed unchanged.",
            "Not decided: monotonicity of the retrained score under duplication.",
            "DESIGN.md §4 C17"),
    "C18": ("proof",
            "abstract interpretation of the constructor chains (equality/hash attribute list vs "
            "constructor value fields; __eq__ interpreted on two abstract instances) + printer templates (any mix of format / f-strings) against the parser's groups and widths via the "
            "parser pattern's automaton + constant propagation of parse_nb_string / Interval.from_str / Duration.from_str on the printed templates",
            "Decides: equality and hash by value fields only (no span), dynamic type compared, "
            "printed forms accepted by the parser with fields in the same positions and widths, "
            "separator and absent marker unambiguous, prefix offsets of parse_nb_string.",
            "Not decided: injectivity outside the C02 field ranges.",
            "DESIGN.md §4 C18"),
    "C19": ("proof",
            "syntax-tree checks of the rule module, the pattern registration constant-propagated on fresh and already registered texts (id allocation) + regex-tree width analysis "
            "+ shape fixpoint (dead rules, part-of-day closure) + pickle opcode reader",
            "Decides every clause: unique names, registration, non-nullable patterns, no "
            "adjacent regexes, id sharing, rules not dead, part-of-day closure, model "
            "vocabulary names existing ids/rules.",
            "'can fire' is decided as 'not provably dead'. Inserting/reordering distinct "
            "patterns shifts ids without making a vocabulary token unknown; that the ids "
            "still mean the training-time patterns is not recoverable from the pickle.",
            "DESIGN.md §4 C19"),
    "C20": ("proof",
            "regex ending-set analysis of the clock patterns (letter tails closed by a boundary) + "
            "mirror comparison of the both-order gluing rules + identity check of absorb rules",
            "Decides necessary conditions only: no clock pattern can swallow the first letters of "
            "the next word, date x clock gluing takes the date from the date operand and the "
            "clock from the clock operand in both orders, absorb rules are identities.",
            "Not decided: the homomorphism itself (depends on which competing reading is ranked "
            "first).",
            "DESIGN.md §4 C20"),
}

NOT_APPLICABLE = {
    "C16": "numeric equivalence of the fitted estimator with textbook multinomial naive "
           "Bayes over all training sets: truth lives in loop index arithmetic and "
           "smoothing denominators on unbounded data; no sound static abstraction in reach "
           "decides it and the shape-level clauses available are not necessary-and-"
           "sufficient for any stated behaviour (DESIGN.md §4 C16, §8)",
}


def main():
    props = [json.loads(l)["id"] for l in open(os.path.join(VERIF, "properties.jsonl"))]
    checks = []
    for pid in props:
        if pid not in CLAIMS:
            continue
        cat, tech, text, note, ref = CLAIMS[pid]
        checks.append({
            "property_id": pid,
            "quick_cmd": "{} sa/run.py {} --tier quick".format(PY, pid),
            "thorough_cmd": "{} sa/run.py {} --tier thorough".format(PY, pid),
            "evidence_file": "evidence/{}.json".format(pid),
            "replay_cmd_template": PY + " sa/run.py --replay {path}",
            "engine": "sa",
            "level_claimed": {"category": cat, "text": text, "design_ref": ref},
            "level_note": note,
            "technique": "static analysis: " + tech,
        })
    na = []
    for pid in props:
        if pid in CLAIMS:
            continue
        reason = NOT_APPLICABLE.get(pid, "check under construction in this session; not claimed yet")
        na.append({"property_id": pid, "reason": reason})
    fixes = []
    kf = os.path.join(VERIF, "known_findings.jsonl")
    if os.path.exists(kf):
        for line in open(kf, encoding="utf-8"):
            if line.startswith("fixed:"):
                parts = line.split()
                if len(parts) > 2:
                    fixes.append(parts[2])
    man = {
        "version": 1,
        "setup_cmd": "true",
        "hooks": {
            "guard": "ACREOM_QUICKADD_VERIF",
            "enable": "none: static analysis reads /repo's sources, no hooks or instrumentation exist",
            "baseline_off_cmd": "cd /repo && /venv/bin/python -m pytest -ra -q -p no:cacheprovider "
                                "--timeout=900 --continue-on-collection-errors tests",
            "source_commits": [],
            "add_only": True,
        },
        "engines": [{
            "name": "sa",
            "path": "sa/",
            "serves_properties": sorted(CLAIMS),
            "kind_free_text": "repository-specific static analysers: program model + constant "
                              "folder (E1), regex syntax-tree analyses and automata (E2), "
                              "path-forking abstract interpreter with rule-base fixpoint (E3), "
                              "ordering engine (E4), effect/alias analysis (E5), CFG of the "
                              "search loop (E6), pickle opcode reader (E7), sibling agreement (E8)",
        }],
        "checks": checks,
        "not_applicable": na,
        "notes": "All checks are static: no check imports or runs ctparse; there are no hooks, so "
                 "hooks.source_commits is empty. Exit 2 = analysis could not complete (never a "
                 "violation). Genuine defects found while building were repaired by unguarded "
                 "'fix:' commits in /repo (" + ", ".join(sorted(set(fixes))) + "; each listed in "
                 "known_findings.jsonl as 'fixed:' with the failing input) or are listed there as "
                 "known findings (one: C05 two-digit-year siblings).",
    }
    with open(os.path.join(VERIF, "MANIFEST.json"), "w") as fd:
        json.dump(man, fd, indent=1)
    print("wrote MANIFEST.json with {} checks, {} not_applicable".format(len(checks), len(na)))


if __name__ == "__main__":
    main()
