"""E3 — path-forking abstract interpreter for the productions, the value classes and
the latent layer.  Works on syntax trees only; nothing from /repo is executed.

ev(node, st)        -> list of (state, value)      value is definite or a Raised
exec_block(body,st) -> list of (state, outcome)    outcome: ('next',) ('ret', v)
                                                   ('raise', Raised) ('break',) ('continue',)
"""
import ast
import datetime as _dtmod

from .core import Undecided, AnalysisError
from . import e1_model as e1
from . import e2_regex as e2
from .e3_values import *   # noqa
from .e3_values import Val, INF
from .e3_state import State, Issue, Effect

MAX_PATHS = 6000
MAX_DEPTH = 14

ABS_KEYS = ("year", "month", "day", "hour", "minute", "second", "microsecond", "weekday",
            "yearday", "nlyearday", "leapdays")
REL_KEYS = ("years", "months", "weeks", "days", "hours", "minutes", "seconds", "microseconds")
TD_KEYS = ("days", "seconds", "microseconds", "milliseconds", "minutes", "hours", "weeks")
DT_RANGES = {"year": (1, 9999), "month": (1, 12), "day": (1, 31), "hour": (0, 23),
             "minute": (0, 59), "second": (0, 59), "microsecond": (0, 999999)}
# magnitude (in the unit) beyond which datetime arithmetic can leave [0001, 9999]
# from a reference time in 1970-2100: conservative bound ~ 7900 years
REL_LIMIT = {"years": 7000, "months": 84000, "weeks": 365000, "days": 2500000,
             "hours": 60000000, "minutes": 3600000000, "seconds": 216000000000,
             "microseconds": INF}

EXC_PARENTS = {
    "KeyError": "LookupError", "IndexError": "LookupError", "LookupError": "Exception",
    "TypeError": "Exception", "ValueError": "Exception", "OverflowError": "ArithmeticError",
    "ZeroDivisionError": "ArithmeticError", "ArithmeticError": "Exception",
    "AttributeError": "Exception", "AssertionError": "Exception",
    "UnboundLocalError": "NameError", "NameError": "Exception",
    "StopIteration": "Exception", "CTParseTimeoutError": "Exception",
    "Exception": "BaseException", "RuntimeError": "Exception",
    "NotImplementedError": "RuntimeError", "UnicodeError": "ValueError",
}


# value kinds whose operator semantics are modelled: a TypeError is only reported between these
KNOWN_KINDS = (IntV, StrV, TupleV, NoneV, DTV, RDV, DateV, RefV, EnumV)
EXT_CONSTS = {"datetime.MINYEAR": 1, "datetime.MAXYEAR": 9999}


class Raised(Val):
    kind = "raise"

    def __init__(self, exc, issue):
        self.exc = exc
        self.issue = issue

    def __repr__(self):
        return "Raised({})".format(self.exc)


class PathLimit(Exception):
    pass


def exc_matches(exc, handler_names):
    if handler_names is None:
        return True
    cur = exc
    while cur is not None:
        if cur in handler_names:
            return True
        cur = EXC_PARENTS.get(cur)
    return False


class Interp:
    def __init__(self, ctx):
        self.ctx = ctx
        self.model = ctx.model
        self.paths = 0
        self.cur_mod = []
        self.cur_func = []
        self.call_chain = []
        self.site_counter = 0
        self.on_construct = None      # hook(st, obj, node)
        self.class_cache = {}
        self.enum_cache = {}

    # ------------------------------------------------------------------
    # helpers
    def where(self, node):
        mod = self.cur_mod[-1] if self.cur_mod else None
        if mod is None:
            return "?"
        return mod.where(node)

    def construct(self, kind, node):
        fn = self.cur_func[-1] if self.cur_func else "<module>"
        mod = self.cur_mod[-1]
        try:
            txt = ast.unparse(node)
        except Exception:
            txt = type(node).__name__
        txt = " ".join(txt.split())
        if len(txt) > 90:
            txt = txt[:87] + "..."
        return "{}::{}::{}::{}".format(mod.rel, fn, kind, txt)

    def issue(self, kind, exc, node, detail):
        chain = tuple(self.call_chain)
        return Issue(kind, exc, self.where(node), self.construct(kind, node), detail, chain)

    def raised(self, kind, exc, node, detail):
        return Raised(exc, self.issue(kind, exc, node, detail))

    def undecided(self, st, node, why):
        ent = (self.where(node), self.construct("idiom", node), why)
        st.undecided.append(ent)
        log = getattr(self, "undecided_log", None)
        if log is None:
            log = self.undecided_log = {}
        log.setdefault(ent[1], ent)
        return TopV(why)

    def note_cal_unknown(self, node, why):
        """a date whose calendar validity was not decided on some path: the obligations about that
        date (no ValueError from datetime(), calendar clause) are undecided; nothing else depends on
        the flag, so the rule-base results stay complete"""
        log = getattr(self, "cal_unknown", None)
        if log is None:
            log = self.cal_unknown = {}
        c = self.construct("calendar", node)
        log.setdefault(c, (self.where(node), c, why))

    def tick(self):
        self.paths += 1
        if self.paths > MAX_PATHS:
            raise PathLimit()

    # ------------------------------------------------------------------
    # lifting folded python values
    def lift(self, v, name=None):
        if v is None:
            return NONE
        if isinstance(v, bool):
            return BoolV(v)
        if isinstance(v, int):
            return IntV(v, v)
        if isinstance(v, float):
            return FloatV()
        if isinstance(v, str):
            return StrV({v})
        if isinstance(v, e1.EnumVal):
            return EnumV(v.cls, {v.name})
        if isinstance(v, e1.NTValue):
            return NamedTupleV([self.lift(x) for x in v], v.names, v.cls)
        if isinstance(v, (tuple, list)):
            return TupleV([self.lift(x) for x in v], is_list=isinstance(v, list))
        if isinstance(v, dict):
            return PyV(v, name)
        if isinstance(v, e1.ClassRef):
            return ClassV(v.mod, v.node)
        if isinstance(v, e1.FuncRef):
            return FuncV(v.mod, v.node)
        if isinstance(v, e1.Opaque):
            if v.kind == "ext":
                if "{}.{}".format(*v.info) in EXT_CONSTS:
                    c = EXT_CONSTS["{}.{}".format(*v.info)]
                    return IntV(c, c)
                return ExtV(v.info[1])
            if v.kind == "extmod":
                return ExtV("module:" + v.info)
            if v.kind == "builtin":
                return ExtV(v.info)
            if v.kind == "attr":
                base = self.lift(v.info[0])
                if isinstance(base, ExtV):
                    return ExtV(base.name + "." + v.info[1])
            if v.kind == "call":
                # module-level call of a library function: known by role
                f = v.info[0]
                fl = self.lift(f) if isinstance(f, e1.Opaque) else None
                nm = (fl.name if isinstance(fl, ExtV) else "?")
                if v.info[1]:
                    nm = nm + "." + v.info[1]
                if nm == "attrgetter" and v.info[2] and all(isinstance(x, str) for x in v.info[2]) and not v.info[3]:
                    return GetterV(list(v.info[2]))
                if nm in ("timedelta", "relativedelta") and not v.info[2] and hasattr(self, "_mk_rd"):
                    kw = {k: self.lift(x) for k, x in v.info[3].items()}
                    if all(isinstance(x, IntV) for x in kw.values()):
                        r = self._mk_rd(None, [], kw, v.info[4], nm)
                        if isinstance(r, RDV):
                            return r
                return ExtV("result:" + nm)
            return TopV("opaque " + v.kind)
        if isinstance(v, e1.Unknown):
            return TopV("unfolded: " + v.why)
        if isinstance(v, (set, frozenset)):
            return TupleV([self.lift(x) for x in sorted(v, key=repr)])
        return TopV("lift " + type(v).__name__)

    def class_of(self, cv):
        """(mro list of (mod, ClassDef))"""
        key = (cv.mod.name, cv.name)
        if key in self.class_cache:
            return self.class_cache[key]
        mro = [(cv.mod, cv.node)]
        seen = {key}
        cur_mod, cur = cv.mod, cv.node
        while True:
            nxt = None
            for b in cur.bases:
                if isinstance(b, ast.Name):
                    env = self.model.env(cur_mod.name)
                    bv = env.get(b.id)
                    if isinstance(bv, e1.ClassRef):
                        nxt = (bv.mod, bv.node)
                        break
            if nxt is None or (nxt[0].name, nxt[1].name) in seen:
                break
            mro.append(nxt)
            seen.add((nxt[0].name, nxt[1].name))
            cur_mod, cur = nxt
        self.class_cache[key] = mro
        return mro

    def find_member(self, cv, name):
        for mod, cnode in self.class_of(cv):
            for st in cnode.body:
                if isinstance(st, ast.FunctionDef) and st.name == name:
                    return ("func", mod, st, cnode)
                if isinstance(st, ast.Assign):
                    for t in st.targets:
                        if isinstance(t, ast.Name) and t.id == name:
                            return ("assign", mod, st, cnode)
                if isinstance(st, ast.AnnAssign) and st.value is not None and isinstance(st.target, ast.Name) \
                        and st.target.id == name and ("ClassVar" in ast.unparse(st.annotation) or
                                                      self._plain_class(cnode)):
                    # an annotated assignment with a value in the body of an ordinary class binds a class
                    # attribute, ClassVar or not (NamedTuple / dataclass bodies declare fields instead)
                    return ("assign", mod, st, cnode)
        return None

    @staticmethod
    def _plain_class(cnode):
        if cnode.decorator_list or cnode.keywords:
            return False
        for b in cnode.bases:
            if ast.unparse(b).split(".")[-1] in ("NamedTuple", "TypedDict", "Enum", "IntEnum", "Protocol", "Generic"):
                return False
        return True

    def is_subclass(self, cv, other_name):
        return any(c.name == other_name for _, c in self.class_of(cv))

    # ------------------------------------------------------------------
    # name lookup
    def lookup(self, name, st, node):
        # local frames: current, then enclosing (closure) frames are linked through
        # the '__parent__' entry
        f = st.frames[-1]
        depth = len(st.frames) - 1
        while f is not None:
            if name in f:
                return f[name], ("var", depth, name)
            pd = f.get("__parent__")
            if pd is None or pd >= depth or pd >= len(st.frames):
                break
            depth = pd
            f = st.frames[pd]
        mod = self.cur_mod[-1]
        env = self.model.env(mod.name)
        if name in env:
            v = env[name]
            if isinstance(v, e1.Opaque) and v.kind == "instance" and isinstance(v.info[0], e1.ClassRef):
                return self._global_object(st, mod, name, v), None
            return self.lift(v, name), None
        if name in ("int", "str", "float", "bool", "len", "type", "isinstance", "getattr",
                    "hasattr", "min", "max", "abs", "enumerate", "range", "tuple", "list",
                    "dict", "set", "sorted", "zip", "all", "any", "sum", "repr", "print",
                    "super", "ValueError", "TypeError", "KeyError", "IndexError",
                    "Exception", "reversed", "round", "divmod", "NotImplementedError",
                    "AssertionError", "OverflowError", "StopIteration", "next", "iter",
                    "frozenset", "hash", "id", "callable", "format", "ord", "chr", "map", "filter"):
            return ExtV(name), None
        return None, None

    def _global_object(self, st, mod, name, op):
        """A module-level instance of a package class: one shared object per state
        (it existed before the call, so stores into it are effects)."""
        key = ("global", mod.name, name)
        for o in st.heap.values():
            if o.sym == key:
                return RefV(o.oid)
        cref, args, kwargs, node = op.info
        cv = ClassV(cref.mod, cref.node)
        largs = [self.lift(a) for a in args]
        lkw = {k: self.lift(v) for k, v in kwargs.items()}
        outs = self.instantiate(st, cv, largs, lkw, node)
        for s2, ref in outs:
            if isinstance(ref, RefV) and s2 is st:
                o = st.heap[ref.oid]
                o.fresh = False
                o.sym = key
                return ref
        return TopV("module-level instance " + name)

    def set_var(self, st, name, val):
        # assignment binds in the current frame unless declared nonlocal (not modelled)
        st.frames[-1][name] = val

    def write_slot(self, st, slot, val):
        if slot is None:
            return
        if slot[0] == "var":
            st.frames[slot[1]][slot[2]] = val
        elif slot[0] == "attr":
            st.heap[slot[1]].attrs[slot[2]] = val

    def read_slot(self, st, slot):
        if slot[0] == "var":
            return st.frames[slot[1]].get(slot[2])
        return st.heap[slot[1]].attrs.get(slot[2])

    def slot_of(self, node, st):
        """Storage slot of a simple lvalue-like expression (after it was evaluated,
        so no forking is needed), or None."""
        if isinstance(node, ast.Name):
            v, slot = self.lookup(node.id, st, node)
            return slot
        if isinstance(node, ast.Attribute):
            base = node.value
            bslot = None
            if isinstance(base, (ast.Name, ast.Attribute)):
                bslot = self.slot_of(base, st)
            if bslot is None:
                return None
            bv = self.read_slot(st, bslot)
            if isinstance(bv, RefV) and node.attr in st.heap[bv.oid].attrs:
                return ("attr", bv.oid, node.attr)
        return None

    # ------------------------------------------------------------------
    # forking loads
    def load(self, st, val, slot):
        """Split a stored (possibly union) value into definite alternatives."""
        if isinstance(val, UnionV):
            out = []
            for alt in val.alts:
                s2 = st.fork()
                self.write_slot(s2, slot, alt)
                self.tick()
                out.append((s2, alt))
            return out
        return [(st, val)]

    # ------------------------------------------------------------------
    # expressions
    def ev(self, n, st):
        m = getattr(self, "ev_" + type(n).__name__, None)
        if m is None:
            return [(st, self.undecided(st, n, "expression " + type(n).__name__))]
        return m(n, st)

    def ev_Constant(self, n, st):
        v = n.value
        if v is None:
            return [(st, NONE)]
        if v is Ellipsis:
            return [(st, TopV("ellipsis"))]
        return [(st, self.lift(v))]

    def ev_Name(self, n, st):
        v, slot = self.lookup(n.id, st, n)
        if v is None:
            if self._assigned_somewhere(n.id):
                return [(st, self.raised("unbound-local", "UnboundLocalError", n,
                                         "local '{}' is not bound on this path".format(n.id)))]
            return [(st, self.undecided(st, n, "unknown name " + n.id))]
        if slot is not None:
            return self.load(st, v, slot)
        return [(st, v)]

    def _assigned_somewhere(self, name):
        fn = self.cur_fnode[-1] if getattr(self, "cur_fnode", None) else None
        if fn is None:
            return False
        for x in ast.walk(fn):
            if isinstance(x, ast.Name) and x.id == name and isinstance(x.ctx, ast.Store):
                return True
        return False

    def ev_NamedExpr(self, n, st):
        out = []
        for s, v in self.ev(n.value, st):
            if not isinstance(v, Raised) and isinstance(n.target, ast.Name):
                self.set_var(s, n.target.id, v)
            out.append((s, v))
        return out

    def ev_Tuple(self, n, st):
        return self._ev_seq(n.elts, st, lambda items: TupleV(items))

    def ev_List(self, n, st):
        return self._ev_seq(n.elts, st, lambda items: TupleV(items, is_list=True))

    def _ev_seq(self, elts, st, mk):
        acc = [(st, [])]
        for e in elts:
            nxt = []
            for s, items in acc:
                if items and isinstance(items[-1], Raised):
                    nxt.append((s, items))
                    continue
                if isinstance(e, ast.Starred):
                    for s2, v in self.ev(e.value, s):
                        if isinstance(v, Raised):
                            nxt.append((s2, items + [v]))
                        elif isinstance(v, TupleV):
                            nxt.append((s2, items + list(v.items)))
                        else:
                            nxt.append((s2, items + [self.undecided(s2, e, "starred non-tuple")]))
                    continue
                for s2, v in self.ev(e, s):
                    nxt.append((s2, items + [v]))
            acc = nxt
        out = []
        for s, items in acc:
            if items and isinstance(items[-1], Raised):
                out.append((s, items[-1]))
            else:
                out.append((s, mk(items)))
        return out

    def ev_Set(self, n, st):
        return self._ev_seq(n.elts, st, lambda items: TupleV(items, is_list=True))

    def ev_Dict(self, n, st):
        keys = [k for k in n.keys]
        if any(k is None for k in keys):
            return [(st, self.undecided(st, n, "dict unpacking"))]
        acc = self._ev_seq(list(n.keys) + list(n.values), st, lambda items: items)
        out = []
        for s, items in acc:
            if isinstance(items, Raised):
                out.append((s, items))
                continue
            k = len(n.keys)
            out.append((s, DictV(list(zip(items[:k], items[k:])))))
        return out

    def ev_JoinedStr(self, n, st):
        """f-string: a constant when every part folds to a constant without a format spec"""
        parts = []
        for v in n.values:
            if isinstance(v, ast.Constant) and isinstance(v.value, str):
                parts.append(v)
            elif isinstance(v, ast.FormattedValue) and v.format_spec is None and v.conversion in (-1, 115):
                parts.append(v.value)
            else:
                parts = None
                break
        if parts is None:
            # the embedded expressions are still evaluated (they may raise)
            exprs = [v.value for v in n.values if isinstance(v, ast.FormattedValue)]
            out = []
            for s, items in self._ev_seq(exprs, st, lambda items: items):
                out.append((s, items if isinstance(items, Raised) else StrV(None, sym=("fstring",))))
            return out
        out = []
        for s, items in self._ev_seq(parts, st, lambda items: items):
            if isinstance(items, Raised):
                out.append((s, items))
                continue
            txt = ""
            for it in items:
                if isinstance(it, StrV) and it.is_const():
                    txt += it.const()
                elif isinstance(it, IntV) and it.is_const() and not isinstance(it, BoolV):
                    txt += str(it.lo)
                else:
                    txt = None
                    break
            out.append((s, StrV({txt}) if txt is not None else StrV(None, sym=("fstring",))))
        return out

    def ev_IfExp(self, n, st):
        out = []
        for s, t in self.cond(n.test, st):
            if isinstance(t, Raised):
                out.append((s, t))
                continue
            out.extend(self.ev(n.body if t else n.orelse, s))
        return out

    def ev_Lambda(self, n, st):
        return [(st, TopV("lambda"))]

    def ev_Attribute(self, n, st):
        out = []
        for s, base in self.ev(n.value, st):
            if isinstance(base, Raised):
                out.append((s, base))
                continue
            out.extend(self.getattr_(s, base, n.attr, n))
        return out

    def getattr_(self, st, base, attr, node, default=None):
        if isinstance(base, GroupDictV) and attr == "get":
            return [(st, ExtV("groupdict.get", bound=base))]
        if isinstance(base, NamedTupleV):
            if attr in base.names:
                return [(st, base.items[base.names.index(attr)])]
            for st_ in base.cref.node.body:
                if isinstance(st_, ast.FunctionDef) and st_.name == attr:
                    fv = FuncV(base.cref.mod, st_, bound_self=base)
                    if any(isinstance(d, ast.Name) and d.id == "property" for d in st_.decorator_list):
                        return [(s, oc[1]) for s, oc in self.call_func(fv, [], {}, st, node)]
                    return [(st, fv)]
            return [(st, self.undecided(st, node, "attribute {} of a NamedTuple value".format(attr)))]
        if isinstance(base, RefV):
            obj = st.heap[base.oid]
            if attr in obj.attrs:
                return self.load(st, obj.attrs[attr], ("attr", obj.oid, attr))
            if attr == "__class__":
                return [(st, obj.cls)]
            mem = self.find_member(obj.cls, attr)
            if mem is None:
                if default is not None:
                    return [(st, default)]
                # a class with a library base (NamedTuple, dataclass machinery, ...) may have
                # attributes the interpreter cannot see
                lib_base = False
                for m_, c_ in self.class_of(obj.cls):
                    for b_ in c_.bases:
                        if not (isinstance(b_, ast.Name) and isinstance(self.model.env(m_.name).get(b_.id), e1.ClassRef)) \
                                and ast.unparse(b_) not in ("object",):
                            lib_base = True
                    if c_.decorator_list:
                        lib_base = True
                if lib_base:
                    return [(st, self.undecided(st, node, "attribute {} of {} (class with a library base or "
                                                "decorator)".format(attr, obj.cls.name)))]
                return [(st, self.raised("attribute", "AttributeError", node,
                                         "{} has no attribute {}".format(obj.cls.name, attr)))]
            kind, mod, mnode, cnode = mem
            if kind == "assign":
                return [(st, self.lift(self._fold_in(mod, mnode.value)))]
            decos = [e1.callee_name(d) if not isinstance(d, ast.Name) else d.id
                     for d in mnode.decorator_list]
            if "property" in decos:
                fv = FuncV(mod, mnode, bound_self=base)
                res = []
                for s2, oc in self.call_func(fv, [], {}, st, node):
                    if oc[0] == "ret":
                        res.append((s2, oc[1]))
                    else:
                        res.append((s2, oc[1]))
                return res
            if "classmethod" in decos:
                return [(st, FuncV(mod, mnode, bound_self=obj.cls))]
            if "staticmethod" in decos:
                return [(st, FuncV(mod, mnode))]
            return [(st, FuncV(mod, mnode, bound_self=base))]
        if isinstance(base, NoneV):
            if default is not None:
                return [(st, default)]
            return [(st, self.raised("none-attribute", "AttributeError", node,
                                     "attribute '{}' of None".format(attr)))]
        if isinstance(base, DTV):
            if attr in DT_RANGES:
                if attr in base.fields and not base.deltas:
                    return [(st, base.fields[attr])]
                lo, hi = DT_RANGES[attr]
                return [(st, IntV(lo, hi, ("dtfield", base.sym, attr)))]
            if attr in ("date", "weekday", "isoweekday", "replace", "time", "timestamp",
                        "strftime", "isoformat", "toordinal", "timetuple"):
                return [(st, ExtV("dt." + attr, bound=base))]
            return [(st, self.undecided(st, node, "datetime attribute " + attr))]
        if isinstance(base, DateV):
            # the calendar fields and weekday of x.date() are those of x
            if attr in ("year", "month", "day"):
                return self.getattr_(st, base.dt, attr, node, default)
            if attr in ("weekday", "isoweekday", "toordinal"):
                return [(st, ExtV("dt." + attr, bound=base.dt))]
            return [(st, self.undecided(st, node, "date attribute " + attr))]
        if isinstance(base, MatchV):
            if attr in ("group", "span", "start", "end", "captures", "groupdict", "groups"):
                return [(st, ExtV("match." + attr, bound=base))]
            return [(st, self.undecided(st, node, "match attribute " + attr))]
        if isinstance(base, EnumV):
            if attr in ("value", "name"):
                vals = set()
                cref = self._enum_class(base.cls)
                for nm in base.names:
                    mv = cref.members.get(nm) if cref else None
                    if mv is None:
                        return [(st, self.undecided(st, node, "enum member"))]
                    vals.add(mv.value if attr == "value" else mv.name)
                if all(isinstance(v, str) for v in vals):
                    return [(st, StrV(vals, sym=("enumattr", base.sym, attr)))]
                return [(st, self.undecided(st, node, "non-string enum value"))]
            return [(st, self.undecided(st, node, "enum attribute " + attr))]
        if isinstance(base, ClassV):
            cref = self._enum_class(base.name)
            if cref is not None and attr in cref.members:
                return [(st, EnumV(base.name, {attr}))]
            mem = self.find_member(base, attr)
            if mem and mem[0] == "func":
                decos = [d.id if isinstance(d, ast.Name) else e1.callee_name(d)
                         for d in mem[2].decorator_list]
                if "classmethod" in decos:
                    return [(st, FuncV(mem[1], mem[2], bound_self=base))]
                return [(st, FuncV(mem[1], mem[2]))]
            if attr == "__name__":
                return [(st, StrV({base.name}))]
            return [(st, self.undecided(st, node, "class attribute " + attr))]
        if isinstance(base, StrV):
            return [(st, ExtV("str." + attr, bound=base))]
        if isinstance(base, RDV):
            return [(st, self._rd_attr(base, attr))]
        if isinstance(base, TDV):
            if attr in ("days", "seconds"):
                return [(st, IntV(-INF, INF, ("tdfield", base.sym, attr)))]
            return [(st, ExtV("td." + attr, bound=base))]
        if isinstance(base, ExtV):
            if attr == "mdays" and base.name.endswith("calendar"):
                return [(st, TupleV([IntV(x, x) for x in (0, 31, 28, 31, 30, 31, 30, 31, 31, 30, 31, 30, 31)], True))]
            return [(st, ExtV(base.name + "." + attr, bound=base.bound))]
        if isinstance(base, (TupleV, PyV, DictV)):
            return [(st, ExtV("coll." + attr, bound=base))]
        if isinstance(base, FuncV) and attr == "__name__":
            return [(st, StrV({base.node.name}))]
        if isinstance(base, TopV):
            return [(st, TopV("attr of top"))]
        if isinstance(base, IntV):
            return [(st, self.undecided(st, node, "attribute of int"))]
        return [(st, self.undecided(st, node, "attribute {} of {}".format(attr, base.kind)))]

    def _rd_attr(self, rd, attr):
        if attr in rd.abs:
            return rd.abs[attr]
        if getattr(rd, "is_diff", False) and attr in rd.rel:
            return rd.rel[attr]
        if attr in REL_KEYS:
            small = all(k in ("years", "months", "weeks", "days") for k in rd.rel)
            if attr == "days":
                d = rd.rel.get("days")
                w = rd.rel.get("weeks")
                if not small:
                    return IntV(-INF, INF, ("rdfield", rd.sym, attr))
                lo = (d.lo if d else 0) + 7 * (w.lo if w else 0)
                hi = (d.hi if d else 0) + 7 * (w.hi if w else 0)
                sym = d.sym if (d is not None and w is None) else ("rdfield", rd.sym, attr)
                return IntV(lo, hi, sym)
            if attr == "weeks":
                return IntV(-INF, INF, ("rdfield", rd.sym, attr))
            v = rd.rel.get(attr)
            if v is None:
                return IntV(0, 0)
            if small:
                return v
            return IntV(-INF, INF, ("rdfield", rd.sym, attr))
        if attr in ABS_KEYS:
            return NONE
        return TopV("relativedelta attribute " + attr)

    def _enum_class(self, name):
        if name in self.enum_cache:
            return self.enum_cache[name]
        res = None
        for mn in self.model.mods:
            if not mn.startswith("ctparse"):
                continue
            if "corpus" in mn:
                continue
            env = self.model.env(mn)
            v = env.get(name)
            if isinstance(v, e1.ClassRef) and v.members:
                res = v
                break
        self.enum_cache[name] = res
        return res

    def _fold_in(self, mod, expr):
        ev = e1.PureEval(self.model, mod, self.model.env(mod.name))
        try:
            return ev.ev(expr, {})
        except Undecided as e:
            return e1.Unknown(str(e))

    # ------------------------------------------------------------------
    def ev_Subscript(self, n, st):
        out = []
        for s, base in self.ev(n.value, st):
            if isinstance(base, Raised):
                out.append((s, base))
                continue
            if isinstance(n.slice, ast.Slice):
                out.extend(self._slice(n, s, base))
                continue
            for s2, key in self.ev(n.slice, s):
                if isinstance(key, Raised):
                    out.append((s2, key))
                    continue
                out.extend(self.subscript(s2, base, key, n))
        return out

    def _slice(self, n, st, base):
        def bound(e, s):
            if e is None:
                return [(s, None)]
            return [(s2, v) for s2, v in self.ev(e, s)]
        out = []
        for s1, lo in bound(n.slice.lower, st):
            for s2, hi in bound(n.slice.upper, s1):
                if isinstance(base, TupleV) and all(
                        b is None or (isinstance(b, IntV) and b.is_const()) for b in (lo, hi)) \
                        and n.slice.step is None:
                    a = lo.lo if lo is not None else None
                    b = hi.lo if hi is not None else None
                    out.append((s2, TupleV(base.items[a:b], base.is_list)))
                elif isinstance(base, StrV):
                    const_b = all(b is None or (isinstance(b, IntV) and b.is_const()) for b in (lo, hi)) \
                        and n.slice.step is None
                    if const_b:
                        a = lo.lo if lo is not None else None
                        b = hi.lo if hi is not None else None
                        if base.is_const():
                            out.append((s2, StrV({base.const()[a:b]})))
                        elif base.vals is not None:
                            out.append((s2, StrV({x[a:b] for x in base.vals})))
                        else:
                            out.append((s2, StrV(None, sym=("slice", base.sym, a, b))))
                    else:
                        out.append((s2, StrV(None, sym=("slice", base.sym, "?", getattr(n, "lineno", 0),
                                                        getattr(n, "col_offset", 0)))))
                else:
                    out.append((s2, self.undecided(s2, n, "slice")))
        return out

    def subscript(self, st, base, key, node):
        if isinstance(base, GroupDictV):
            return self._match_call(st, base.match, "group", [key], node, knode=node.slice)
        if isinstance(base, TupleV):
            if isinstance(key, IntV) and key.is_const():
                i = key.lo
                if -len(base.items) <= i < len(base.items):
                    return [(st, base.items[i])]
                return [(st, self.raised("index", "IndexError", node, "index out of range"))]
            if isinstance(key, IntV) and base.items:
                n_ = len(base.items)
                res = []
                if key.lo >= -n_ and key.hi < n_:
                    sel = [base.items[i] for i in range(int(key.lo), int(key.hi) + 1)]
                    j = join_vals(sel)
                    if isinstance(j, IntV) and key.lo >= 0 and all(isinstance(x, IntV) for x in base.items):
                        # keep the relation between index and element
                        j = IntV(j.lo, j.hi, ("select", tuple(x.sym for x in base.items), key.sym))
                    return [(st, j)]
                return [(st, self.raised("index", "IndexError", node, "index may be out of range"))]
            return [(st, self.undecided(st, node, "tuple index"))]
        if isinstance(base, PyV) and isinstance(base.value, dict):
            d = base.value
            if isinstance(key, StrV):
                if key.vals is None:
                    return [(st, self.raised("table-key", "KeyError", node,
                                             "unconstrained string key into table {}".format(base.name)))]
                good = [k for k in key.vals if k in d]
                bad = sorted(k for k in key.vals if k not in d)
                out = []
                if bad:
                    s2 = st.fork() if good else st
                    self._refine_expr(s2, node.slice, StrV(bad, sym=key.sym))
                    out.append((s2, self.raised(
                        "table-key", "KeyError", node,
                        "key(s) {} not in table {}".format(bad[:4], base.name))))
                if good:
                    if any((isinstance(d[k], e1.Opaque) and d[k].kind == "instance") or isinstance(d[k], e1.NTValue)
                           for k in good) and len(good) <= 12:
                        # a table of module-level instances: one path per key, the instance as a
                        # shared (pre-existing) object
                        first = True
                        for k in sorted(good):
                            s2 = st if first and len(good) == 1 else st.fork()
                            first = False
                            self._refine_expr(s2, node.slice, StrV([k], sym=key.sym))
                            v = d[k]
                            if isinstance(v, e1.Opaque) and v.kind == "instance" and isinstance(v.info[0], e1.ClassRef):
                                out.append((s2, self._global_object(s2, self.cur_mod[-1],
                                                                    "{}[{!r}]".format(base.name, k), v)))
                            else:
                                out.append((s2, self.lift(v)))
                        return out
                    self._refine_expr(st, node.slice, StrV(good, sym=key.sym))
                    out.append((st, join_vals([self.lift(d[k]) for k in sorted(good)])))
                return out
            if isinstance(key, BoolV):
                out = []
                if key.value is None:
                    for s2, t in self._unknown_bool(st, key.sym if key.sym else ("bool", self.where(node))):
                        out.append((s2, self.lift(d[t])) if t in d else
                                   (s2, self.raised("table-key", "KeyError", node, "key not in table")))
                    return out
                if key.value in d:
                    return [(st, self.lift(d[key.value]))]
                return [(st, self.raised("table-key", "KeyError", node, "key not in table"))]
            if isinstance(key, IntV) and key.is_const():
                if key.lo in d:
                    return [(st, self.lift(d[key.lo]))]
                return [(st, self.raised("table-key", "KeyError", node, "key not in table"))]
            if isinstance(key, EnumV):
                out = []
                for nm in sorted(key.names):
                    k = e1.EnumVal(key.cls, nm, None)
                    s2 = st.fork() if len(key.names) > 1 else st
                    if len(key.names) > 1:
                        self._refine_expr(s2, node.slice, EnumV(key.cls, {nm}))
                    if k in d:
                        out.append((s2, self.lift(d[k])))
                    else:
                        out.append((s2, self.raised("table-key", "KeyError", node,
                                                    "{}.{} not in table".format(key.cls, nm))))
                return out
            return [(st, self.undecided(st, node, "table key kind " + key.kind))]
        if isinstance(base, DictV):
            if isinstance(key, EnumV):
                out = []
                for nm in sorted(key.names):
                    s2 = st.fork() if len(key.names) > 1 else st
                    if len(key.names) > 1:
                        self._refine_expr(s2, node.slice, EnumV(key.cls, {nm}))
                    hit = None
                    for kv, vv in base.items:
                        if isinstance(kv, EnumV) and kv.cls == key.cls and kv.names == {nm}:
                            hit = vv
                    if hit is None:
                        out.append((s2, self.raised(
                            "table-key", "KeyError", node,
                            "{}.{} has no entry in the dict literal".format(key.cls, nm))))
                    else:
                        out.append((s2, hit))
                return out
            if isinstance(key, (StrV, IntV)) and key.is_const():
                kc = key.const() if isinstance(key, StrV) else key.lo
                for kv, vv in base.items:
                    if isinstance(kv, (StrV, IntV)) and kv.is_const() and \
                            (kv.const() if isinstance(kv, StrV) else kv.lo) == kc:
                        return [(st, vv)]
                return [(st, self.raised("table-key", "KeyError", node, "key not in dict literal"))]
            return [(st, self.undecided(st, node, "dict literal key"))]
        if isinstance(base, RRuleV):
            self.site_counter += 1
            cnt = base.kwargs.get("count")
            bounded = "until" in base.kwargs or not (isinstance(cnt, IntV) and cnt.lo >= 1)
            ok = DTV(("rrule", base.sym, self.site_counter))
            if bounded:
                # with an end bound (or without count) the recurrence can be empty
                s2 = st.fork()
                self.tick()
                return [(st, ok), (s2, self.raised("index", "IndexError", node,
                                                   "the recurrence set can be empty (bounded by 'until' / no count)"))]
            return [(st, ok)]
        if isinstance(base, StrV):
            return [(st, StrV(None, sym=("index", base.sym)))]
        if isinstance(base, TopV):
            return [(st, TopV("subscript of top"))]
        if isinstance(base, ExtV) and base.name.split(".")[-1] == "mdays":
            t = TupleV([IntV(x, x) for x in (0, 31, 28, 31, 30, 31, 30, 31, 31, 30, 31, 30, 31)], True)
            return self.subscript(st, t, key, node)
        return [(st, self.undecided(st, node, "subscript of " + base.kind))]

    def _refine_expr(self, st, node, val):
        slot = self.slot_of(node, st)
        if slot is not None:
            self.write_slot(st, slot, val)
        # the same input value may be held by other variables (a parameter of a helper it was
        # passed to, the attribute it was read from): narrow every copy, so that a second test of
        # the same value on this path cannot take the other outcome
        sym = getattr(val, "sym", None)
        if isinstance(val, (StrV, EnumV)) and isinstance(sym, tuple) and sym and sym[0] in ("attr", "param", "group"):
            def narrower(old):
                if type(old) is not type(val) or getattr(old, "sym", None) != sym:
                    return False
                if isinstance(val, StrV):
                    return val.vals is not None and (old.vals is None or set(val.vals) < set(old.vals))
                return set(val.names) < set(old.names)
            for fr in st.frames:
                for k, v in list(fr.items()):
                    if isinstance(v, (StrV, EnumV)) and narrower(v):
                        fr[k] = val
            for o in st.heap.values():
                for k, v in list(o.attrs.items()):
                    if isinstance(v, (StrV, EnumV)) and narrower(v):
                        o.attrs[k] = val

    # ------------------------------------------------------------------
    def ev_UnaryOp(self, n, st):
        if isinstance(n.op, ast.Not):
            out = []
            for s, t in self.cond(n.operand, st):
                if isinstance(t, Raised):
                    out.append((s, t))
                else:
                    out.append((s, BoolV(not t)))
            return out
        out = []
        for s, v in self.ev(n.operand, st):
            if isinstance(v, Raised):
                out.append((s, v))
            elif isinstance(v, IntV) and isinstance(n.op, ast.USub):
                out.append((s, IntV(-v.hi, -v.lo, ("neg", v.sym))))
            elif isinstance(v, IntV) and isinstance(n.op, ast.UAdd):
                out.append((s, v))
            elif isinstance(v, NoneV):
                out.append((s, self.raised("none-operand", "TypeError", n, "unary op on None")))
            else:
                out.append((s, self.undecided(s, n, "unary op")))
        return out

    def ev_BoolOp(self, n, st):
        # value semantics of and/or with short circuit
        is_and = isinstance(n.op, ast.And)
        acc = [(st, None, False)]     # (state, last value, finished)
        for i, e in enumerate(n.values):
            nxt = []
            last = i == len(n.values) - 1
            for s, v, done in acc:
                if done:
                    nxt.append((s, v, True))
                    continue
                for s2, v2 in self.ev(e, s):
                    if isinstance(v2, Raised):
                        nxt.append((s2, v2, True))
                        continue
                    if last:
                        nxt.append((s2, v2, True))
                        continue
                    for s3, t in self.truth(s2, v2, e):
                        if isinstance(t, Raised):
                            nxt.append((s3, t, True))
                        elif t == is_and:
                            nxt.append((s3, v2, False))
                        else:
                            nxt.append((s3, self._refined_value(s3, e, v2), True))
            acc = nxt
        return [(s, v) for s, v, _ in acc]

    def _refined_value(self, st, node, v):
        slot = self.slot_of(node, st)
        if slot is not None:
            cur = self.read_slot(st, slot)
            if cur is not None and cur.definite():
                return cur
        return v

    def ev_Compare(self, n, st):
        out = []
        for s, t in self.cond(n, st):
            if isinstance(t, Raised):
                out.append((s, t))
            else:
                out.append((s, BoolV(t)))
        return out

    def ev_BinOp(self, n, st):
        out = []
        for s1, a in self.ev(n.left, st):
            if isinstance(a, Raised):
                out.append((s1, a))
                continue
            for s2, b in self.ev(n.right, s1):
                if isinstance(b, Raised):
                    out.append((s2, b))
                    continue
                out.extend(self.binop(s2, n.op, a, b, n))
        return out

    def binop(self, st, op, a, b, node):
        opn = type(op).__name__
        if isinstance(a, NoneV) or isinstance(b, NoneV):
            return [(st, self.raised("none-operand", "TypeError", node,
                                     "operand of {} may be None".format(opn)))]
        if isinstance(a, IntV) and isinstance(b, IntV):
            return [(st, self.int_arith(st, opn, a, b, node))]
        if isinstance(a, StrV) and isinstance(b, StrV) and opn == "Add":
            if a.vals is not None and b.vals is not None and len(a.vals) * len(b.vals) <= 4000:
                return [(st, StrV({x + y for x in a.vals for y in b.vals},
                                  sym=("op", "+", a.sym, b.sym)))]
            return [(st, StrV(None, sym=("op", "+", a.sym, b.sym),
                              nonempty=a.nonempty or b.nonempty))]
        if isinstance(a, StrV) and opn == "Mod":
            return [(st, StrV(None, sym=("fmt", a.sym)))]
        if isinstance(a, DTV) and isinstance(b, RDV) and opn in ("Add", "Sub"):
            return self.dt_add(st, a, b, node, neg=(opn == "Sub"))
        if isinstance(a, RDV) and isinstance(b, DTV) and opn == "Add":
            return self.dt_add(st, b, a, node)
        if isinstance(a, DTV) and isinstance(b, DTV) and opn == "Sub":
            return [(st, TDV(a, b))]
        if isinstance(a, DTV) and isinstance(b, TDV) and opn in ("Add", "Sub"):
            self.site_counter += 1
            return [(st, DTV(("dtexpr", self.where(node), self.site_counter), base=a.base,
                             deltas=a.deltas + (b,)))]
        if isinstance(a, TupleV) and isinstance(b, TupleV) and opn == "Add":
            return [(st, TupleV(a.items + b.items, a.is_list))]
        if opn == "Mult" and ((isinstance(a, RDV) and isinstance(b, IntV)) or
                              (isinstance(a, IntV) and isinstance(b, RDV))):
            rd, k = (a, b) if isinstance(a, RDV) else (b, a)
            if not rd.abs and not getattr(rd, "is_diff", False):
                rel = {}
                for f, v in rd.rel.items():
                    rel[f] = self.int_arith(st, "Mult", k, v, node)
                if not any(isinstance(v, Raised) for v in rel.values()):
                    return [(st, RDV({}, rel))]
        if isinstance(a, RDV) and isinstance(b, RDV) and opn == "Add":
            rel = dict(a.rel)
            for k, v in b.rel.items():
                rel[k] = self.int_arith(st, "Add", rel[k], v, node) if k in rel else v
            ab = dict(a.abs)
            ab.update(b.abs)
            return [(st, RDV(ab, rel))]
        if isinstance(a, (IntV, FloatV)) and isinstance(b, (IntV, FloatV)):
            if opn in ("Div", "FloorDiv", "Mod") and isinstance(b, IntV) and b.lo <= 0 <= b.hi:
                return [(st, self.raised("zero-division", "ZeroDivisionError", node,
                                         "divisor may be zero"))]
            return [(st, FloatV())]
        if isinstance(a, TopV) or isinstance(b, TopV):
            return [(st, TopV("binop on top"))]
        if isinstance(a, StrV) and isinstance(b, IntV) and opn == "Mult":
            return [(st, StrV(None, sym=("rep", a.sym)))]
        if not (isinstance(a, KNOWN_KINDS) and isinstance(b, KNOWN_KINDS)):
            return [(st, self.undecided(st, node, "operator {} on {} and {}".format(opn, a.kind, b.kind)))]
        return [(st, self.raised("type-mismatch", "TypeError", node,
                                 "unsupported operand kinds {} {} {}".format(a.kind, opn, b.kind)))]

    def int_arith(self, st, opn, a, b, node):
        sym = ("op", opn, a.sym, b.sym)
        try:
            if opn == "Add":
                return IntV(a.lo + b.lo, a.hi + b.hi, sym)
            if opn == "Sub":
                return IntV(a.lo - b.hi, a.hi - b.lo, sym)
            if opn == "Mult":
                c = [x * y for x in (a.lo, a.hi) for y in (b.lo, b.hi)
                     if not ((x in (INF, -INF) and y == 0) or (y in (INF, -INF) and x == 0))]
                c = c or [0]
                return IntV(min(c), max(c), sym)
            if opn == "FloorDiv":
                if b.lo <= 0 <= b.hi:
                    return self.raised("zero-division", "ZeroDivisionError", node, "divisor may be zero")
                c = []
                for x in (a.lo, a.hi):
                    for y in (b.lo, b.hi):
                        if x in (INF, -INF):
                            c.append(x if y > 0 else -x)
                        elif y in (INF, -INF):
                            c.append(0)
                        else:
                            c.append(x // y)
                return IntV(min(c), max(c), sym)
            if opn == "Mod":
                if b.lo <= 0 <= b.hi:
                    return self.raised("zero-division", "ZeroDivisionError", node, "divisor may be zero")
                if b.lo > 0:
                    if a.is_const() and b.is_const():
                        return IntV(a.lo % b.lo, a.lo % b.lo, sym)
                    if 0 <= a.lo and a.hi < b.lo:
                        return IntV(a.lo, a.hi, sym)
                    return IntV(0, b.hi - 1, sym)
                return IntV(b.lo + 1, 0, sym)
            if opn == "Div":
                if b.lo <= 0 <= b.hi:
                    return self.raised("zero-division", "ZeroDivisionError", node, "divisor may be zero")
                return FloatV()
            if opn == "Pow":
                return IntV(-INF, INF, sym)
        except (OverflowError, ValueError):
            pass
        return IntV(-INF, INF, sym)

    def dt_add(self, st, dt, rd, node, neg=False):
        self.site_counter += 1
        for k, v in rd.rel.items():
            lim = REL_LIMIT.get(k, INF)
            if isinstance(v, IntV) and (abs(v.lo) > lim or abs(v.hi) > lim):
                bad = self.raised("datetime-overflow", "OverflowError", node,
                                  "{}={} added to a datetime is unbounded".format(k, v))
                if min(abs(v.lo), abs(v.hi)) > lim and (v.lo > 0 or v.hi < 0):
                    return [(st, bad)]
                # may overflow or not: both outcomes
                s2 = st.fork()
                self.tick()
                rel2 = dict(rd.rel)
                rel2[k] = IntV(max(v.lo, -lim), min(v.hi, lim), v.sym)
                ok = self.dt_add(st, dt, RDV(rd.abs, rel2, sym=rd.sym), node, neg)
                return ok + [(s2, bad)]
        for k, v in rd.abs.items():
            if k in DT_RANGES and isinstance(v, IntV) and k != "day":
                lo, hi = DT_RANGES[k]
                if v.lo < lo or v.hi > hi:
                    return [(st, self.raised(
                        "datetime-field", "ValueError", node,
                        "absolute {}={} outside [{},{}]".format(k, v, lo, hi)))]
            if k == "day" and isinstance(v, IntV) and v.lo < 0:
                # dateutil: day = min(length of the month, rd.day or dt.day) -- an absolute day above the
                # month length is clipped and 0 means "keep"; only a negative day reaches replace() and raises
                return [(st, self.raised("datetime-field", "ValueError", node,
                                         "absolute day={} may be negative".format(v)))]
        if neg:
            rd = RDV(rd.abs, {k: IntV(-v.hi, -v.lo, ("neg", v.sym)) for k, v in rd.rel.items()})
        sym = ("dtexpr", dt.sym, rd.sym)
        return [(st, DTV(sym, base=dt.base, deltas=dt.deltas + (rd,)))]

    # ------------------------------------------------------------------
    # truth / conditions:  returns list of (state, bool | Raised)
    def cond(self, n, st):
        if isinstance(n, ast.BoolOp):
            is_and = isinstance(n.op, ast.And)
            acc = [(st, None)]
            for e in n.values:
                nxt = []
                for s, res in acc:
                    if res is not None:
                        nxt.append((s, res))
                        continue
                    for s2, t in self.cond(e, s):
                        if isinstance(t, Raised):
                            nxt.append((s2, t))
                        elif t != is_and:
                            nxt.append((s2, t))
                        else:
                            nxt.append((s2, None))
                acc = nxt
            return [(s, (is_and if r is None else r)) for s, r in acc]
        if isinstance(n, ast.UnaryOp) and isinstance(n.op, ast.Not):
            return [(s, (t if isinstance(t, Raised) else (not t))) for s, t in self.cond(n.operand, st)]
        if isinstance(n, ast.Compare):
            return self.compare(n, st)
        out = []
        for s, v in self.ev(n, st):
            if isinstance(v, Raised):
                out.append((s, v))
            else:
                out.extend(self.truth(s, v, n))
        return out

    def truth(self, st, v, node):
        """Truthiness of a definite value; forks and refines the slot of node."""
        if isinstance(v, NoneV):
            return [(st, False)]
        if isinstance(v, BoolV):
            if v.value is None:
                s2 = st.fork()
                self.tick()
                st.conds.append((v.sym, True))
                s2.conds.append((v.sym, False))
                return [(st, True), (s2, False)]
            return [(st, v.value)]
        if isinstance(v, IntV):
            if v.lo == 0 and v.hi == 0:
                return [(st, False)]
            if v.lo > 0 or v.hi < 0:
                return [(st, True)]
            s2 = st.fork()
            self.tick()
            # zero branch
            self._refine_expr(s2, node, IntV(0, 0, v.sym))
            s2.conds.append((("truth", v.sym), False))
            # non-zero branch: trim the interval at 0 when 0 is an end point
            lo, hi = v.lo, v.hi
            if lo == 0:
                lo = 1
            if hi == 0:
                hi = -1
            self._refine_expr(st, node, IntV(lo, hi, v.sym))
            st.conds.append((("truth", v.sym), True))
            return [(st, True), (s2, False)]
        if isinstance(v, StrV):
            if v.vals is not None:
                t = [x for x in v.vals if x]
                f = [x for x in v.vals if not x]
                out = []
                if t and f:
                    s2 = st.fork()
                    self._refine_expr(st, node, StrV(t, sym=v.sym))
                    self._refine_expr(s2, node, StrV(f, sym=v.sym))
                    return [(st, True), (s2, False)]
                return [(st, bool(t))]
            if v.nonempty:
                return [(st, True)]
            s2 = st.fork()
            self.tick()
            self._refine_expr(st, node, StrV(None, sym=v.sym, nonempty=True, group=v.group))
            self._refine_expr(s2, node, StrV({""}, sym=v.sym))
            return [(st, True), (s2, False)]
        if isinstance(v, RefV):
            obj = st.heap[v.oid]
            mem = self.find_member(obj.cls, "__bool__")
            if mem and mem[0] == "func":
                out = []
                for s2, oc in self.call_func(FuncV(mem[1], mem[2], bound_self=v), [], {}, st, node):
                    if oc[0] == "ret":
                        out.extend(self.truth(s2, oc[1], ast.Constant(value=None)))
                    else:
                        out.append((s2, oc[1]))
                return out
            mem = self.find_member(obj.cls, "__len__")
            if mem and mem[0] == "func":
                out = []
                for s2, oc in self.call_func(FuncV(mem[1], mem[2], bound_self=v), [], {}, st, node):
                    if oc[0] == "ret":
                        out.extend(self.truth(s2, oc[1], ast.Constant(value=None)))
                    else:
                        out.append((s2, oc[1]))
                return out
            return [(st, True)]
        if isinstance(v, (DTV, RDV, MatchV, FuncV, ClassV, ExtV, EnumV, DateV, RRuleV)):
            return [(st, True)]
        if isinstance(v, TupleV):
            return [(st, bool(v.items))]
        if isinstance(v, (PyV,)):
            return [(st, bool(v.value))]
        if isinstance(v, DictV):
            return [(st, bool(v.items))]
        if isinstance(v, FloatV):
            s2 = st.fork()
            self.tick()
            return [(st, True), (s2, False)]
        # TopV and others: unknown
        s2 = st.fork()
        self.tick()
        st.conds.append((("truth", getattr(v, "sym", None)), True))
        s2.conds.append((("truth", getattr(v, "sym", None)), False))
        return [(st, True), (s2, False)]

    # ------------------------------------------------------------------
    def compare(self, n, st):
        """Comparison chain; returns (state, bool|Raised)."""
        acc = []
        for s, left in self.ev(n.left, st):
            acc.append((s, left, n.left, None))
        for op, rnode in zip(n.ops, n.comparators):
            nxt = []
            for s, left, lnode, res in acc:
                if res is not None:
                    nxt.append((s, left, lnode, res))
                    continue
                if isinstance(left, Raised):
                    nxt.append((s, left, lnode, left))
                    continue
                for s2, right in self.ev(rnode, s):
                    if isinstance(right, Raised):
                        nxt.append((s2, right, rnode, right))
                        continue
                    for s3, t in self.cmp1(s2, op, left, lnode, right, rnode, n):
                        if isinstance(t, Raised) or t is False:
                            nxt.append((s3, right, rnode, t))
                        else:
                            nxt.append((s3, self._refined_value(s3, rnode, right), rnode, None))
            acc = nxt
        return [(s, (True if res is None else res)) for s, _, _, res in acc]

    def cmp1(self, st, op, a, anode, b, bnode, node):
        opn = type(op).__name__
        if opn in ("Is", "IsNot"):
            same = None
            if isinstance(a, NoneV) and isinstance(b, NoneV):
                same = True
            elif isinstance(a, NoneV) != isinstance(b, NoneV):
                same = False
            elif isinstance(a, RefV) and isinstance(b, RefV):
                same = a.oid == b.oid
            elif isinstance(a, BoolV) and isinstance(b, BoolV) and a.value is not None \
                    and b.value is not None:
                same = a.value == b.value
            elif isinstance(a, ExtV) and isinstance(b, ExtV) and a.bound is None and b.bound is None \
                    and not a.name.startswith("result:") and not b.name.startswith("result:"):
                same = a.name == b.name
            elif isinstance(a, ClassV) and isinstance(b, ClassV):
                same = (a.mod.name, a.name) == (b.mod.name, b.name)
            elif isinstance(a, (ClassV, ExtV)) and isinstance(b, (ClassV, ExtV)) \
                    and not getattr(a, "bound", None) and not getattr(b, "bound", None) \
                    and not any(isinstance(x, ExtV) and x.name.startswith("result:") for x in (a, b)):
                same = False
            elif isinstance(a, EnumV) and isinstance(b, EnumV):
                # enum members are singletons: identity is equality
                res = self.equals(st, a, anode, b, bnode, node)
                if opn == "IsNot":
                    res = [(s, (t if isinstance(t, Raised) else not t)) for s, t in res]
                return res
            if same is None:
                return self._unknown_bool(st, ("cmp", opn, a.sym, b.sym))
            return [(st, same if opn == "Is" else not same)]
        if opn in ("In", "NotIn"):
            res = self.contains(st, a, anode, b, bnode, node)
            if opn == "NotIn":
                res = [(s, (t if isinstance(t, Raised) else not t)) for s, t in res]
            return res
        if opn in ("Eq", "NotEq"):
            res = self.equals(st, a, anode, b, bnode, node)
            if opn == "NotEq":
                res = [(s, (t if isinstance(t, Raised) else not t)) for s, t in res]
            return res
        # ordering
        if isinstance(a, NoneV) or isinstance(b, NoneV):
            return [(st, self.raised("none-operand", "TypeError", node,
                                     "ordering comparison with None operand"))]
        if isinstance(a, IntV) and isinstance(b, IntV):
            return self.int_cmp(st, opn, a, anode, b, bnode)
        if (isinstance(a, DTV) and isinstance(b, DTV)) or \
                (isinstance(a, DateV) and isinstance(b, DateV)):
            return self._unknown_bool(st, ("cmp", opn, a.sym, b.sym))
        if isinstance(a, TopV) or isinstance(b, TopV) or isinstance(a, FloatV) or isinstance(b, FloatV):
            return self._unknown_bool(st, ("cmp", opn, a.sym, b.sym))
        if isinstance(a, StrV) and isinstance(b, StrV):
            return self._unknown_bool(st, ("cmp", opn, a.sym, b.sym))
        if isinstance(a, TupleV) and isinstance(b, TupleV):
            if any(isinstance(x, NoneV) for x in a.items + b.items):
                return [(st, self.raised("none-operand", "TypeError", node,
                                         "ordering comparison of tuples with a None element"))]
            if all(isinstance(x, IntV) for x in a.items + b.items) and len(a.items) + len(b.items) <= 12:
                # lexicographic order, element by element: each path carries the integer relations
                # that decide it (year/month/day keys compared as tuples are the if-cascade)
                return self._lex_cmp(st, opn, list(a.items), list(b.items))
            return self._unknown_bool(st, ("cmp", opn, a.sym, b.sym))
        if isinstance(a, RefV) and isinstance(b, RefV):
            oa = st.heap[a.oid]
            mname = {"Lt": "__lt__", "Gt": "__gt__", "LtE": "__le__", "GtE": "__ge__"}[opn]
            if self.find_member(oa.cls, mname):
                return self._unknown_bool(st, ("cmp", opn, a.sym, b.sym))
        if not (isinstance(a, KNOWN_KINDS) and isinstance(b, KNOWN_KINDS)):
            self.undecided(st, node, "ordering between {} and {}".format(a.kind, b.kind))
            return self._unknown_bool(st, ("cmp", opn, getattr(a, "sym", None), getattr(b, "sym", None)))
        return [(st, self.raised("type-mismatch", "TypeError", node,
                                 "ordering between {} and {}".format(a.kind, b.kind)))]

    def _unknown_bool(self, st, sym):
        # the same test already decided on this path keeps its outcome
        for c, t in reversed(st.conds):
            if c == sym:
                return [(st, t)]
        s2 = st.fork()
        self.tick()
        st.conds.append((sym, True))
        s2.conds.append((sym, False))
        return [(st, True), (s2, False)]

    def _lex_cmp(self, st, opn, xs, ys):
        if not xs or not ys:
            la, lb = len(xs), len(ys)
            return [(st, {"Lt": la < lb, "LtE": la <= lb, "Gt": la > lb, "GtE": la >= lb}[opn])]
        x0, y0 = xs[0], ys[0]
        out = []
        for s, lt in self.int_cmp(st, "Lt", x0, None, y0, None):
            if lt:
                out.append((s, opn in ("Lt", "LtE")))
                continue
            for s2, le in self.int_cmp(s, "LtE", x0, None, y0, None):
                if le:      # not <, and <=: equal heads
                    out.extend(self._lex_cmp(s2, opn, xs[1:], ys[1:]))
                else:
                    out.append((s2, opn in ("Gt", "GtE")))
        return out

    def int_cmp(self, st, opn, a, anode, b, bnode, record=True):
        # normalise to a < b or a <= b
        if opn in ("Gt", "GtE"):
            res = self.int_cmp(st, {"Gt": "Lt", "GtE": "LtE"}[opn], b, bnode, a, anode, record=False)
            if record:
                for s, t in res:
                    s.conds.append((("cmp", opn, a.sym, b.sym), t))
            return res
        strict = opn == "Lt"
        # definitely true?
        if (a.hi < b.lo) or (not strict and a.hi <= b.lo):
            res = [(st, True)]
        elif (a.lo >= b.hi and strict) or (a.lo > b.hi):
            res = [(st, False)]
        else:
            s2 = st.fork()
            self.tick()
            sa, sb = self.slot_of(anode, st), self.slot_of(bnode, st)
            # true branch on st
            st.rels.append((sa, opn, sb, a.sym, b.sym))
            self._apply_rel(st, sa, opn, sb, a, b)
            # false branch: a >= b (strict) or a > b
            nopn = "LtE" if strict else "Lt"
            s2.rels.append((sb, nopn, sa, b.sym, a.sym))
            self._apply_rel(s2, sb, nopn, sa, b, a)
            self.propagate(st)
            self.propagate(s2)
            res = [(st, True), (s2, False)]
        if record:
            for s, t in res:
                s.conds.append((("cmp", opn, a.sym, b.sym), t))
        return res

    def _apply_rel(self, st, sa, opn, sb, a=None, b=None):
        """Refine slots for a (< or <=) b.  Returns True if something changed."""
        va = self.read_slot(st, sa) if sa is not None else a
        vb = self.read_slot(st, sb) if sb is not None else b
        if not isinstance(va, IntV) or not isinstance(vb, IntV):
            return False
        d = 1 if opn == "Lt" else 0
        changed = False
        nhi = min(va.hi, vb.hi - d)
        nlo = max(vb.lo, va.lo + d)
        if sa is not None and nhi < va.hi:
            self.write_slot(st, sa, IntV(va.lo, nhi, va.sym))
            changed = True
        if sb is not None and nlo > vb.lo:
            self.write_slot(st, sb, IntV(nlo, vb.hi, vb.sym))
            changed = True
        return changed

    def propagate(self, st):
        for _ in range(8):
            ch = False
            for sa, opn, sb, asym, bsym in st.rels:
                if sa is None and sb is None:
                    continue
                try:
                    if self._apply_rel_stored(st, sa, opn, sb):
                        ch = True
                except KeyError:
                    continue
            if not ch:
                break

    def _apply_rel_stored(self, st, sa, opn, sb):
        # only atoms whose both sides are slots or whose constant side is recoverable
        if sa is None or sb is None:
            return False
        return self._apply_rel(st, sa, opn, sb)

    def equals(self, st, a, anode, b, bnode, node):
        if isinstance(a, IntV) and isinstance(b, IntV):
            if a.is_const() and b.is_const():
                return [(st, a.lo == b.lo)]
            if a.hi < b.lo or b.hi < a.lo:
                return [(st, False)]
            s2 = st.fork()
            self.tick()
            lo, hi = max(a.lo, b.lo), min(a.hi, b.hi)
            sa, sb = self.slot_of(anode, st), self.slot_of(bnode, st)
            if sa is not None:
                self.write_slot(st, sa, IntV(lo, hi, a.sym))
            if sb is not None:
                self.write_slot(st, sb, IntV(lo, hi, b.sym))
            st.rels.append((sa, "LtE", sb, a.sym, b.sym))
            st.rels.append((sb, "LtE", sa, b.sym, a.sym))
            # false branch: trim when the other side is a constant end point
            if b.is_const() and sa is not None:
                if a.lo == b.lo:
                    self.write_slot(s2, sa, IntV(a.lo + 1, a.hi, a.sym))
                elif a.hi == b.lo:
                    self.write_slot(s2, sa, IntV(a.lo, a.hi - 1, a.sym))
            if a.is_const() and sb is not None:
                if b.lo == a.lo:
                    self.write_slot(s2, sb, IntV(b.lo + 1, b.hi, b.sym))
                elif b.hi == a.lo:
                    self.write_slot(s2, sb, IntV(b.lo, b.hi - 1, b.sym))
            st.conds.append((("cmp", "Eq", a.sym, b.sym), True))
            s2.conds.append((("cmp", "Eq", a.sym, b.sym), False))
            self.propagate(st)
            return [(st, True), (s2, False)]
        if isinstance(a, NoneV) or isinstance(b, NoneV):
            return [(st, isinstance(a, NoneV) and isinstance(b, NoneV))]
        if isinstance(a, StrV) and isinstance(b, StrV):
            if a.vals is not None and b.vals is not None:
                if a.is_const() and b.is_const():
                    return [(st, a.const() == b.const())]
                common = a.vals & b.vals
                if not common:
                    return [(st, False)]
                if b.is_const():
                    s2 = st.fork()
                    self.tick()
                    self._refine_expr(st, anode, StrV(common, sym=a.sym))
                    self._refine_expr(s2, anode, StrV(a.vals - common, sym=a.sym))
                    return [(st, True), (s2, False)]
                if a.is_const():
                    s2 = st.fork()
                    self.tick()
                    self._refine_expr(st, bnode, StrV(common, sym=b.sym))
                    self._refine_expr(s2, bnode, StrV(b.vals - common, sym=b.sym))
                    return [(st, True), (s2, False)]
            return self._unknown_bool(st, ("cmp", "Eq", a.sym, b.sym))
        if isinstance(a, EnumV) and isinstance(b, EnumV):
            if a.cls != b.cls:
                return [(st, False)]
            common = a.names & b.names
            if not common:
                return [(st, False)]
            if len(a.names) == 1 and len(b.names) == 1:
                return [(st, True)]
            s2 = st.fork()
            self.tick()
            if len(b.names) == 1:
                self._refine_expr(st, anode, EnumV(a.cls, common))
                self._refine_expr(s2, anode, EnumV(a.cls, a.names - common))
            elif len(a.names) == 1:
                self._refine_expr(st, bnode, EnumV(b.cls, common))
                self._refine_expr(s2, bnode, EnumV(b.cls, b.names - common))
            return [(st, True), (s2, False)]
        if isinstance(a, BoolV) and isinstance(b, BoolV) and a.value is not None and b.value is not None:
            return [(st, a.value == b.value)]
        if isinstance(a, (ExtV, ClassV)) and isinstance(b, (ExtV, ClassV)):
            na = a.name
            nb = b.name
            return [(st, na == nb and type(a) is type(b))]
        if isinstance(a, RefV) and isinstance(b, RefV):
            if a.oid == b.oid:
                return [(st, True)]
            return self._unknown_bool(st, ("cmp", "Eq", a.sym, b.sym))
        if (isinstance(a, (DTV, DateV, TDV)) and isinstance(b, (DTV, DateV, TDV))):
            return self._unknown_bool(st, ("cmp", "Eq", a.sym, b.sym))
        if isinstance(a, TopV) or isinstance(b, TopV):
            return self._unknown_bool(st, ("cmp", "Eq", getattr(a, "sym", None),
                                           getattr(b, "sym", None)))
        if isinstance(a, TupleV) and isinstance(b, TupleV):
            if getattr(a, "is_list", False) != getattr(b, "is_list", False):
                return [(st, False)]        # a list never equals a tuple
            if len(a.items) != len(b.items):
                return [(st, False)]
            if len(a.items) <= 12:
                # element by element, left to right
                out = []
                pending = [st]
                for x, y in zip(a.items, b.items):
                    nxt = []
                    for s in pending:
                        for s2, t in self.equals(s, x, None, y, None, node):
                            if isinstance(t, Raised):
                                out.append((s2, t))
                            elif t:
                                nxt.append(s2)
                            else:
                                out.append((s2, False))
                    pending = nxt
                out.extend((s, True) for s in pending)
                return out
            return self._unknown_bool(st, ("cmp", "Eq", a.sym, b.sym))
        if a.kind != b.kind:
            if {a.kind, b.kind} <= {"int", "float", "bool"}:
                return self._unknown_bool(st, ("cmp", "Eq", a.sym, b.sym))
            return [(st, False)]
        return self._unknown_bool(st, ("cmp", "Eq", getattr(a, "sym", None), getattr(b, "sym", None)))

    def contains(self, st, a, anode, b, bnode, node):
        """a in b"""
        if isinstance(b, NoneV):
            return [(st, self.raised("none-operand", "TypeError", node,
                                     "'in' with None container"))]
        if isinstance(b, StrV):
            if not isinstance(a, StrV):
                if isinstance(a, NoneV):
                    return [(st, self.raised("none-operand", "TypeError", node, "None in str"))]
                return self._unknown_bool(st, ("in", getattr(a, "sym", None), b.sym))
            if a.is_const() and b.vals is not None:
                t = [x for x in b.vals if a.const() in x]
                f = [x for x in b.vals if a.const() not in x]
                if t and f:
                    s2 = st.fork()
                    self.tick()
                    self._refine_expr(st, bnode, StrV(t, sym=b.sym))
                    self._refine_expr(s2, bnode, StrV(f, sym=b.sym))
                    return [(st, True), (s2, False)]
                return [(st, bool(t))]
            return self._unknown_bool(st, ("in", a.sym, b.sym))
        if isinstance(b, PyV) and isinstance(b.value, (dict, set, frozenset, list, tuple)):
            cont = b.value
            if isinstance(a, StrV) and a.vals is not None:
                t = [x for x in a.vals if x in cont]
                f = [x for x in a.vals if x not in cont]
                if t and f:
                    s2 = st.fork()
                    self.tick()
                    self._refine_expr(st, anode, StrV(t, sym=a.sym))
                    self._refine_expr(s2, anode, StrV(f, sym=a.sym))
                    return [(st, True), (s2, False)]
                return [(st, bool(t))]
            if isinstance(a, StrV):
                # unconstrained string: the true branch is constrained to the keys
                keys = [k for k in cont if isinstance(k, str)]
                s2 = st.fork()
                self.tick()
                self._refine_expr(st, anode, StrV(keys, sym=a.sym))
                return [(st, True), (s2, False)]
            if isinstance(a, IntV) and a.is_const():
                return [(st, a.lo in cont)]
            if isinstance(a, EnumV):
                t = {nm for nm in a.names if e1.EnumVal(a.cls, nm, None) in cont}
                return self._enum_split(st, a, anode, t)
            return self._unknown_bool(st, ("in", getattr(a, "sym", None), b.sym))
        if isinstance(b, TupleV):
            if isinstance(a, EnumV) and all(isinstance(x, EnumV) and len(x.names) == 1
                                            for x in b.items):
                members = set()
                for x in b.items:
                    if x.cls == a.cls:
                        members |= x.names
                return self._enum_split(st, a, anode, a.names & members)
            if isinstance(a, StrV) and a.vals is not None and all(
                    isinstance(x, StrV) and x.is_const() for x in b.items):
                cont = {x.const() for x in b.items}
                t = [x for x in a.vals if x in cont]
                f = [x for x in a.vals if x not in cont]
                if t and f:
                    s2 = st.fork()
                    self.tick()
                    self._refine_expr(st, anode, StrV(t, sym=a.sym))
                    self._refine_expr(s2, anode, StrV(f, sym=a.sym))
                    return [(st, True), (s2, False)]
                return [(st, bool(t))]
            if isinstance(a, IntV) and a.is_const() and all(
                    isinstance(x, IntV) and x.is_const() for x in b.items):
                return [(st, a.lo in {x.lo for x in b.items})]
            if len(b.items) <= 8:
                # a == b[0] or a == b[1] or ... , left to right
                out = []
                pending = [st]
                for x in b.items:
                    nxt = []
                    for s in pending:
                        for s2, t in self.equals(s, a, anode, x, None, node):
                            if isinstance(t, Raised) or t:
                                out.append((s2, t))
                            else:
                                nxt.append(s2)
                    pending = nxt
                out.extend((s, False) for s in pending)
                return out
            return self._unknown_bool(st, ("in", getattr(a, "sym", None), b.sym))
        if isinstance(b, DictV):
            return self._unknown_bool(st, ("in", getattr(a, "sym", None), b.sym))
        return self._unknown_bool(st, ("in", getattr(a, "sym", None), getattr(b, "sym", None)))

    def _enum_split(self, st, a, anode, t):
        f = a.names - t
        if t and f:
            s2 = st.fork()
            self.tick()
            self._refine_expr(st, anode, EnumV(a.cls, t))
            self._refine_expr(s2, anode, EnumV(a.cls, f))
            return [(st, True), (s2, False)]
        return [(st, bool(t))]


_JOIN_COUNTER = [0]


def join_vals(vals):
    """Least upper bound of definite values for storage (may yield UnionV)."""
    vals = [v for v in vals if v is not None]
    if not vals:
        return TopV("empty join")
    groups = {}
    for v in vals:
        groups.setdefault(v.kind, []).append(v)
    alts = []
    for k, vs in groups.items():
        if k == "int":
            lo, hi = min(x.lo for x in vs), max(x.hi for x in vs)
            if all(x.sym == vs[0].sym for x in vs):
                sym = vs[0].sym
            else:
                _JOIN_COUNTER[0] += 1
                sym = ("unk", lo, hi, _JOIN_COUNTER[0])
            alts.append(IntV(lo, hi, sym))
        elif k == "none":
            alts.append(NONE)
        elif k == "str":
            if any(x.vals is None for x in vs):
                alts.append(StrV(None, sym=("join",), nonempty=all(x.nonempty for x in vs)))
            else:
                u = set()
                for x in vs:
                    u |= x.vals
                sym = vs[0].sym if all(x.sym == vs[0].sym for x in vs) else ("join",)
                alts.append(StrV(u, sym=sym))
        elif k == "enum":
            u = set()
            for x in vs:
                u |= x.names
            alts.append(EnumV(vs[0].cls, u))
        elif k == "tuple":
            if all(len(x.items) == len(vs[0].items) for x in vs):
                items = [join_vals([x.items[i] for x in vs]) for i in range(len(vs[0].items))]
                alts.append(TupleV(items, vs[0].is_list))
            else:
                alts.append(TopV("tuple join"))
        elif k == "bool":
            vv = {x.value for x in vs}
            alts.append(BoolV(vv.pop() if len(vv) == 1 else None, sym=("join",)))
        else:
            alts.append(vs[0] if len(vs) == 1 else vs[0])
    if len(alts) == 1:
        return alts[0]
    return UnionV(alts)
