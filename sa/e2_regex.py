"""E2 — regular-expression syntax-tree analyses.

Patterns are parsed with the parser of the `regex` package the repository itself
depends on (regex._regex_core._parse_pattern).  No pattern is ever compiled or
matched against text by the regex engine; every analysis below is a structural
recursion over the parse tree, or an automaton built from it by this module.
"""
import unicodedata

from .core import AnalysisError, Undecided

try:
    import regex as _regex_pkg
    import regex._regex_core as rc
except Exception as _e:  # pragma: no cover
    rc = None
    _import_error = _e

INF = float("inf")

_GC_GROUPS = {
    "LETTER": ("Lu", "Ll", "Lt", "Lm", "Lo"),
    "CASEDLETTER": ("Lu", "Ll", "Lt"),
    "COMBININGMARK": ("Mn", "Mc", "Me"),
    "NUMBER": ("Nd", "Nl", "No"),
    "PUNCTUATION": ("Pc", "Pd", "Ps", "Pe", "Pi", "Pf", "Po"),
    "SYMBOL": ("Sm", "Sc", "Sk", "So"),
    "SEPARATOR": ("Zs", "Zl", "Zp"),
    "OTHER": ("Cc", "Cf", "Cs", "Co", "Cn"),
    "ASSIGNED": None,
}
_GC_LEAF = {
    "UNASSIGNED": "Cn", "CONTROL": "Cc", "SPACESEPARATOR": "Zs", "OTHERPUNCTUATION": "Po",
    "CURRENCYSYMBOL": "Sc", "OPENPUNCTUATION": "Ps", "CLOSEPUNCTUATION": "Pe",
    "MATHSYMBOL": "Sm", "DASHPUNCTUATION": "Pd", "DECIMALNUMBER": "Nd",
    "UPPERCASELETTER": "Lu", "MODIFIERSYMBOL": "Sk", "CONNECTORPUNCTUATION": "Pc",
    "LOWERCASELETTER": "Ll", "OTHERSYMBOL": "So", "OTHERLETTER": "Lo",
    "INITIALPUNCTUATION": "Pi", "FORMAT": "Cf", "OTHERNUMBER": "No",
    "FINALPUNCTUATION": "Pf", "TITLECASELETTER": "Lt", "MODIFIERLETTER": "Lm",
    "NONSPACINGMARK": "Mn", "ENCLOSINGMARK": "Me", "SPACINGMARK": "Mc",
    "LETTERNUMBER": "Nl", "LINESEPARATOR": "Zl", "PARAGRAPHSEPARATOR": "Zp",
    "SURROGATE": "Cs", "PRIVATEUSE": "Co",
}
ALL_GC = sorted(set(_GC_LEAF.values()))

# White_Space property (Unicode) — 25 code points
WHITESPACE = frozenset(
    [0x9, 0xA, 0xB, 0xC, 0xD, 0x20, 0x85, 0xA0, 0x1680] + list(range(0x2000, 0x200B))
    + [0x2028, 0x2029, 0x202F, 0x205F, 0x3000])


def _is_word(cp):
    ch = chr(cp)
    cat = unicodedata.category(ch)
    return ch == "_" or cat[0] in "LN" or cat in ("Mn", "Mc", "Me", "Pc") or cp in (0x200C, 0x200D)


# ---------------------------------------------------------------------------
# IR


class Node:
    kind = "?"

    def children(self):
        return []


class Seq(Node):
    kind = "seq"

    def __init__(self, items):
        self.items = items

    def children(self):
        return self.items


class Alt(Node):
    kind = "alt"

    def __init__(self, items):
        self.items = items

    def children(self):
        return self.items


class Group(Node):
    kind = "group"

    def __init__(self, idx, name, child):
        self.idx = idx
        self.name = name
        self.child = child

    def children(self):
        return [self.child]


class Call(Node):
    kind = "call"

    def __init__(self, idx):
        self.idx = idx


class Rep(Node):
    kind = "rep"

    def __init__(self, lo, hi, child, mode):
        self.lo = lo
        self.hi = hi  # None = unbounded
        self.child = child
        self.mode = mode

    def children(self):
        return [self.child]


class Look(Node):
    kind = "look"

    def __init__(self, behind, positive, child):
        self.behind = behind
        self.positive = positive
        self.child = child

    def children(self):
        return [self.child]


class Bound(Node):
    kind = "bound"

    def __init__(self, what, positive=True):
        self.what = what   # 'word' | 'sow' | 'eow' | 'sos' | 'eos' | 'sol' | 'eol'
        self.positive = positive


class Cond(Node):
    kind = "cond"

    def __init__(self, group, yes, no):
        self.group = group
        self.yes = yes
        self.no = no

    def children(self):
        return [self.yes, self.no]


class Atomic(Node):
    kind = "atomic"

    def __init__(self, child):
        self.child = child

    def children(self):
        return [self.child]


class Char(Node):
    """One character position described by a CharSet."""
    kind = "char"

    def __init__(self, cs):
        self.cs = cs


class CharSet:
    """Set of code points as a predicate tree."""

    def __init__(self, op, args, positive=True, icase=False):
        self.op = op          # 'lit' | 'range' | 'prop' | 'union' | 'inter' | 'diff' | 'symdiff' | 'any'
        self.args = args
        self.positive = positive
        self.icase = icase

    def _raw(self, cp):
        op = self.op
        if op == "lit":
            return cp == self.args[0]
        if op == "range":
            return self.args[0] <= cp <= self.args[1]
        if op == "any":
            return True if self.args[0] == "all" else cp != 0x0A
        if op == "prop":
            return _prop_match(self.args[0], self.args[1], cp)
        if op == "union":
            return any(a.contains(cp) for a in self.args)
        if op == "inter":
            return all(a.contains(cp) for a in self.args)
        if op == "diff":
            return self.args[0].contains(cp) and not any(a.contains(cp) for a in self.args[1:])
        if op == "symdiff":
            r = False
            for a in self.args:
                r ^= a.contains(cp)
            return r
        raise Undecided("charset op " + op)

    def contains(self, cp):
        r = self._raw(cp)
        if not r and self.icase:
            for alt in _case_variants(cp):
                if self._raw(alt):
                    r = True
                    break
        return r if self.positive else not r

    def describe(self):
        if self.op == "lit":
            s = repr(chr(self.args[0]))
        elif self.op == "range":
            s = "[{}-{}]".format(chr(self.args[0]), chr(self.args[1]))
        elif self.op == "prop":
            s = "\\p{{{}:{}}}".format(self.args[0], self.args[1])
        elif self.op == "any":
            s = "."
        else:
            s = "{}({})".format(self.op, ",".join(a.describe() for a in self.args))
        return s if self.positive else "not " + s

    def leaves(self):
        if self.op in ("lit", "range", "prop", "any"):
            yield self
        else:
            for a in self.args:
                for x in a.leaves():
                    yield x


def _case_variants(cp):
    ch = chr(cp)
    out = set()
    for f in (ch.lower(), ch.upper(), ch.casefold(), ch.title()):
        if len(f) == 1:
            out.add(ord(f))
    # characters folding to the same thing (e.g. 'K' KELVIN, 'ſ')
    extra = {0x212A: [0x4B, 0x6B], 0x4B: [0x212A], 0x6B: [0x212A], 0x17F: [0x53, 0x73],
             0x53: [0x17F], 0x73: [0x17F], 0x1E9E: [0xDF], 0xDF: [0x1E9E]}
    out.update(extra.get(cp, []))
    out.discard(cp)
    return out


def _prop_match(pname, vname, cp):
    ch = chr(cp)
    if pname == "GENERALCATEGORY":
        cat = unicodedata.category(ch)
        if vname in _GC_LEAF:
            return cat == _GC_LEAF[vname]
        if vname == "ASSIGNED":
            return cat != "Cn"
        if vname in _GC_GROUPS:
            return cat in _GC_GROUPS[vname]
        raise Undecided("general category " + vname)
    if pname == "WHITESPACE":
        return (cp in WHITESPACE) == (vname in ("TRUE", "YES", "Y", "T"))
    if pname == "WORD":
        return _is_word(cp) == (vname in ("TRUE", "YES", "Y", "T"))
    if pname == "ALPHABETIC":
        return ch.isalpha() == (vname in ("TRUE", "YES", "Y", "T"))
    if pname == "ALPHANUMERIC" or pname == "ALNUM":
        return ch.isalnum() == (vname in ("TRUE", "YES", "Y", "T"))
    if pname == "DIGIT":
        return (unicodedata.category(ch) == "Nd") == (vname in ("TRUE", "YES", "Y", "T"))
    raise Undecided("unicode property " + pname)


# ---------------------------------------------------------------------------
# parsing


class Parsed:
    def __init__(self, text, root, groups, nodes_by_idx, flags):
        self.text = text
        self.root = root
        self.groups = groups            # name -> idx
        self.by_idx = nodes_by_idx      # idx -> Group node
        self.flags = flags
        self.names = {v: k for k, v in groups.items()}

    def group(self, name):
        idx = self.groups.get(name)
        if idx is None:
            return None
        return self.by_idx.get(idx)


def parse(text, version1=True, ignorecase=False):
    if rc is None:
        raise AnalysisError("regex._regex_core not importable: {}".format(_import_error))
    if not hasattr(rc, "_parse_pattern"):
        raise AnalysisError("regex._regex_core._parse_pattern missing")
    flags = (_regex_pkg.VERSION1 if version1 else _regex_pkg.VERSION0)
    if ignorecase:
        flags |= _regex_pkg.IGNORECASE
    gf = flags
    for _ in range(4):
        try:
            src = rc.Source(text)
            info = rc.Info(gf, src.char_type, {})
            info.guess_encoding = _regex_pkg.UNICODE
            src.ignore_space = bool(info.flags & _regex_pkg.VERBOSE)
            parsed = rc._parse_pattern(src, info)
            break
        except rc._UnscopedFlagSet:
            gf = info.global_flags
        except rc.error as e:
            raise AnalysisError("pattern does not parse: {!r}: {}".format(text[:80], e))
    else:
        raise AnalysisError("cannot resolve global flags of pattern")
    if not src.at_end():
        raise AnalysisError("unbalanced parenthesis in pattern {!r}".format(text[:80]))
    try:
        parsed.fix_groups(text, False, False)
    except rc.error as e:
        raise AnalysisError("pattern group error: {!r}: {}".format(text[:80], e))
    by_idx = {}
    names = {}
    for k, v in info.group_index.items():
        names[v] = k
    root = _conv(parsed, by_idx, names)
    return Parsed(text, root, dict(info.group_index), by_idx, info.flags)


def _cs_flags(n):
    cf = getattr(n, "case_flags", 0) or 0
    return bool(cf & _regex_pkg.IGNORECASE)


def _conv_set(n):
    T = type(n).__name__
    ic = _cs_flags(n)
    pos = getattr(n, "positive", True)
    if T == "Character":
        return CharSet("lit", (n.value,), pos, ic)
    if T == "Range":
        return CharSet("range", (n.lower, n.upper), pos, ic)
    if T == "Property":
        pid = n.value >> 16
        vid = n.value & 0xFFFF
        pn = rc.PROPERTY_NAMES.get(pid)
        if pn is None:
            raise Undecided("unknown property id {}".format(pid))
        return CharSet("prop", (pn[0], pn[1].get(vid, str(vid))), pos, ic)
    if T in ("SetUnion", "SetInter", "SetDiff", "SetSymDiff"):
        op = {"SetUnion": "union", "SetInter": "inter", "SetDiff": "diff",
              "SetSymDiff": "symdiff"}[T]
        return CharSet(op, [_conv_set(i) for i in n.items], pos, ic)
    if T in ("Any", "AnyU"):
        return CharSet("any", ("nonl",), True, False)
    if T == "AnyAll":
        return CharSet("any", ("all",), True, False)
    raise Undecided("set member " + T)


def _conv(n, by_idx, names):
    T = type(n).__name__
    if T == "Sequence":
        items = [_conv(i, by_idx, names) for i in n.items]
        flat = []
        for it in items:
            if isinstance(it, Seq):
                flat.extend(it.items)
            else:
                flat.append(it)
        if len(flat) == 1:
            return flat[0]
        return Seq(flat)
    if T == "Branch":
        return Alt([_conv(b, by_idx, names) for b in n.branches])
    if T == "Group":
        g = Group(n.group, names.get(n.group), None)
        by_idx[n.group] = g
        g.child = _conv(n.subpattern, by_idx, names)
        return g
    if T == "CallGroup":
        return Call(n.group)
    if T in ("GreedyRepeat", "LazyRepeat", "PossessiveRepeat"):
        mode = {"GreedyRepeat": "greedy", "LazyRepeat": "lazy", "PossessiveRepeat": "poss"}[T]
        return Rep(n.min_count, n.max_count, _conv(n.subpattern, by_idx, names), mode)
    if T in ("Character", "Range", "Property", "SetUnion", "SetInter", "SetDiff",
             "SetSymDiff", "Any", "AnyAll", "AnyU"):
        if getattr(n, "zerowidth", False):
            raise Undecided("zero-width character node")
        return Char(_conv_set(n))
    if T in ("String", "Literal"):
        ic = _cs_flags(n)
        return Seq([Char(CharSet("lit", (c,), True, ic)) for c in n.characters])
    if T == "LookAround":
        return Look(n.behind, n.positive, _conv(n.subpattern, by_idx, names))
    if T == "Conditional":
        return Cond(n.group, _conv(n.yes_item, by_idx, names), _conv(n.no_item, by_idx, names))
    if T == "Atomic":
        return Atomic(_conv(n.subpattern, by_idx, names))
    if T in ("Boundary", "DefaultBoundary"):
        return Bound("word", n.positive)
    if T in ("StartOfWord", "DefaultStartOfWord"):
        return Bound("sow")
    if T in ("EndOfWord", "DefaultEndOfWord"):
        return Bound("eow")
    if T == "StartOfString":
        return Bound("sos")
    if T in ("EndOfString", "EndOfStringLine", "EndOfStringLineU"):
        return Bound("eos")
    if T in ("StartOfLine", "StartOfLineU"):
        return Bound("sol")
    if T in ("EndOfLine", "EndOfLineU"):
        return Bound("eol")
    raise Undecided("regex construct " + T)


# ---------------------------------------------------------------------------
# structural analyses


def walk(node):
    yield node
    for c in node.children():
        for x in walk(c):
            yield x


def minwidth(node, P, _depth=0):
    if _depth > 50:
        raise Undecided("recursive group call")
    k = node.kind
    if k == "seq":
        return sum(minwidth(c, P, _depth) for c in node.items)
    if k == "alt":
        return min(minwidth(c, P, _depth) for c in node.items)
    if k in ("group", "atomic"):
        return minwidth(node.child, P, _depth)
    if k == "call":
        return minwidth(P.by_idx[node.idx].child, P, _depth + 1)
    if k == "rep":
        return node.lo * minwidth(node.child, P, _depth)
    if k == "char":
        return 1
    if k in ("look", "bound"):
        return 0
    if k == "cond":
        if node.group == 0:   # (?(DEFINE)...) never matches its body
            return minwidth(node.no, P, _depth)
        return min(minwidth(node.yes, P, _depth), minwidth(node.no, P, _depth))
    raise Undecided("minwidth of " + k)


def maxwidth(node, P, _depth=0):
    if _depth > 50:
        raise Undecided("recursive group call")
    k = node.kind
    if k == "seq":
        return sum(maxwidth(c, P, _depth) for c in node.items)
    if k == "alt":
        return max(maxwidth(c, P, _depth) for c in node.items)
    if k in ("group", "atomic"):
        return maxwidth(node.child, P, _depth)
    if k == "call":
        return maxwidth(P.by_idx[node.idx].child, P, _depth + 1)
    if k == "rep":
        if node.hi is None:
            return INF if maxwidth(node.child, P, _depth) > 0 else 0
        return node.hi * maxwidth(node.child, P, _depth)
    if k == "char":
        return 1
    if k in ("look", "bound"):
        return 0
    if k == "cond":
        if node.group == 0:
            return maxwidth(node.no, P, _depth)
        return max(maxwidth(node.yes, P, _depth), maxwidth(node.no, P, _depth))
    raise Undecided("maxwidth of " + k)


def nullable(node, P):
    return minwidth(node, P) == 0


def edge_sets(node, P, last, _depth=0):
    """CharSets that can be the last (or first) consumed character of a match of node.

    Returns (sets, can_be_empty)."""
    if _depth > 50:
        raise Undecided("recursive group call")
    k = node.kind
    if k == "char":
        return [node.cs], False
    if k in ("look", "bound"):
        return [], True
    if k in ("group", "atomic"):
        return edge_sets(node.child, P, last, _depth)
    if k == "call":
        return edge_sets(P.by_idx[node.idx].child, P, last, _depth + 1)
    if k == "alt":
        out, emp = [], False
        for c in node.items:
            s, e = edge_sets(c, P, last, _depth)
            out.extend(s)
            emp = emp or e
        return out, emp
    if k == "rep":
        s, e = edge_sets(node.child, P, last, _depth)
        if node.hi == 0:
            return [], True
        return s, e or node.lo == 0
    if k == "cond":
        if node.group == 0:
            return edge_sets(node.no, P, last, _depth)
        s1, e1 = edge_sets(node.yes, P, last, _depth)
        s2, e2 = edge_sets(node.no, P, last, _depth)
        return s1 + s2, e1 or e2
    if k == "seq":
        items = list(reversed(node.items)) if last else node.items
        out = []
        for c in items:
            s, e = edge_sets(c, P, last, _depth)
            out.extend(s)
            if not e:
                return out, False
        return out, True
    raise Undecided("edge set of " + k)


def can_edge_match(node, P, last, cps):
    sets, _ = edge_sets(node, P, last)
    hit = []
    for cs in sets:
        for cp in cps:
            if cs.contains(cp):
                hit.append((cs.describe(), cp))
                break
    return hit


def group_configs(node, P, limit=20000):
    """Possible sets of *named* groups that participate with a possibly non-empty
    capture in one match of node.  Returns a set of frozensets.  Group calls do not
    set the called group's capture in the caller (regex semantics: captures made
    inside a call are reverted), so Call contributes nothing."""

    def rec(n):
        k = n.kind
        if k in ("char", "look", "bound", "call"):
            return {frozenset()}
        if k == "group":
            inner = rec(n.child)
            if n.name is not None and not n.name.startswith("_"):
                return {c | {n.name} for c in inner}
            return inner
        if k == "atomic":
            return rec(n.child)
        if k == "alt":
            out = set()
            for c in n.items:
                out |= rec(c)
            _lim(out)
            return out
        if k == "seq":
            out = {frozenset()}
            for c in n.items:
                sub = rec(c)
                if sub == {frozenset()}:
                    continue
                out = {a | b for a in out for b in sub}
                _lim(out)
            return out
        if k == "rep":
            sub = rec(n.child)
            out = set()
            if n.lo == 0:
                out.add(frozenset())
            if n.hi is None or n.hi >= 1:
                out |= sub
                if (n.hi is None or n.hi >= 2) and sub != {frozenset()}:
                    # repeated groups: any union of configurations
                    acc = set(sub)
                    for _ in range(3):
                        acc |= {a | b for a in acc for b in sub}
                        _lim(acc)
                    out |= acc
            return out
        if k == "cond":
            if n.group == 0:
                return rec(n.no)
            return rec(n.yes) | rec(n.no)
        raise Undecided("group configs of " + k)

    def _lim(s):
        if len(s) > limit:
            raise Undecided("too many group configurations")

    return rec(node)


def enumerate_language(node, P, limit=10000, _depth=0):
    """Finite language of node as a set of strings over representative characters,
    or None when infinite / too large.  Case-insensitive literals are enumerated in
    their written form only (callers use this for digit groups)."""
    if _depth > 50:
        raise Undecided("recursive group call")
    k = node.kind
    if k == "char":
        cs = node.cs
        vals = _finite_members(cs)
        if vals is None:
            return None
        return {chr(c) for c in vals}
    if k in ("look", "bound"):
        return {""}
    if k in ("group", "atomic"):
        return enumerate_language(node.child, P, limit, _depth)
    if k == "call":
        return enumerate_language(P.by_idx[node.idx].child, P, limit, _depth + 1)
    if k == "alt":
        out = set()
        for c in node.items:
            s = enumerate_language(c, P, limit, _depth)
            if s is None:
                return None
            out |= s
            if len(out) > limit:
                return None
        return out
    if k == "seq":
        out = {""}
        for c in node.items:
            s = enumerate_language(c, P, limit, _depth)
            if s is None:
                return None
            out = {a + b for a in out for b in s}
            if len(out) > limit:
                return None
        return out
    if k == "rep":
        if node.hi is None:
            s = enumerate_language(node.child, P, limit, _depth)
            if s == {""}:
                return {""}
            return None
        s = enumerate_language(node.child, P, limit, _depth)
        if s is None:
            return None
        out = set()
        cur = {""}
        for i in range(0, node.hi + 1):
            if i >= node.lo:
                out |= cur
            cur = {a + b for a in cur for b in s}
            if len(cur) > limit or len(out) > limit:
                return None
        return out
    if k == "cond":
        if node.group == 0:
            return enumerate_language(node.no, P, limit, _depth)
        a = enumerate_language(node.yes, P, limit, _depth)
        b = enumerate_language(node.no, P, limit, _depth)
        if a is None or b is None:
            return None
        return a | b
    raise Undecided("language of " + k)


def _finite_members(cs):
    """Members of a charset if it is a finite explicit set (no properties)."""
    if not cs.positive:
        return None
    if cs.op == "lit":
        return {cs.args[0]}
    if cs.op == "range":
        if cs.args[1] - cs.args[0] > 200:
            return None
        return set(range(cs.args[0], cs.args[1] + 1))
    if cs.op == "prop":
        if cs.args == ("GENERALCATEGORY", "DECIMALNUMBER"):
            # \d: every Nd digit maps to 0-9 under int(); represent by ASCII digits
            return set(range(0x30, 0x3A))
        return None
    if cs.op == "union":
        out = set()
        for a in cs.args:
            m = _finite_members(a)
            if m is None:
                return None
            out |= m
        return out
    return None


def digits_only(node, P, _depth=0):
    """True if every character position of node is a subset of Unicode decimal digits."""
    for n in walk(node):
        if n.kind == "call":
            if _depth > 20 or not digits_only(P.by_idx[n.idx].child, P, _depth + 1):
                return False
        if n.kind == "char":
            if not _subset_of_digits(n.cs):
                return False
        if n.kind in ("look", "cond"):
            return False
    return True


def _subset_of_digits(cs):
    if not cs.positive:
        return False
    if cs.op == "lit":
        return unicodedata.category(chr(cs.args[0])) == "Nd" and not cs.icase or \
            unicodedata.category(chr(cs.args[0])) == "Nd"
    if cs.op == "range":
        return all(unicodedata.category(chr(c)) == "Nd" for c in range(cs.args[0], cs.args[1] + 1)) \
            if cs.args[1] - cs.args[0] < 100 else False
    if cs.op == "prop":
        return cs.args == ("GENERALCATEGORY", "DECIMALNUMBER")
    if cs.op == "union":
        return all(_subset_of_digits(a) for a in cs.args)
    return False


def int_range_of_group(P, name):
    """Numeric range of int(group) — (lo, hi) with hi possibly INF; None if the
    group is not digits-only."""
    g = P.group(name)
    if g is None:
        return None
    if not digits_only(g.child, P):
        return None
    lang = enumerate_language(g.child, P)
    if lang is None:
        return (0, INF)
    vals = [int(s) for s in lang if s != ""]
    if not vals:
        return None
    return (min(vals), max(vals))


def cased_atoms_without_icase(node, P):
    """Character atoms that can match a cased letter but are not case-insensitive."""
    bad = []
    # a called group, (?&name), matches with the flags in force where it was *defined*: follow
    # the calls into the definitions (e.g. the (?(DEFINE)...) block in front of the (?i))
    todo = [node]
    seen_calls = set()
    nodes = []
    while todo:
        cur = todo.pop()
        for n in walk(cur):
            nodes.append(n)
            if n.kind == "call" and n.idx not in seen_calls:
                seen_calls.add(n.idx)
                g = P.by_idx.get(n.idx)
                if g is not None:
                    todo.append(g.child)
    for n in nodes:
        if n.kind != "char":
            continue
        for leaf in n.cs.leaves():
            if leaf.op == "lit":
                ch = chr(leaf.args[0])
                if ch.lower() != ch.upper() and not (leaf.icase or n.cs.icase):
                    bad.append(leaf.describe())
            elif leaf.op == "range":
                lo, hi = leaf.args
                if hi - lo < 500 and any(chr(c).lower() != chr(c).upper() for c in range(lo, hi + 1)):
                    if not (leaf.icase or n.cs.icase):
                        bad.append(leaf.describe())
    return bad


# ---------------------------------------------------------------------------
# automata (Thompson NFA over CharSet-labelled edges; simulated / determinised by
# this module on representative characters)


class NFA:
    def __init__(self):
        self.n = 0
        self.eps = {}
        self.trans = {}   # state -> list of (CharSet, state)
        self.asserts = {}  # state -> list of (kind, positive, target)

    def new(self):
        self.n += 1
        return self.n - 1

    def add_eps(self, a, b):
        self.eps.setdefault(a, []).append(b)

    def add(self, a, cs, b):
        self.trans.setdefault(a, []).append((cs, b))

    def add_assert(self, a, what, positive, b):
        self.asserts.setdefault(a, []).append((what, positive, b))


def build_nfa(node, P, allow_asserts=True):
    nfa = NFA()

    def rec(n, s, depth=0):
        k = n.kind
        if k == "char":
            e = nfa.new()
            nfa.add(s, n.cs, e)
            return e
        if k == "seq":
            cur = s
            for c in n.items:
                cur = rec(c, cur, depth)
            return cur
        if k == "alt":
            e = nfa.new()
            for c in n.items:
                st = nfa.new()
                nfa.add_eps(s, st)
                nfa.add_eps(rec(c, st, depth), e)
            return e
        if k in ("group", "atomic"):
            return rec(n.child, s, depth)
        if k == "call":
            if depth > 20:
                raise Undecided("recursive group call")
            return rec(P.by_idx[n.idx].child, s, depth + 1)
        if k == "rep":
            cur = s
            for _ in range(n.lo):
                cur = rec(n.child, cur, depth)
            if n.hi is None:
                loop = nfa.new()
                nfa.add_eps(cur, loop)
                e2 = rec(n.child, loop, depth)
                nfa.add_eps(e2, loop)
                return loop
            end = nfa.new()
            nfa.add_eps(cur, end)
            for _ in range(n.hi - n.lo):
                cur = rec(n.child, cur, depth)
                nfa.add_eps(cur, end)
            return end
        if k == "bound":
            if not allow_asserts:
                raise Undecided("assertion in automaton")
            e = nfa.new()
            nfa.add_assert(s, n.what, n.positive, e)
            return e
        if k == "look":
            raise Undecided("look-around in automaton")
        if k == "cond":
            if n.group == 0:
                return rec(n.no, s, depth)
            raise Undecided("conditional in automaton")
        raise Undecided("nfa of " + k)

    start = nfa.new()
    end = rec(node, start)
    nfa.start = start
    nfa.final = end
    return nfa


def _closure(nfa, states, prev_cp, next_cp):
    """epsilon + assertion closure; prev_cp/next_cp are neighbouring code points or
    None at the text edge (used to evaluate \\b)."""
    stack = list(states)
    seen = set(states)
    while stack:
        s = stack.pop()
        for t in nfa.eps.get(s, []):
            if t not in seen:
                seen.add(t)
                stack.append(t)
        for what, positive, t in nfa.asserts.get(s, []):
            pw = prev_cp is not None and _is_word(prev_cp)
            nw = next_cp is not None and _is_word(next_cp)
            if what == "word":
                ok = (pw != nw) == positive
            elif what == "sow":
                ok = (not pw) and nw
            elif what == "eow":
                ok = pw and not nw
            elif what == "sos":
                ok = prev_cp is None
            elif what == "eos":
                ok = next_cp is None
            else:
                raise Undecided("assertion " + what)
            if ok and t not in seen:
                seen.add(t)
                stack.append(t)
    return seen


def nfa_match_prefixes(nfa, word, before=None, after=None):
    """All k such that word[:k] is matched by the automaton when the word is placed
    in a text with code point *before* in front and the text continuing with
    word[k:] + *after* (each None at the text edge).  This is a simulation of the analysis's own
    automaton on a constant word, used for lexicon-conformance obligations."""
    cps = [ord(c) for c in word]
    out = []

    def nxt(i):
        if i < len(cps):
            return cps[i]
        return after

    def prv(i):
        if i > 0:
            return cps[i - 1]
        return before

    cur = _closure(nfa, {nfa.start}, prv(0), nxt(0))
    if nfa.final in cur:
        out.append(0)
    for i, cp in enumerate(cps):
        step = set()
        for s in cur:
            for cs, t in nfa.trans.get(s, []):
                if cs.contains(cp):
                    step.add(t)
        if not step:
            break
        cur = _closure(nfa, step, prv(i + 1), nxt(i + 1))
        if nfa.final in cur:
            out.append(i + 1)
    return out


def representatives(charsets, extra=()):
    """One representative code point per equivalence class of the partition of the
    BMP induced by the given character sets (plus explicitly requested points)."""
    sig = {}
    leaves = list(charsets)
    cands = list(range(0, 0x3100)) + list(range(0xFE00, 0x10000)) + \
        [0x1F600, 0x10000, 0xE000, 0xD7FF, 0x4E00, 0xAC00] + list(extra)
    for cp in cands:
        if 0xD800 <= cp <= 0xDFFF:
            continue
        key = tuple(cs.contains(cp) for cs in leaves)
        if key not in sig:
            sig[key] = cp
    for cp in extra:
        sig[("extra", cp)] = cp
    return sorted(set(sig.values()))


def nfa_charsets(nfa):
    out = []
    for lst in nfa.trans.values():
        for cs, _ in lst:
            out.append(cs)
    return out


def determinise(nfa, alphabet):
    """Subset construction (assertion-free automata only)."""
    if nfa.asserts:
        raise Undecided("assertions in determinise")
    start = frozenset(_closure(nfa, {nfa.start}, None, None))
    states = {start: 0}
    order = [start]
    delta = {}
    i = 0
    while i < len(order):
        S = order[i]
        for a in alphabet:
            step = set()
            for s in S:
                for cs, t in nfa.trans.get(s, []):
                    if cs.contains(a):
                        step.add(t)
            T = frozenset(_closure(nfa, step, None, None)) if step else frozenset()
            if T not in states:
                states[T] = len(order)
                order.append(T)
                if len(order) > 20000:
                    raise Undecided("automaton too large")
            delta[(states[S], a)] = states[T]
        i += 1
    finals = {states[S] for S in order if nfa.final in S}
    return {"n": len(order), "delta": delta, "finals": finals, "start": 0,
            "alphabet": list(alphabet)}


def dfa_difference_witness(A, B):
    """Shortest word in L(A) \\ L(B) over the shared alphabet, or None."""
    alpha = A["alphabet"]
    from collections import deque
    start = (A["start"], B["start"])
    seen = {start: None}
    dq = deque([start])
    while dq:
        st = dq.popleft()
        a, b = st
        if a in A["finals"] and b not in B["finals"]:
            w = []
            cur = st
            while seen[cur] is not None:
                cur, ch = seen[cur]
                w.append(ch)
            return "".join(chr(c) for c in reversed(w))
        for ch in alpha:
            nx = (A["delta"][(a, ch)], B["delta"][(b, ch)])
            if nx not in seen:
                seen[nx] = (st, ch)
                dq.append(nx)
    return None


# ---------------------------------------------------------------------------
# which element gets the blanks in front of a group (backtracking priority)
_WS_SAMPLE = [0x20, 0x09]
_NONWS_SAMPLE = [ord(c) for c in "azAZ09.:-"]


def _is_ws_loop(e):
    """greedy repetition (unbounded) of a class that takes blanks"""
    return isinstance(e, Rep) and e.hi is None and e.mode in ("greedy", "possessive", None, "") and \
        isinstance(e.child, Char) and all(e.child.cs.contains(cp) for cp in _WS_SAMPLE)


def _zero_width(e):
    return isinstance(e, (Look, Bound))


def _ends_nonblank(e, P, depth=0):
    """every match of e is non-empty and ends with a character that is not a blank (decided
    conservatively: False when unsure)"""
    if depth > 12:
        return False
    if isinstance(e, Char):
        return not any(e.cs.contains(cp) for cp in _WS_SAMPLE + [0x0A, 0xA0])
    if isinstance(e, (Group, Atomic)):
        return _ends_nonblank(e.child, P, depth + 1)
    if isinstance(e, Alt):
        return all(_ends_nonblank(x, P, depth + 1) for x in e.items)
    if isinstance(e, Seq):
        for x in reversed(e.items):
            if _zero_width(x):
                continue
            return _ends_nonblank(x, P, depth + 1)
        return False
    if isinstance(e, Rep):
        return e.lo >= 1 and _ends_nonblank(e.child, P, depth + 1)
    if isinstance(e, Call):
        g = P.by_idx.get(e.idx)
        return g is not None and _ends_nonblank(g.child, P, depth + 1)
    return False


def group_may_take_leading_blank(P, gname):
    """Can the named group, in the match the engine prefers, begin with a blank although an
    earlier element could have taken it?  True only when some element that is matched directly
    before the group certainly ends with a non-blank character (so the blank between the two has
    nowhere else to go) and the group itself accepts a leading blank; False when a greedy blank
    loop stands directly before the group in every such match, or when unsure."""
    target = P.group(gname)
    if target is None:
        return False
    # path from the root to the group
    path = []

    def find(n, trail):
        if n is target:
            path.extend(trail)
            return True
        for i, ch in enumerate(n.children()):
            if find(ch, trail + [(n, i)]):
                return True
        return False
    root = getattr(P, "root", None)
    if root is None or not find(root, []):
        return False
    def no_looks(node):
        k = node.kind
        if k == "look":
            return Seq([])
        if k == "seq":
            return Seq([no_looks(c) for c in node.items])
        if k == "alt":
            return Alt([no_looks(c) for c in node.items])
        if k == "group":
            return Group(node.idx, node.name, no_looks(node.child))
        if k == "atomic":
            return Atomic(no_looks(node.child))
        if k == "rep":
            return Rep(node.lo, node.hi, no_looks(node.child), node.mode)
        return node
    try:
        nfa = build_nfa(no_looks(target.child), P)
    except Exception:
        return False
    # the group accepts a word with a leading blank?
    takes = False
    for w in (" pm", " am", " a", " p", " x", " 1"):
        try:
            if nfa_match_prefixes(nfa, w):
                pre = nfa_match_prefixes(nfa, w)
                if any(k >= 2 for k in pre):
                    takes = True
        except Exception:
            pass
    if not takes:
        return False
    # walk backwards from the group through the enclosing sequences
    for parent, idx in reversed(path):
        if isinstance(parent, Seq):
            j = idx - 1
            while j >= 0:
                e = parent.items[j]
                if _zero_width(e):
                    j -= 1
                    continue
                if _is_ws_loop(e):
                    return False
                optional = isinstance(e, Rep) and e.lo == 0
                if _ends_nonblank(e.child if optional else e, P):
                    return True       # when this element takes part, the blank lands in the group
                if optional:
                    j -= 1
                    continue
                return False          # unsure
            # start of this sequence: continue in the enclosing one
        elif isinstance(parent, (Group, Atomic, Rep, Alt)):
            continue
        else:
            return False
    return False


# ---------------------------------------------------------------------------
# preferred match: a small backtracking matcher over the syntax tree, exploring alternatives and
# repetitions in the engine's priority order (leftmost alternative first, greedy before lazy), so
# that "which of several possible matches does the engine report" can be decided for sample texts.
class _Budget(Exception):
    pass


def _word_char(ch):
    return ch.isalnum() or ch == "_"


def preferred_match(P, text, start=0, node=None, budget=200000):
    """(end, {group name or index: (start, end)}) of the match the engine prefers for *node*
    (default: the whole pattern) anchored at *start* in *text*, or None; Undecided on constructs
    outside the model or when the budget is exhausted."""
    root = node if node is not None else P.root
    steps = [0]

    def tick():
        steps[0] += 1
        if steps[0] > budget:
            raise _Budget()

    def m(n, i, caps, k, depth=0):
        """match n at i, then continuation k(i2, caps2); returns the first successful result"""
        tick()
        if depth > 200:
            raise Undecided("recursion depth in preferred_match")
        kind = n.kind
        if kind == "char":
            if i < len(text) and n.cs.contains(ord(text[i])):
                return k(i + 1, caps)
            return None
        if kind == "seq":
            def run(idx, i2, caps2):
                if idx == len(n.items):
                    return k(i2, caps2)
                return m(n.items[idx], i2, caps2, lambda i3, c3: run(idx + 1, i3, c3), depth + 1)
            return run(0, i, caps)
        if kind == "alt":
            for a in n.items:
                r = m(a, i, caps, k, depth + 1)
                if r is not None:
                    return r
            return None
        if kind == "group":
            def after(i2, caps2):
                c3 = dict(caps2)
                c3[n.idx] = (i, i2)
                if n.name:
                    c3[n.name] = (i, i2)
                return k(i2, c3)
            return m(n.child, i, caps, after, depth + 1)
        if kind == "atomic":
            got = m(n.child, i, caps, lambda i2, c2: (i2, c2), depth + 1)
            if got is None:
                return None
            return k(got[0], got[1])
        if kind == "call":
            g = P.by_idx.get(n.idx)
            if g is None:
                raise Undecided("call of unknown group")
            return m(g.child, i, caps, k, depth + 1)
        if kind == "rep":
            lo, hi = n.lo, n.hi
            mode = n.mode or "greedy"

            def rep(count, i2, caps2):
                tick()
                can_more = hi is None or count < hi
                if mode in ("greedy", "poss"):
                    if can_more:
                        def again(i3, c3):
                            if i3 == i2 and count >= lo:
                                return None      # empty iteration: stop
                            return rep(count + 1, i3, c3)
                        r = m(n.child, i2, caps2, again, depth + 1)
                        if r is not None:
                            return r
                    if count >= lo:
                        return k(i2, caps2)
                    return None
                # lazy
                if count >= lo:
                    r = k(i2, caps2)
                    if r is not None:
                        return r
                if can_more:
                    def again(i3, c3):
                        if i3 == i2 and count >= lo:
                            return None
                        return rep(count + 1, i3, c3)
                    return m(n.child, i2, caps2, again, depth + 1)
                return None
            if mode == "poss":
                got = None

                def first(i2, c2):
                    return (i2, c2)
                # possessive: take the greedy result of the repetition alone, no backtracking into it
                saved_k = k
                k_id = lambda i2, c2: (i2, c2)   # noqa
                inner = Rep(lo, hi, n.child, "greedy")
                got = m(inner, i, caps, k_id, depth + 1)
                if got is None:
                    return None
                return saved_k(got[0], got[1])
            return rep(0, i, caps)
        if kind == "look":
            if n.behind:
                # lookbehind: some start j <= i such that child matches text[j:i] exactly
                found = False
                for j in range(i, -1, -1):
                    r = m(n.child, j, caps, lambda i2, c2: (i2, c2) if i2 == i else None, depth + 1)
                    if r is not None:
                        found = True
                        break
                    if i - j > 12:
                        break
            else:
                found = m(n.child, i, caps, lambda i2, c2: (i2, c2), depth + 1) is not None
            if found == n.positive:
                return k(i, caps)
            return None
        if kind == "bound":
            before = _word_char(text[i - 1]) if i > 0 else False
            after_ = _word_char(text[i]) if i < len(text) else False
            what = n.what
            if what == "word":
                ok = (before != after_)
                if not n.positive:
                    ok = not ok
            elif what == "sow":
                ok = (not before) and after_
            elif what == "eow":
                ok = before and not after_
            elif what == "sos":
                ok = i == 0
            elif what == "eos":
                ok = i == len(text)
            elif what == "sol":
                ok = i == 0 or text[i - 1] == "\n"
            elif what == "eol":
                ok = i == len(text) or text[i] == "\n"
            else:
                raise Undecided("boundary " + what)
            return k(i, caps) if ok else None
        if kind == "cond":
            if n.group == 0:      # (?(DEFINE)...)
                return m(n.no, i, caps, k, depth + 1) if not isinstance(n.no, Seq) or n.no.items else k(i, caps)
            taken = n.group in caps
            return m(n.yes if taken else n.no, i, caps, k, depth + 1)
        raise Undecided("preferred_match: " + kind)
    try:
        return m(root, start, {}, lambda i2, c2: (i2, c2))
    except _Budget:
        raise Undecided("preferred_match: budget exhausted")
    except RecursionError:
        raise Undecided("preferred_match: recursion")


def preferred_search(P, text, node=None, budget=400000):
    """first position at which the pattern matches, with that match: (start, end, groups) or None"""
    for s in range(0, len(text) + 1):
        r = preferred_match(P, text, s, node=node, budget=budget)
        if r is not None:
            return s, r[0], r[1]
    return None
