"""State of the E3 path-forking abstract interpreter."""
from .e3_values import Obj, UnionV


class Issue:
    """A potential raise / hazard met on one path."""

    def __init__(self, kind, exc, where, construct, detail, chain=()):
        self.kind = kind
        self.exc = exc
        self.where = where
        self.construct = construct
        self.detail = detail
        self.chain = tuple(chain)

    def __repr__(self):
        return "Issue({} {} {} {})".format(self.kind, self.exc, self.where, self.construct)


class Effect:
    """A store into an object that existed before the analysed call."""

    def __init__(self, obj_sym, field, where, construct, via):
        self.obj_sym = obj_sym
        self.field = field
        self.where = where
        self.construct = construct
        self.via = via

    def __repr__(self):
        return "Effect({}.{} at {})".format(self.obj_sym, self.field, self.where)


class State:
    def __init__(self):
        self.frames = []        # list of dict name -> Val
        self.heap = {}          # oid -> Obj
        self.next_oid = 1
        self.conds = []         # path condition: list of (sym, truth)
        self.rels = []          # relational atoms for re-propagation
        self.effects = []
        self.issues = []        # hazards that did not terminate the path (notes)
        self.cfg = {}           # RegexMatch oid -> frozenset of group configs
        self.checked = set()    # calendar-checked (ysym, msym, dsym) triples
        self.undecided = []     # idioms outside the subset met on this path
        self.depth = 0
        self.notes = []

    def fork(self):
        s = State()
        s.frames = [dict(f) for f in self.frames]
        s.heap = {k: o.copy() for k, o in self.heap.items()}
        s.next_oid = self.next_oid
        s.conds = list(self.conds)
        s.rels = list(self.rels)
        s.effects = list(self.effects)
        s.issues = list(self.issues)
        s.cfg = dict(self.cfg)
        s.checked = set(self.checked)
        s.undecided = list(self.undecided)
        s.depth = self.depth
        s.notes = list(self.notes)
        return s

    def new_obj(self, cls, sym=None, fresh=True):
        oid = self.next_oid
        self.next_oid += 1
        o = Obj(oid, cls, sym if sym is not None else ("new", oid), fresh)
        self.heap[oid] = o
        return o

    @property
    def env(self):
        return self.frames[-1]
