"""State of the E3 path-forking abstract interpreter."""
from .e3_values import Obj, UnionV


class Issue:
    """A potential raise / hazard met on one path."""

    def __init__(self, kind, exc, where, construct, detail, chain=()):
        self.kind = kind
        self.exc = exc
        self.where = where
        self.construct = construct
        self.detail = detail
        self.chain = tuple(chain)

    def __repr__(self):
        return "Issue({} {} {} {})".format(self.kind, self.exc, self.where, self.construct)


class Effect:
    """A store into an object that existed before the analysed call."""

    def __init__(self, obj_sym, field, where, construct, via):
        self.obj_sym = obj_sym
        self.field = field
        self.where = where
        self.construct = construct
        self.via = via

    def __repr__(self):
        return "Effect({}.{} at {})".format(self.obj_sym, self.field, self.where)


class State:
    def __init__(self):
        self.frames = []        # list of dict name -> Val
        self.heap = {}          # oid -> Obj
        self.next_oid = 1
        self.conds = []         # path condition: list of (sym, truth)
        self.rels = []          # relational atoms for re-propagation
        self.effects = []
        self.issues = []        # hazards that did not terminate the path (notes)
        self.cfg = {}           # RegexMatch oid -> frozenset of group configs
        self.checked = set()    # calendar-checked (ysym, msym, dsym) triples
        self.undecided = []     # idioms outside the subset met on this path
        self.depth = 0
        self.notes = []

    def fork(self):
        s = State()
        s.frames = [dict(f) for f in self.frames]
        s.heap = {k: o.copy() for k, o in self.heap.items()}
        s.next_oid = self.next_oid
        s.conds = list(self.conds)
        s.rels = list(self.rels)
        s.effects = list(self.effects)
        s.issues = list(self.issues)
        s.cfg = dict(self.cfg)
        s.checked = set(self.checked)
        s.undecided = list(self.undecided)
        s.depth = self.depth
        s.notes = list(self.notes)
        return s

    def new_obj(self, cls, sym=None, fresh=True):
        oid = self.next_oid
        self.next_oid += 1
        o = Obj(oid, cls, sym if sym is not None else ("new", oid), fresh)
        self.heap[oid] = o
        return o

    @property
    def env(self):
        return self.frames[-1]


def _vkey(v):
    k = getattr(v, "kind", None)
    if k == "int":
        return ("i", v.lo, v.hi, v.sym)
    if k == "str":
        return ("s", v.vals, v.sym, v.nonempty)
    if k == "none":
        return ("n",)
    if k == "enum":
        return ("e", v.cls, v.names)
    if k == "ref":
        return ("r", v.oid)
    if k == "bool":
        return ("b", v.value, v.sym)
    return ("o", id(v))


def fingerprint(st):
    fr = []
    for f in st.frames:
        fr.append(tuple(sorted((k, _vkey(v)) for k, v in f.items() if k != "__cur_exc__")))
    hp = []
    for oid in sorted(st.heap):
        o = st.heap[oid]
        hp.append((oid, o.cal, tuple(sorted((k, _vkey(v)) for k, v in o.attrs.items()))))
    cf = tuple(sorted((k, v) for k, v in st.cfg.items()))
    return (tuple(fr), tuple(hp), cf, frozenset(st.checked), st.next_oid)


def merge_states(states):
    """Merge states that agree on everything but the path condition: the merged
    condition is the common prefix plus the disjunction of the differing tails."""
    if len(states) < 2:
        return states
    groups = {}
    order = []
    for s in states:
        try:
            k = fingerprint(s)
        except TypeError:
            k = id(s)
        if k not in groups:
            groups[k] = []
            order.append(k)
        groups[k].append(s)
    out = []
    for k in order:
        g = groups[k]
        if len(g) == 1:
            out.append(g[0])
            continue
        base = g[0]
        n = min(len(x.conds) for x in g)
        i = 0
        while i < n and all(x.conds[i] == base.conds[i] for x in g):
            i += 1
        tails = tuple(tuple(x.conds[i:]) for x in g)
        if any(len(t) == 0 for t in tails):
            base.conds = list(base.conds[:i])
        else:
            base.conds = list(base.conds[:i]) + [(("anyof", tails), True)]
        j = 0
        m = min(len(x.rels) for x in g)
        while j < m and all(x.rels[j] == base.rels[j] for x in g):
            j += 1
        base.rels = list(base.rels[:j])
        for x in g[1:]:
            for e in x.effects:
                if not any(e.construct == y.construct and e.obj_sym == y.obj_sym for y in base.effects):
                    base.effects.append(e)
            for u in x.undecided:
                if u not in base.undecided:
                    base.undecided.append(u)
        out.append(base)
    return out
