"""E4 — ordering engine: evaluates *path summaries* (symbolic path conditions and
symbolic result fields produced by E3) on small, exhaustive-by-ordering sets of
valuations.  No code of the repository is run: what is evaluated are the summary
terms E3 derived from the syntax trees.  dateutil's relativedelta is used as the
arithmetic model for the datetime terms (trusted base A2).
"""
import datetime as _dt
import itertools

from dateutil.relativedelta import relativedelta as _rd

from .core import Undecided
from .e3_values import *  # noqa

_NOVAL = object()


class Infeasible(Exception):
    """The valuation makes a term undefined (e.g. non-existent calendar date)."""


def base_syms(sym, out=None):
    """Free leaves of a summary term: ('attr', base, field) on parameters and ('ts',)."""
    if out is None:
        out = set()
    if not isinstance(sym, tuple) or not sym:
        return out
    if sym[0] in ("attr", "unk"):
        out.add(sym)
        return out
    if sym == ("ts",):
        out.add(sym)
        return out
    if sym[0] == "const":
        return out
    if sym[0] in ("in", "startswith", "endswith", "isdigit", "isalpha", "fstring", "str?", "top", "lower",
                  "upper", "strip", "format", "replace", "join", "len", "count", "find", "hasattr",
                  "isinstance", "allany", "float?", "clock"):
        return out      # outside the evaluable fragment: the condition is treated as free
    if sym[0] == "anyof":
        for conj in sym[1]:
            for c, _ in conj:
                base_syms(c, out)
        return out
    for s in (sym[1:] if isinstance(sym[0], str) else sym):
        if isinstance(s, tuple):
            base_syms(s, out)
    return out


def ev(sym, val):
    """Evaluate a summary term under valuation val (dict base sym -> python value)."""
    if not isinstance(sym, tuple) or not sym:
        raise Undecided("term {!r}".format(sym))
    h = sym[0]
    if h == "const":
        return sym[1]
    if sym in val:
        return val[sym]
    if h in ("attr", "unk"):
        raise Undecided("unvalued leaf {!r}".format(sym))
    if h == "ts":
        raise Undecided("reference time not valued")
    if h == "op":
        a, b = ev(sym[2], val), ev(sym[3], val)
        if a is None or b is None:
            raise Infeasible("None operand")
        o = sym[1]
        if o == "Add":
            return a + b
        if o == "Sub":
            return a - b
        if o == "Mult":
            return a * b
        if o == "FloorDiv":
            return a // b
        if o == "Mod":
            return a % b
        raise Undecided("operator " + o)
    if h == "neg":
        return -ev(sym[1], val)
    if h == "int":
        return ev(sym[1], val)
    if h == "dtnew":
        parts = [ev(s, val) for s in sym[1:6]]
        try:
            return _dt.datetime(*[int(p or 0) if i >= 3 else int(p) for i, p in enumerate(parts)])
        except (ValueError, TypeError, OverflowError):
            raise Infeasible("non-existent date")
    if h == "dtexpr":
        base = ev(sym[1], val)
        rd = ev(sym[2], val)
        try:
            if len(sym) > 3 and sym[3] == "replace":
                return base.replace(**rd["abs"])
            return base + _rd(**rd["abs"], **rd["rel"])
        except (ValueError, OverflowError):
            raise Infeasible("datetime arithmetic out of range")
    if h == "rd":
        ab = {k: ev(s, val) for k, s in sym[1]}
        rel = {k: ev(s, val) for k, s in sym[2]}
        return {"abs": ab, "rel": rel}
    if h == "dtfield":
        d = ev(sym[1], val)
        f = sym[2]
        if f == "weekday":
            return d.weekday()
        return getattr(d, f)
    if h == "date":
        return ev(sym[1], val).date()
    if h == "cmp":
        a, b = ev(sym[2], val), ev(sym[3], val)
        o = sym[1]
        if o in ("Is", "IsNot"):
            return (a is b) == (o == "Is")
        if a is None or b is None:
            if o == "Eq":
                return a == b
            raise Infeasible("None in ordering")
        return {"Lt": a < b, "LtE": a <= b, "Gt": a > b, "GtE": a >= b, "Eq": a == b,
                "NotEq": a != b}[o]
    if h == "truth":
        return bool(ev(sym[1], val))
    if h in ("min", "max"):
        vals = [ev(s, val) for s in sym[1:]]
        return min(vals) if h == "min" else max(vals)
    if h == "abs":
        return abs(ev(sym[1], val))
    raise Undecided("term head " + str(h))


def consistent(conds, val):
    """Do all recorded path conditions hold under val?  Conditions whose terms are
    outside the evaluable fragment (string tests, ...) are treated as free."""
    for sym, truth in conds:
        try:
            v = ev(sym, val)
        except Undecided:
            continue
        except Infeasible:
            return False
        if bool(v) != truth:
            return False
    return True


def valuations(leaves, domains):
    """Cartesian product of the domains of the leaves (sorted for determinism)."""
    leaves = sorted(leaves, key=repr)
    doms = [domains(l) for l in leaves]
    for combo in itertools.product(*doms):
        yield dict(zip(leaves, combo))


def constants_in(conds):
    out = set()

    def rec(s):
        if isinstance(s, tuple):
            if len(s) == 2 and s[0] == "const" and isinstance(s[1], int) and not isinstance(s[1], bool):
                out.add(s[1])
            for x in s:
                rec(x)
    for sym, _ in conds:
        rec(sym)
    return out


def field_domain(field, lo, hi, consts=()):
    """Representative values of an integer field: both ends of its range, the
    constants the code compares against and their neighbours."""
    if hi - lo <= 24:
        return list(range(int(lo), int(hi) + 1))
    pts = {lo, lo + 1, hi - 1, hi, (lo + hi) // 2}
    for c in consts:
        for x in (c - 1, c, c + 1):
            if lo <= x <= hi:
                pts.add(x)
    return sorted(int(p) for p in pts)


# ---------------------------------------------------------------------------
# compiled evaluation: summary terms -> one Python function over a list of leaf
# values (an order of magnitude faster than the recursive evaluator above)


def _mkdt(y, m, d, h, mi):
    return _dt.datetime(int(y), int(m), int(d), int(h or 0), int(mi or 0))


def _validdate(y, m, d):
    try:
        _dt.date(int(y), int(m), int(d))
        return True
    except (ValueError, OverflowError):
        return False


def _code(sym, index):
    if not isinstance(sym, tuple) or not sym:
        raise Undecided("term {!r}".format(sym))
    h = sym[0]
    if h == "const":
        if sym[1] is None or isinstance(sym[1], (int, bool, str)):
            return repr(sym[1])
        raise Undecided("constant kind")
    if sym in index:
        return "a[{}]".format(index[sym])
    if h in ("attr", "unk") or sym == ("ts",):
        raise Undecided("unvalued leaf {!r}".format(sym))
    if h == "op":
        o = {"Add": "+", "Sub": "-", "Mult": "*", "FloorDiv": "//", "Mod": "%"}.get(sym[1])
        if o is None:
            raise Undecided("operator " + str(sym[1]))
        return "({} {} {})".format(_code(sym[2], index), o, _code(sym[3], index))
    if h == "neg":
        return "(-{})".format(_code(sym[1], index))
    if h == "int":
        return _code(sym[1], index)
    if h == "dtnew":
        return "_mkdt({})".format(", ".join(_code(s, index) for s in sym[1:6]))
    if h == "rd":
        kw = ["{}={}".format(k, _code(s, index)) for k, s in sym[1]]
        kw += ["{}={}".format(k, _code(s, index)) for k, s in sym[2]]
        return "_rd({})".format(", ".join(kw))
    if h == "dtexpr":
        if len(sym) > 3 and sym[3] == "replace":
            kw = ["{}={}".format(k, _code(s, index)) for k, s in sym[2][1]]
            return "{}.replace({})".format(_code(sym[1], index), ", ".join(kw))
        return "({} + {})".format(_code(sym[1], index), _code(sym[2], index))
    if h == "dtfield":
        if sym[2] == "weekday":
            return "{}.weekday()".format(_code(sym[1], index))
        return "{}.{}".format(_code(sym[1], index), sym[2])
    if h == "date":
        return "{}.date()".format(_code(sym[1], index))
    if h == "cmp":
        o = {"Lt": "<", "LtE": "<=", "Gt": ">", "GtE": ">=", "Eq": "==", "NotEq": "!=",
             "Is": "is", "IsNot": "is not"}.get(sym[1])
        if o is None:
            raise Undecided("comparison " + str(sym[1]))
        return "({} {} {})".format(_code(sym[2], index), o, _code(sym[3], index))
    if h == "truth":
        return "bool({})".format(_code(sym[1], index))
    if h in ("min", "max"):
        return "{}({})".format(h, ", ".join(_code(s, index) for s in sym[1:]))
    if h == "abs":
        return "abs({})".format(_code(sym[1], index))
    if h == "tuple":
        return "({},)".format(", ".join(_code(x, index) for x in sym[1]))
    if h == "validdate":
        return "_validdate({}, {}, {})".format(*[_code(x, index) for x in sym[1:4]])
    if h == "select":
        return "({},)[{}]".format(", ".join(_code(x, index) for x in sym[1]), _code(sym[2], index))
    if h == "monthlen":
        return "_monthlen({}, {})".format(_code(sym[1], index), _code(sym[2], index))
    if h == "isleap":
        return "_isleap({})".format(_code(sym[1], index))
    if h == "anyof":
        alts = []
        for conj in sym[1]:
            parts = []
            for c, truth in conj:
                try:
                    parts.append("(bool({}) is {})".format(_code(c, index), bool(truth)))
                except Undecided:
                    if STRICT[0]:
                        raise
                    continue
            alts.append("(" + (" and ".join(parts) if parts else "True") + ")")
        return "(" + " or ".join(alts) + ")"
    raise Undecided("term head " + str(h))


_COMPILED = {}
# strict: a condition inside a merged ('anyof') path condition that cannot be compiled makes the
# whole term undecided instead of being dropped (set by callers that compare with a specification)
STRICT = [False]


def compile_path(conds, terms, leaves_order):
    """Returns f(a) -> None (valuation inconsistent / infeasible) or tuple of term
    values.  Conditions outside the evaluable fragment are treated as free."""
    index = {l: i for i, l in enumerate(leaves_order)}
    cond_codes = []
    for sym, truth in conds:
        try:
            c = _code(sym, index)
        except Undecided:
            continue
        cond_codes.append("bool({}) is {}".format(c, bool(truth)))
    term_codes = []
    for t in terms:
        term_codes.append("None" if t is None else _code(t, index))
    src = "def _f(a):\n    try:\n"
    for c in cond_codes:
        src += "        if not ({}):\n            return None\n".format(c)
    src += "        return ({},)\n".format(", ".join(term_codes)) if term_codes else "        return ()\n"
    src += "    except (TypeError, ValueError, OverflowError, AttributeError, IndexError):\n        return None\n"
    f = _COMPILED.get(src)
    if f is None:
        import calendar as _cal
        ns = {"_mkdt": _mkdt, "_rd": _rd, "_monthlen": lambda y, m: _cal.monthrange(int(y), int(m))[1],
              "_isleap": lambda y: _cal.isleap(int(y)), "_validdate": _validdate}
        exec(src, ns)
        f = ns["_f"]
        _COMPILED[src] = f
    return f
