"""Seeded variants for checker self-validation: one small edit each, applied to a
scratch copy of the current tree.  'fire' = a realistic regression that still
imports and passes the test-suite; 'silent' = a behaviour-preserving twin."""

R = "ctparse/time/rules.py"
T = "ctparse/types.py"
C = "ctparse/ctparse.py"
RU = "ctparse/rule.py"
L = "ctparse/time/postprocess_latent.py"
PP = "ctparse/partial_parse.py"
TM = "ctparse/timers.py"


def V(name, props, file, edits, expect="fire", names=None):
    if isinstance(edits, tuple):
        edits = [edits]
    return {"name": name, "props": props, "file": file, "edits": edits, "expect": expect,
            "names": names}


VARIANTS = [
    # ---- C01 -------------------------------------------------------------------
    V("c01-minute-none", ["C01"], R,
      ("and (d1.minute or 0) >= (d2.minute or 0)", "and d1.minute >= d2.minute"),
      names="ruleDateTimeDateTime"),
    V("c01-pod-guard-dropped", ["C01", "C02", "C19"], R,
      ("    if pod not in pod_hours:\n        # modifiers stacked deeper than the part-of-day table knows\n        return None\n", "")),
    V("c01-str-none-score", ["C01"], C,
      ('score = "{:.3f}".format(self.score) if self.score is not None else "None"',
       'score = "{:.3f}".format(self.score)'), names="CTParse"),
    V("c01-overflow-unguarded", ["C01"], R,
      ("        try:\n            end_ts = t.dt + delta\n        except (OverflowError, ValueError):\n            # the end of the interval is not a representable date\n            return None\n",
       "        end_ts = t.dt + delta\n"), names="ruleTimeDuration"),
    V("c01-unknown-group", ["C01"], R,
      ('return Time(day=int(m.match.group("day")))\n\n\n@rule(r"(?<!\\d|\\.)(?P<month>',
       'return Time(day=int(m.match.group("dom")))\n\n\n@rule(r"(?<!\\d|\\.)(?P<month>'),
      names="ruleDOM1"),
    V("c01-int-of-optional-group", ["C01"], R,
      ('minute=int(m.match.group("minute") or 0))\n    return _maybe_apply_am_pm',
       'minute=int(m.match.group("minute")))\n    return _maybe_apply_am_pm'), names="ruleHHMM"),
    V("c01-wider-handler", ["C01"], C,
      ("    except CTParseTimeoutError:", "    except Exception:"), names="except"),
    V("c01-unary-cycle", ["C01"], R,
      ("def ruleLatentDOM(ts: datetime, dom: Time) -> Time:\n    dm = ts + relativedelta(day=dom.day)\n    if dm <= ts:\n        dm += relativedelta(months=1)\n    return Time(year=dm.year, month=dm.month, day=dm.day)",
       "def ruleLatentDOM(ts: datetime, dom: Time) -> Time:\n    dm = ts + relativedelta(day=dom.day)\n    if dm <= ts:\n        dm += relativedelta(months=1)\n    return Time(day=dm.day)"),
      names="unary"),
    V("c01-benign-rename", ["C01", "C02"], R,
      [("    dm = ts + relativedelta(days=1)\n    return Time(year=dm.year, month=dm.month, day=dm.day)",
        "    nxt = ts + relativedelta(days=1)\n    return Time(year=nxt.year, month=nxt.month, day=nxt.day)")],
      expect="silent"),
    V("c01-benign-not-gt", ["C01", "C02", "C07"], R,
      ("    if d1.day >= d2.day:\n        return None\n    # d1.day < d2.day",
       "    if not d1.day < d2.day:\n        return None\n    # d1.day < d2.day"), expect="silent"),
    # ---- C02 / C07 -------------------------------------------------------------
    V("c02-hour-plus-12-le", ["C02"], R,
      ('if ampm_match.lower().startswith("p") and t.hour < 12:',
       'if ampm_match.lower().startswith("p") and t.hour <= 12:'), names="_maybe_apply_am_pm"),
    V("c02-quarter-before-zero", ["C02"], R,
      ("    if t.hour > 0:\n        return Time(hour=t.hour - 1, minute=45)",
       "    if t.hour >= 0:\n        return Time(hour=t.hour - 1, minute=45)"), names="ruleQuarterBeforeHH"),
    V("c02-valid-date-dropped", ["C02", "C01"], R,
      ("    day = int(m.match.group(\"day\"))\n    if not _is_valid_date(y, month, day):\n        return None\n",
       "    day = int(m.match.group(\"day\"))\n"), names="calendar"),
    V("c02-latent-span-dropped", ["C02", "C09"], L,
      ("        year=dm.year, month=dm.month, day=dm.day, hour=dm.hour, minute=dm.minute\n    ).update_span(tod)",
       "        year=dm.year, month=dm.month, day=dm.day, hour=dm.hour, minute=dm.minute\n    )"),
      names="latent"),
    V("c02-update-span-swapped", ["C02", "C09"], T,
      ("        self.mstart = args[0].mstart\n        self.mend = args[-1].mend",
       "        self.mstart = args[0].mstart\n        self.mend = args[0].mend"), names="span"),
    V("c07-datedate-guard-weakened", ["C07", "C02"], R,
      ("    if d1.year == d2.year and d1.month > d2.month:\n        return None\n    if d1.year == d2.year and d1.month == d2.month and d1.day >= d2.day:\n        return None\n    return Interval(t_from=d1, t_to=d2)",
       "    if d1.year == d2.year and d1.month == d2.month and d1.day >= d2.day:\n        return None\n    return Interval(t_from=d1, t_to=d2)"),
      names="ruleDateDate"),
    V("c07-wrap-dropped", ["C07", "C02"], R,
      ("            t_to_dt = t_to.dt + relativedelta(days=1)", "            t_to_dt = t_to.dt + relativedelta(days=0)"),
      names="ruleDateInterval"),
    V("c07-latent-wrap-dropped", ["C07", "C02"], L,
      ("    if dm_to <= dm_from:\n        # the range wraps around midnight (23:30-3:35): it ends on the next day\n        dm_to += relativedelta(days=1)\n", ""),
      names="latent"),
    V("c07-before-sides-swapped", ["C07"], R,
      ('    if r.match.group("not"):\n        return Interval(t_from=t, t_to=None)\n    else:\n        return Interval(t_from=None, t_to=t)',
       '    if r.match.group("not"):\n        return Interval(t_from=None, t_to=t)\n    else:\n        return Interval(t_from=t, t_to=None)'),
      names="ruleBeforeTime"),
    V("c07-ends-swapped", ["C07"], R,
      ("def rulePODPOD(ts: datetime, t1: Time, _: RegexMatch, t2: Time) -> Interval:\n    return Interval(t_from=t1, t_to=t2)",
       "def rulePODPOD(ts: datetime, t1: Time, _: RegexMatch, t2: Time) -> Interval:\n    return Interval(t_from=t2, t_to=t1)"),
      names="rulePODPOD"),
    V("c07-equal-datetimes-allowed", ["C07"], R,
      ("and (d1.minute or 0) >= (d2.minute or 0)", "and (d1.minute or 0) > (d2.minute or 0)"),
      names="ruleDateTimeDateTime"),
    V("c07-12h-rule-24h", ["C07"], R,
      ("            t_to_dt = t_to.dt + relativedelta(hours=12)", "            t_to_dt = t_to.dt + relativedelta(hours=36)"),
      names="ruleDateInterval"),
    # ---- C19 ---------------------------------------------------------------------
    V("c19-duplicate-rule", ["C19", "C15"], R,
      ('@rule("mitternacht|midnight")\ndef ruleMidnight(',
       '@rule("heute abend")\ndef ruleMidnight(ts: datetime, _: RegexMatch) -> Time:\n    return Time(hour=20, minute=0)\n\n\n@rule("mitternacht|midnight")\ndef ruleMidnight('),
      names="ruleMidnight"),
    V("c19-nullable-pattern", ["C19"], R,
      ('@rule(r"(?<!\\d|\\.)(?P<hour>(?&_hour))\\s*(uhr|h|o\\\'?clock)")',
       '@rule(r"(?<!\\d|\\.)(?P<hour>(?&_hour))?\\s*(uhr|h|o\\\'?clock)?")'), names="ruleHHOClock"),
    V("c19-adjacent-regex", ["C19"], R,
      ('@rule(predicate("isDOM"), r"of", predicate("isMonth"))',
       '@rule(predicate("isDOM"), r"of", r"the", predicate("isMonth"))'), names="ruleDOMMonth2"),
    V("c19-dead-rule", ["C19"], R,
      ('@rule(predicate("isDOW"), predicate("isPOD"))\ndef ruleDOWPOD(',
       '@rule(predicate("isDOW"), predicate("isPOT"))\ndef ruleDOWPOD('), names="ruleDOWPOD"),
    V("c19-unregistered", ["C19"], R,
      ('@rule(r"übermorgen")\ndef ruleAfterTomorrow(', 'def ruleAfterTomorrow('), names="ruleAfterTomorrow"),
    V("c19-pattern-removed-model-token", ["C19"], R,
      ('@rule(r"vor\\s?gestern")\ndef ruleBeforeYesterday(ts: datetime, _: RegexMatch) -> Time:\n    dm = ts + relativedelta(days=-2)\n    return Time(year=dm.year, month=dm.month, day=dm.day)\n\n\n', ''),
      names="token"),
    V("c19-id-recycle-broken", ["C19"], RU,
      ("            if p in _str_regex:\n                # have seen this regex before - recycle\n                return regex_match(_str_regex[p])\n", ""),
      names="_map"),
    V("c19-benign-reorder-helper", ["C19"], R,
      ("def _pod_from_match(pod: str, m: RegexMatch) -> str:\n    mod = \"\"",
       "def _pod_from_match(pod: str, m: RegexMatch) -> str:\n    # modifier prefix\n    mod = \"\""), expect="silent"),
]
