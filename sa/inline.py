"""Inlined view of a module: calls of same-module helper functions (and same-class helper
methods) are replaced by the helper's body, so that the structural checks see one function
whether or not a maintainer has split it into helpers.

The transformation is conservative: a call is inlined only when the result is exactly the
program that Python would run (parameters bound to their arguments, locals renamed apart,
`return` turned into an assignment with the remainder of the helper moved into the other
branch); anything else is left as a call.  The checks then treat a call that was left as a
call the way they always did (an opaque callee).
"""
import ast
import copy

MAX_DEPTH = 8
MAX_BODY = 80          # statements in a helper (after flattening) that is still inlined


# Functions the checks address by name (anchors): never inlined.  Public functions and methods
# are API and are kept as well; what is inlined are private helpers that are not in this table,
# i.e. the ones a refactoring introduces.
ANCHORS = {
    "_ctparse", "_get_labels", "_preprocess_string", "_match_rule", "_match_regex", "_regex_stack",
    "_feature_extractor", "_filter_rules", "_seq_match", "_map", "_has_consequtive_regex",
    "_regex_match", "_dimension", "_predicate", "_tt", "_wrapper", "_hasOnly", "_hasAtLeast",
    "_mk_pod_hours", "_add_ts", "_mk", "_latent_tod", "_latent_time_interval", "_is_valid_date",
    "_pod_from_match", "_is_valid_military_time", "_maybe_apply_am_pm", "_adjust_h",
    "_duration_to_relativedelta", "_progress_bar", "_create_ngrams", "_get_feature_counts",
    "_build_vocabulary", "_create_feature_matrix", "_log_sum_exp", "_construct_log_class_prior",
    "_construct_log_likelihood",
}


class Bail(Exception):
    pass


def clone(n):
    """deep copy of an AST without the analysis attributes (_parent would drag the whole module)"""
    if isinstance(n, ast.AST):
        new = n.__class__()
        for f in n._fields:
            if hasattr(n, f):
                setattr(new, f, clone(getattr(n, f)))
        for a in ("lineno", "col_offset", "end_lineno", "end_col_offset"):
            if hasattr(n, a):
                setattr(new, a, getattr(n, a))
        return new
    if isinstance(n, list):
        return [clone(x) for x in n]
    return n


def _is_simple(e):
    if isinstance(e, (ast.Name, ast.Constant)):
        return True
    if isinstance(e, ast.Attribute):
        return _is_simple(e.value)
    if isinstance(e, ast.Subscript) and isinstance(e.slice, ast.Constant):
        return _is_simple(e.value)
    if isinstance(e, ast.UnaryOp) and isinstance(e.operand, ast.Constant):
        return True
    return False


def _own_nodes(fn):
    """nodes of fn's body that belong to fn's own scope (not nested defs / lambdas /
    class bodies); comprehensions are included (their targets are filtered by callers)"""
    out = []
    stack = list(fn.body)
    while stack:
        n = stack.pop()
        out.append(n)
        if isinstance(n, (ast.FunctionDef, ast.AsyncFunctionDef, ast.Lambda, ast.ClassDef)):
            continue
        stack.extend(ast.iter_child_nodes(n))
    return out


def _comp_targets(fn):
    names = set()
    for n in _own_nodes(fn):
        if isinstance(n, (ast.ListComp, ast.SetComp, ast.DictComp, ast.GeneratorExp)):
            for g in n.generators:
                for t in ast.walk(g.target):
                    if isinstance(t, ast.Name):
                        names.add(t.id)
    return names


def _assigned_names(fn):
    """names bound in fn's own scope (assignment, for, with, except-as, import, def, walrus)"""
    names = set()
    for n in _own_nodes(fn):
        if isinstance(n, ast.Name) and isinstance(n.ctx, (ast.Store, ast.Del)):
            names.add(n.id)
        elif isinstance(n, (ast.FunctionDef, ast.AsyncFunctionDef, ast.ClassDef)):
            names.add(n.name)
        elif isinstance(n, ast.ExceptHandler) and n.name:
            names.add(n.name)
        elif isinstance(n, (ast.Import, ast.ImportFrom)):
            for a in n.names:
                names.add((a.asname or a.name).split(".")[0])
    return names


def _all_names(fn):
    return {n.id for n in ast.walk(fn) if isinstance(n, ast.Name)} | \
        {a.arg for a in ast.walk(fn) if isinstance(a, ast.arg)}


def _has_return(node):
    """a return statement that belongs to the function node is part of"""
    stack = [node]
    while stack:
        n = stack.pop()
        if isinstance(n, ast.Return):
            return True
        if isinstance(n, (ast.FunctionDef, ast.AsyncFunctionDef, ast.Lambda, ast.ClassDef)) and n is not node:
            continue
        stack.extend(ast.iter_child_nodes(n))
    return False


def _belongs(ret, body):
    """is the return statement part of this body (not of a nested def)?"""
    stack = list(body)
    while stack:
        n = stack.pop()
        if n is ret:
            return True
        if isinstance(n, (ast.FunctionDef, ast.AsyncFunctionDef, ast.Lambda, ast.ClassDef)):
            continue
        stack.extend(ast.iter_child_nodes(n))
    return False


def _has_yield(fn):
    for n in _own_nodes(fn):
        if isinstance(n, (ast.Yield, ast.YieldFrom)):
            return True
    return False


def _strip_doc(body):
    if body and isinstance(body[0], ast.Expr) and isinstance(body[0].value, ast.Constant) \
            and isinstance(body[0].value.value, str):
        return body[1:]
    return body


class _Rename(ast.NodeTransformer):
    """substitute parameter names by expressions and rename locals"""

    def __init__(self, subst, rename):
        self.subst = subst
        self.rename = rename

    def visit_Name(self, n):
        if n.id in self.subst and isinstance(n.ctx, ast.Load):
            return clone(self.subst[n.id])
        if n.id in self.rename:
            return ast.copy_location(ast.Name(id=self.rename[n.id], ctx=n.ctx), n)
        return n

    def visit_ExceptHandler(self, n):
        if n.name and n.name in self.rename:
            n.name = self.rename[n.name]
        return self.generic_visit(n)

    def visit_FunctionDef(self, n):
        if n.name in self.rename:
            n.name = self.rename[n.name]
        # nested scope: parameters of the nested function shadow
        shadow = {a.arg for a in ast.walk(n.args) if isinstance(a, ast.arg)}
        inner = _Rename({k: v for k, v in self.subst.items() if k not in shadow},
                        {k: v for k, v in self.rename.items() if k not in shadow})
        n.body = [inner.visit(s) for s in n.body]
        n.args = self.generic_visit(n.args)
        return n

    def visit_Lambda(self, n):
        shadow = {a.arg for a in ast.walk(n.args) if isinstance(a, ast.arg)}
        inner = _Rename({k: v for k, v in self.subst.items() if k not in shadow},
                        {k: v for k, v in self.rename.items() if k not in shadow})
        n.body = inner.visit(n.body)
        return n


class Inliner:
    def __init__(self, mod):
        self.mod = mod
        self.counter = 0
        self._caller_locals = set()
        self.inlined = []      # (caller qual, callee qual) for the evidence

    # -- callee resolution ---------------------------------------------------
    def resolve(self, call, caller, cls):
        f = call.func
        q = None
        skip_self = False
        obj_method = False
        self._recv = None
        ctor_of = getattr(self, "_ctor_target", None)
        if ctor_of is not None and isinstance(f, ast.Name) and f.id == getattr(self, "_objects", {}).get(ctor_of):
            # name = _C(args): the constructor body, run on the object called <name>
            q = "{}.__init__".format(f.id)
            g = self.mod.funcs.get(q) or getattr(self, "_synth_init", {}).get(f.id)
            if g is None or g.decorator_list or g.args.vararg or g.args.kwarg or g.args.posonlyargs:
                return None
            self._recv = ctor_of
            return g, q, [a.arg for a in g.args.args][1:], g.args.args[0].arg
        if isinstance(f, ast.Name):
            q = f.id
            if q in self._caller_locals:
                return None
            # nested helper of the caller
            nested = "{}.{}".format(caller._qual, f.id) if hasattr(caller, "_qual") else None
            if nested in self.mod.funcs:
                return None      # closures over the caller's frame are left alone
        elif isinstance(f, ast.Attribute) and isinstance(f.value, ast.Name):
            if f.value.id in ("self", "cls") and cls:
                q = "{}.{}".format(cls, f.attr)
                skip_self = True
            elif f.value.id in getattr(self, "_objects", {}):
                # a method of a local object of a private helper class (see _local_objects)
                q = "{}.{}".format(self._objects[f.value.id], f.attr)
                skip_self = True
                self._recv = f.value.id
                obj_method = True
            elif f.value.id in self.mod.classes:
                q = "{}.{}".format(f.value.id, f.attr)
        if q is None:
            return None
        short = q.split(".")[-1]
        if obj_method:
            if short.startswith("__") or q in ANCHORS:
                return None
        elif not short.startswith("_") or short.startswith("__") or short in ANCHORS:
            return None
        g = self.mod.funcs.get(q)
        if g is None and obj_method and short == "__init__":
            g = getattr(self, "_synth_init", {}).get(q.split(".")[0])
        if g is None and skip_self:
            # inherited from a base class of the same module
            cnode = self.mod.classes.get(cls)
            for b in (cnode.bases if cnode else []):
                if isinstance(b, ast.Name) and "{}.{}".format(b.id, f.attr) in self.mod.funcs:
                    g = self.mod.funcs["{}.{}".format(b.id, f.attr)]
                    break
        if g is None or isinstance(g, ast.AsyncFunctionDef):
            return None
        decos = [ast.unparse(d) for d in g.decorator_list]
        if any(d not in ("staticmethod", "classmethod") for d in decos):
            return None
        is_method = "." in q and getattr(g, "_cls", None) is not None
        static = "staticmethod" in decos
        if g.args.vararg or g.args.kwarg or g.args.posonlyargs:
            return None
        params = [a.arg for a in g.args.args]
        if is_method and not static:
            if not skip_self:
                return None
            params = params[1:]
            selfname = g.args.args[0].arg
        else:
            selfname = None
        return g, q, params, selfname

    # -- one call ---------------------------------------------------------------
    def bind(self, call, g, params, selfname, caller_names):
        """(prelude statements, substitution map, rename map)"""
        args = list(call.args)
        if any(isinstance(a, ast.Starred) for a in args) or any(k.arg is None for k in call.keywords):
            raise Bail()
        if len(args) > len(params):
            raise Bail()
        given = dict(zip(params, args))
        for k in call.keywords:
            if k.arg in given or (k.arg not in params and k.arg not in [a.arg for a in g.args.kwonlyargs]):
                raise Bail()
            given[k.arg] = k.value
        defaults = dict(zip(params[len(params) - len(g.args.defaults):], g.args.defaults)) \
            if g.args.defaults else {}
        for a, d in zip(g.args.kwonlyargs, g.args.kw_defaults):
            if d is not None:
                defaults[a.arg] = d
        allp = params + [a.arg for a in g.args.kwonlyargs]
        assigned = _assigned_names(g)
        comp = _comp_targets(g)
        self.counter += 1
        tag = self.counter
        subst, rename, prelude = {}, {}, []
        if selfname:
            subst[selfname] = ast.Name(id=getattr(self, "_recv", None) or "self", ctx=ast.Load())
            if selfname in assigned:
                raise Bail()
        uses = {}
        for n in ast.walk(g):
            if isinstance(n, ast.Name):
                uses[n.id] = uses.get(n.id, 0) + 1
        for p in allp:
            if p in given:
                e = given[p]
            elif p in defaults:
                e = defaults[p]
                if not isinstance(e, ast.Constant):
                    raise Bail()
            else:
                raise Bail()
            if _is_simple(e) and p not in assigned and p not in comp:
                subst[p] = e
            else:
                nm = p if (p not in caller_names) else "{}__{}".format(p, tag)
                caller_names.add(nm)
                rename[p] = nm
                prelude.append(ast.copy_location(
                    ast.Assign(targets=[ast.Name(id=nm, ctx=ast.Store())], value=clone(e),
                               lineno=call.lineno), call))
        for nm in sorted((assigned | comp) - set(allp)):
            if nm in caller_names:
                new = "{}__{}".format(nm, tag)
                rename[nm] = new
                caller_names.add(new)
            else:
                caller_names.add(nm)
        # free names of the helper must mean the same thing in the caller (module globals)
        free = {n for n in uses if n not in assigned and n not in allp and n != selfname and n not in comp}
        return prelude, subst, rename, free

    def body_of(self, g, subst, rename):
        body = [clone(s) for s in _strip_doc(g.body)]
        body = [s for s in body if not isinstance(s, (ast.Global, ast.Nonlocal))]
        tr = _Rename(subst, rename)
        return [tr.visit(s) for s in body]

    @staticmethod
    def globals_of(g):
        out = []
        for s in g.body:
            if isinstance(s, ast.Global):
                out.extend(s.names)
        for n in _own_nodes(g):
            if isinstance(n, ast.Global):
                out.extend(n.names)
            if isinstance(n, ast.Nonlocal):
                raise Bail()
        return sorted(set(out))

    # return -> assignment, remainder moved into the branches
    def conv(self, stmts, target, mode):
        """mode 'assign': return e -> target = e; 'drop': return e -> e (as statement);
        every path ends either by falling through (function returned or ended)."""
        out = []
        for i, s in enumerate(stmts):
            if isinstance(s, ast.Return):
                out.extend(self._ret(s, target, mode))
                return out
            if isinstance(s, ast.If) and _has_return(s):
                rest = stmts[i + 1:]
                new = ast.copy_location(ast.If(
                    test=s.test,
                    body=self.conv(list(s.body) + [clone(r) for r in rest], target, mode) or [ast.Pass()],
                    orelse=self.conv(list(s.orelse) + [clone(r) for r in rest], target, mode)), s)
                out.append(new)
                return out
            if _has_return(s):
                raise Bail()
            out.append(s)
        if mode == "assign":
            out.append(ast.Assign(targets=[clone(target)], value=ast.Constant(value=None),
                                  lineno=getattr(stmts[-1], "lineno", 0) if stmts else 0))
        return out

    def _ret(self, s, target, mode):
        if mode == "assign" and isinstance(target, (ast.Tuple, ast.List)) and isinstance(s.value, ast.Tuple) \
                and len(s.value.elts) == len(target.elts) and all(isinstance(t, ast.Name) for t in target.elts):
            # a, b = (x, y): element-wise, when no later element reads an earlier target
            names = [t.id for t in target.elts]
            ok = True
            for j, e in enumerate(s.value.elts):
                read = {n.id for n in ast.walk(e) if isinstance(n, ast.Name)}
                if read & set(names[:j]):
                    ok = False
            if ok:
                return [ast.copy_location(ast.Assign(targets=[clone(t)], value=e, lineno=s.lineno), s)
                        for t, e in zip(target.elts, s.value.elts)]
        if mode == "assign":
            val = s.value if s.value is not None else ast.Constant(value=None)
            return [ast.copy_location(ast.Assign(targets=[clone(target)], value=val,
                                                 lineno=s.lineno), s)]
        if s.value is not None and any(isinstance(n, (ast.Call, ast.Yield, ast.YieldFrom, ast.Await))
                                       for n in ast.walk(s.value)):
            return [ast.copy_location(ast.Expr(value=s.value), s)]
        return []

    # -- statements -----------------------------------------------------------------
    def inline_stmt(self, s, caller, cls, caller_names, caller_locals, is_tail, globs):
        """list of statements replacing s, or None when nothing was inlined"""
        call, form, target = None, None, None
        if isinstance(s, ast.Assign) and len(s.targets) == 1 and isinstance(s.value, ast.Call):
            call, form, target = s.value, "assign", s.targets[0]
        elif isinstance(s, ast.AnnAssign) and s.value is not None and isinstance(s.value, ast.Call) and s.simple:
            call, form, target = s.value, "assign", s.target
        elif isinstance(s, ast.Return) and isinstance(s.value, ast.Call):
            call, form = s.value, "return"
        elif isinstance(s, ast.Expr) and isinstance(s.value, ast.Call):
            call, form = s.value, "expr"
        elif isinstance(s, ast.Expr) and isinstance(s.value, ast.YieldFrom) and isinstance(s.value.value, ast.Call):
            call, form = s.value.value, "yieldfrom"
        if call is None:
            return None
        self._ctor_target = None
        if form == "assign" and isinstance(target, ast.Name) and target.id in getattr(self, "_objects", {}) \
                and isinstance(call.func, ast.Name) and call.func.id == self._objects[target.id]:
            self._ctor_target = target.id
            form = "expr"           # __init__ returns nothing; its stores go to <target>.<field>
        r = self.resolve(call, caller, cls)
        self._ctor_target = None
        if r is None:
            return None
        g, q, params, selfname = r
        if q in self._stack:
            return None
        gen = _has_yield(g)
        if gen != (form == "yieldfrom"):
            return None
        try:
            prelude, subst, rename, free = self.bind(call, g, params, selfname, caller_names)
            if free & caller_locals:
                raise Bail()
            gl = self.globals_of(g)
            body = self.body_of(g, subst, rename)
            if len(list(ast.walk(ast.Module(body=body, type_ignores=[])))) > 4000:
                raise Bail()
            if form == "return":
                new = body + [ast.copy_location(ast.Return(value=ast.Constant(value=None)), s)]
            elif form == "assign":
                if not isinstance(target, (ast.Name, ast.Attribute, ast.Tuple, ast.Subscript)):
                    raise Bail()
                if isinstance(target, ast.Tuple) and all(isinstance(t, ast.Name) for t in target.elts) and \
                        all(isinstance(r.value, ast.Tuple) and len(r.value.elts) == len(target.elts)
                            for r in ast.walk(ast.Module(body=body, type_ignores=[]))
                            if isinstance(r, ast.Return) and _belongs(r, body)):
                    new = self.conv(body, target, "assign")
                elif isinstance(target, ast.Tuple):
                    # unpacking: go through a temporary
                    self.counter += 1
                    tmp = ast.Name(id="_ret__{}".format(self.counter), ctx=ast.Store())
                    new = self.conv(body, tmp, "assign")
                    new.append(ast.copy_location(ast.Assign(
                        targets=[target], value=ast.Name(id=tmp.id, ctx=ast.Load()), lineno=s.lineno), s))
                else:
                    new = self.conv(body, target, "assign")
            elif form == "yieldfrom" and is_tail:
                new = body + [ast.copy_location(ast.Return(value=None), s)]
            else:
                new = self.conv(body, None, "drop")
        except Bail:
            return None
        for nm in gl:
            if nm not in globs:
                globs.append(nm)
        self.inlined.append((getattr(caller, "_qual", caller.name), q))
        out = prelude + new
        for n in out:
            ast.fix_missing_locations(n)
        return out or [ast.copy_location(ast.Pass(), s)]

    # a helper call nested in the expression of a simple statement: x = f(a).strip()  ->
    # _h = f(a); x = _h.strip()   (only when nothing with an effect is evaluated before it)
    def hoist(self, s, caller, cls):
        if isinstance(s, (ast.Assign, ast.AnnAssign, ast.AugAssign, ast.Return, ast.Expr)):
            root = s.value
        elif isinstance(s, ast.If):
            root = s.test
        else:
            return None
        if root is None:
            return None
        if isinstance(s, (ast.Assign, ast.AnnAssign, ast.Return, ast.Expr)) and isinstance(root, ast.Call) \
                and self.resolve(root, caller, cls) is not None:
            direct = root
        else:
            direct = None
        cands = []
        calls = []

        def walk(e, blocked):
            if isinstance(e, (ast.Lambda, ast.ListComp, ast.SetComp, ast.DictComp, ast.GeneratorExp)):
                return
            if isinstance(e, ast.Call):
                calls.append(e)
                if not blocked and e is not direct:
                    r = self.resolve(e, caller, cls)
                    if r is not None and r[1] not in self._stack and not _has_yield(r[0]):
                        body = _strip_doc(r[0].body)
                        if not (len(body) == 1 and isinstance(body[0], ast.Return)):
                            cands.append(e)
            if isinstance(e, ast.BoolOp):
                walk(e.values[0], blocked)
                for v in e.values[1:]:
                    walk(v, True)
                return
            if isinstance(e, ast.IfExp):
                walk(e.test, blocked)
                walk(e.body, True)
                walk(e.orelse, True)
                return
            for ch in ast.iter_child_nodes(e):
                if isinstance(ch, ast.expr):
                    walk(ch, blocked)
                elif isinstance(ch, ast.keyword):
                    walk(ch.value, blocked)
        walk(root, False)
        if not cands:
            return None

        def pos(n):
            return (n.lineno, n.col_offset)

        def inside(a, b):
            return any(x is a for x in ast.walk(b))
        # innermost first: a candidate that contains no other candidate
        cands.sort(key=pos)
        for c in cands:
            if any(o is not c and inside(o, c) for o in cands):
                continue
            before = [k for k in calls if k is not c and not inside(c, k) and pos(k) < pos(c) and not inside(k, c)]
            if before:
                continue
            self.counter += 1
            tmp = "_h__{}".format(self.counter)
            pre = ast.copy_location(ast.Assign(targets=[ast.Name(id=tmp, ctx=ast.Store())], value=c,
                                               lineno=c.lineno), s)

            class R(ast.NodeTransformer):
                def visit_Call(self, n):
                    if n is c:
                        return ast.copy_location(ast.Name(id=tmp, ctx=ast.Load()), n)
                    return self.generic_visit(n)
            if isinstance(s, ast.If):
                s.test = R().visit(s.test)
            else:
                s.value = R().visit(s.value)
            ast.fix_missing_locations(pre)
            return [pre, s]
        return None

    # expression helpers (single return expression) inside larger expressions
    def inline_exprs(self, node, caller, cls, caller_locals):
        inl = self

        class T(ast.NodeTransformer):
            def visit_FunctionDef(self, n):
                return n

            def visit_Lambda(self, n):
                return n

            def visit_Call(self, n):
                n = self.generic_visit(n)
                r = inl.resolve(n, caller, cls)
                if r is None:
                    return n
                g, q, params, selfname = r
                if q in inl._stack:
                    return n
                body = _strip_doc(g.body)
                if len(body) != 1 or not isinstance(body[0], ast.Return) or body[0].value is None:
                    return n
                if _has_yield(g):
                    return n
                try:
                    args = list(n.args)
                    if any(isinstance(a, ast.Starred) for a in args) or any(k.arg is None for k in n.keywords):
                        raise Bail()
                    if len(args) > len(params):
                        raise Bail()
                    given = dict(zip(params, args))
                    for k in n.keywords:
                        if k.arg in given or k.arg not in params:
                            raise Bail()
                        given[k.arg] = k.value
                    defaults = dict(zip(params[len(params) - len(g.args.defaults):], g.args.defaults)) \
                        if g.args.defaults else {}
                    uses = {}
                    for x in ast.walk(body[0].value):
                        if isinstance(x, ast.Name):
                            uses[x.id] = uses.get(x.id, 0) + 1
                    comp = _comp_targets(g)
                    subst = {}
                    if selfname:
                        subst[selfname] = ast.Name(id=getattr(inl, "_recv", None) or "self", ctx=ast.Load())
                    for p in params:
                        e = given.get(p, defaults.get(p))
                        if e is None or (p not in given and not isinstance(e, ast.Constant)):
                            raise Bail()
                        if p in comp:
                            raise Bail()
                        if not _is_simple(e) and uses.get(p, 0) > 1:
                            raise Bail()
                        subst[p] = e
                    free = {x for x in uses if x not in params and x != selfname and x not in comp}
                    if free & caller_locals:
                        raise Bail()
                    if any(isinstance(x, ast.NamedExpr) for x in ast.walk(body[0].value)):
                        raise Bail()
                except Bail:
                    return n
                inl.inlined.append((getattr(caller, "_qual", caller.name), q))
                new = _Rename(subst, {}).visit(clone(body[0].value))
                return ast.copy_location(new, n) if not hasattr(new, "lineno") else new
        return T().visit(node)

    # -- a function -----------------------------------------------------------------
    def function(self, fn, cls, depth=0):
        """inline helper calls in fn (in place on a copy made by the caller)"""
        self._stack = getattr(self, "_stack", [])
        qual = getattr(fn, "_qual", fn.name)
        self._stack.append(qual)
        saved_objects = getattr(self, "_objects", {})
        self._objects = self._local_objects(fn) if depth == 0 else {}
        try:
            for _round in range(MAX_DEPTH):
                caller_names = _all_names(fn)
                caller_locals = _assigned_names(fn) | {a.arg for a in ast.walk(fn.args) if isinstance(a, ast.arg)}
                self._caller_locals = caller_locals
                globs = []
                changed = [False]

                def block(stmts, tail):
                    out = []
                    for i, s in enumerate(stmts):
                        last = tail and i == len(stmts) - 1
                        h = self.hoist(s, fn, cls)
                        if h is not None:
                            changed[0] = True
                            out.extend(h)
                            continue
                        rep = self.inline_stmt(s, fn, cls, caller_names, caller_locals, last, globs)
                        if rep is not None:
                            changed[0] = True
                            out.extend(rep)
                            continue
                        if isinstance(s, (ast.FunctionDef, ast.AsyncFunctionDef, ast.ClassDef)):
                            out.append(s)
                            continue
                        for fld in ("body", "orelse", "finalbody"):
                            sub = getattr(s, fld, None)
                            if isinstance(sub, list) and sub and isinstance(sub[0], ast.stmt):
                                in_loop = isinstance(s, (ast.For, ast.While, ast.Try, ast.With))
                                setattr(s, fld, block(sub, last and not in_loop) or [ast.Pass()])
                        for h in getattr(s, "handlers", []) or []:
                            h.body = block(h.body, False) or [ast.Pass()]
                        # expression helpers inside the statement's own expressions
                        for fld, val in list(ast.iter_fields(s)):
                            if isinstance(val, ast.expr):
                                n0 = len(self.inlined)
                                setattr(s, fld, self.inline_exprs(val, fn, cls, caller_locals))
                                if len(self.inlined) != n0:
                                    changed[0] = True
                            elif isinstance(val, list) and val and isinstance(val[0], ast.expr):
                                n0 = len(self.inlined)
                                setattr(s, fld, [self.inline_exprs(v, fn, cls, caller_locals) for v in val])
                                if len(self.inlined) != n0:
                                    changed[0] = True
                        out.append(s)
                    return out
                fn.body = block(fn.body, True)
                if globs:
                    have = {nm for s in fn.body if isinstance(s, ast.Global) for nm in s.names}
                    new = [g for g in globs if g not in have]
                    if new:
                        k = 1 if (fn.body and isinstance(fn.body[0], ast.Expr)
                                  and isinstance(fn.body[0].value, ast.Constant)) else 0
                        fn.body.insert(k, ast.Global(names=new, lineno=fn.lineno, col_offset=0))
                if not changed[0]:
                    break
            if self._objects:
                self._scalar_replace(fn)
        finally:
            self._stack.pop()
            self._objects = saved_objects
        return fn

    # -- local objects of private helper classes ----------------------------------------
    def _simple_private_class(self, name):
        """a private class of the module with no base, no class-level state other than annotated
        fields, no properties and no dunder methods besides __init__: its instances are records
        with methods"""
        c = self.mod.classes.get(name)
        if c is None or not name.startswith("_") or name in ANCHORS:
            return None
        if any(not (isinstance(b, ast.Name) and b.id == "object") for b in c.bases) or c.keywords:
            return None
        decos = [ast.unparse(d) for d in c.decorator_list]
        if any(not (d == "dataclass" or d.startswith("dataclass(") or d.endswith(".dataclass")) for d in decos):
            return None
        for st in c.body:
            if isinstance(st, ast.Expr) and isinstance(st.value, ast.Constant):
                continue
            if isinstance(st, ast.Pass):
                continue
            if isinstance(st, ast.AnnAssign) and isinstance(st.target, ast.Name):
                if not decos:
                    return None
                continue
            if isinstance(st, ast.Assign) and all(isinstance(t, ast.Name) and t.id == "__slots__" for t in st.targets):
                continue
            if isinstance(st, ast.FunctionDef):
                if st.decorator_list:
                    return None
                if st.name.startswith("__") and st.name != "__init__":
                    return None
                continue
            return None
        return c

    def _local_objects(self, fn):
        """local name -> class, for names bound exactly once, by NAME = _C(...), to an instance of a
        simple private class and used only as NAME.<attr>"""
        binds = {}
        for n in _own_nodes(fn):
            if isinstance(n, ast.Assign) and len(n.targets) == 1 and isinstance(n.targets[0], ast.Name) \
                    and isinstance(n.value, ast.Call) and isinstance(n.value.func, ast.Name):
                binds.setdefault(n.targets[0].id, []).append(n.value.func.id)
            elif isinstance(n, ast.Name) and isinstance(n.ctx, ast.Store):
                binds.setdefault(n.id, [])
        out = {}
        stores = {}
        for n in _own_nodes(fn):
            if isinstance(n, ast.Name) and isinstance(n.ctx, ast.Store):
                stores[n.id] = stores.get(n.id, 0) + 1
        params = {a.arg for a in ast.walk(fn.args) if isinstance(a, ast.arg)}
        for name, classes in binds.items():
            if len(classes) != 1 or stores.get(name, 0) != 1 or name in params:
                continue
            c = self._simple_private_class(classes[0])
            if c is None:
                continue
            # every other use is NAME.<attr>
            ok = True
            attr_parents = set()
            for n in ast.walk(fn):
                if isinstance(n, ast.Attribute) and isinstance(n.value, ast.Name) and n.value.id == name:
                    attr_parents.add(id(n.value))
            for n in ast.walk(fn):
                if isinstance(n, ast.Name) and n.id == name and isinstance(n.ctx, ast.Load) \
                        and id(n) not in attr_parents:
                    ok = False
            if not ok:
                continue
            out[name] = classes[0]
            if classes[0] + ".__init__" not in self.mod.funcs:
                synth = self._dataclass_init(c)
                if synth is None:
                    del out[name]
                    continue
                self._synth_init = getattr(self, "_synth_init", {})
                self._synth_init[classes[0]] = synth
        return out

    @staticmethod
    def _dataclass_init(c):
        """the __init__ a dataclass generates: self.f = f for every annotated field, with the
        field's default or default_factory() as the parameter default"""
        args, defaults, body = [ast.arg(arg="self")], [], []
        for st in c.body:
            if not (isinstance(st, ast.AnnAssign) and isinstance(st.target, ast.Name)):
                continue
            if "ClassVar" in ast.unparse(st.annotation):
                continue
            name = st.target.id
            v = st.value
            if v is None:
                if defaults:
                    return None
                args.append(ast.arg(arg=name))
                body.append(ast.Assign(targets=[ast.Attribute(value=ast.Name(id="self", ctx=ast.Load()), attr=name,
                                                              ctx=ast.Store())], value=ast.Name(id=name, ctx=ast.Load())))
                continue
            if isinstance(v, ast.Call) and isinstance(v.func, ast.Name) and v.func.id == "field":
                kw = {k.arg: k.value for k in v.keywords}
                if "default_factory" in kw:
                    # not a parameter the call sites here use: the factory runs in the constructor
                    body.append(ast.Assign(targets=[ast.Attribute(value=ast.Name(id="self", ctx=ast.Load()), attr=name,
                                                                  ctx=ast.Store())],
                                           value=ast.Call(func=clone(kw["default_factory"]), args=[], keywords=[])))
                    continue
                if "default" in kw:
                    v = kw["default"]
                else:
                    return None
            if not isinstance(v, ast.Constant):
                return None
            args.append(ast.arg(arg=name))
            defaults.append(clone(v))
            body.append(ast.Assign(targets=[ast.Attribute(value=ast.Name(id="self", ctx=ast.Load()), attr=name,
                                                          ctx=ast.Store())], value=ast.Name(id=name, ctx=ast.Load())))
        fn = ast.FunctionDef(name="__init__", args=ast.arguments(posonlyargs=[], args=args, vararg=None, kwonlyargs=[],
                                                                 kw_defaults=[], kwarg=None, defaults=defaults),
                             body=body or [ast.Pass()], decorator_list=[], returns=None, type_comment=None,
                             lineno=getattr(c, "lineno", 1), col_offset=0)
        ast.fix_missing_locations(fn)
        fn._cls = c.name
        fn._qual = c.name + ".__init__"
        return fn

    def _scalar_replace(self, fn):
        """after the methods and the constructor of a local object were inlined, NAME.<field> is all
        that is left of it: the fields become locals NAME__<field>"""
        for name, cname in self._objects.items():
            c = self.mod.classes.get(cname)
            methods = {st.name for st in c.body if isinstance(st, ast.FunctionDef)}
            ok = True
            attr_parents = set()
            for n in ast.walk(fn):
                if isinstance(n, ast.Attribute) and isinstance(n.value, ast.Name) and n.value.id == name:
                    attr_parents.add(id(n.value))
                    if n.attr in methods:
                        ok = False      # a method call that was not inlined
            for n in ast.walk(fn):
                if isinstance(n, ast.Name) and n.id == name and id(n) not in attr_parents:
                    ok = False          # the object itself is still used (construction not inlined, escape)
            if not ok:
                continue

            class _F(ast.NodeTransformer):
                def visit_Attribute(self, n):
                    n = self.generic_visit(n)
                    if isinstance(n.value, ast.Name) and n.value.id == name:
                        return ast.copy_location(ast.Name(id="{}__{}".format(name, n.attr), ctx=n.ctx), n)
                    return n
            fn.body = [_F().visit(st) for st in fn.body]
            ast.fix_missing_locations(fn)
            self._propagate_copies(fn, name + "__")

    @staticmethod
    def _propagate_copies(fn, prefix):
        """a field local that is bound once, to a name that is itself bound at most once (a parameter,
        a closure made before) or to a constant, is that value: uses are replaced, the binding goes"""
        stores, params = {}, {a.arg for a in ast.walk(fn.args) if isinstance(a, ast.arg)}
        for n in _own_nodes(fn):
            if isinstance(n, ast.Name) and isinstance(n.ctx, (ast.Store, ast.Del)):
                stores[n.id] = stores.get(n.id, 0) + 1
            elif isinstance(n, ast.arg):
                pass
        # names rebound in nested functions / comprehensions count as stores too
        for n in ast.walk(fn):
            if isinstance(n, (ast.Global, ast.Nonlocal)):
                for nm in n.names:
                    stores[nm] = stores.get(nm, 0) + 2
        copies = {}
        for st in ast.walk(fn):
            if isinstance(st, ast.Assign) and len(st.targets) == 1 and isinstance(st.targets[0], ast.Name) \
                    and st.targets[0].id.startswith(prefix) and stores.get(st.targets[0].id) == 1:
                v = st.value
                if isinstance(v, ast.Constant) or (
                        isinstance(v, ast.Name) and v.id != st.targets[0].id and
                        (stores.get(v.id, 0) == 0 and v.id in params or stores.get(v.id, 0) == 1)):
                    copies[st.targets[0].id] = (v, st)
        if not copies:
            return
        dead = {id(st) for _v, st in copies.values()}

        class _P(ast.NodeTransformer):
            def visit_Name(self, n):
                if isinstance(n.ctx, ast.Load) and n.id in copies:
                    return ast.copy_location(clone(copies[n.id][0]), n)
                return n

        def prune(stmts):
            out = []
            for st in stmts:
                if id(st) in dead:
                    continue
                for fld in ("body", "orelse", "finalbody"):
                    sub = getattr(st, fld, None)
                    if isinstance(sub, list) and sub and isinstance(sub[0], ast.stmt):
                        setattr(st, fld, prune(sub) or [ast.Pass()])
                for h in getattr(st, "handlers", []) or []:
                    h.body = prune(h.body) or [ast.Pass()]
                out.append(st)
            return out
        fn.body = prune(fn.body)
        fn.body = [_P().visit(st) for st in fn.body]
        ast.fix_missing_locations(fn)


class _Normalise(ast.NodeTransformer):
    """idiom normalisation of the inlined view: typing.cast(T, e) -> e; in a loop body
    'if C: continue' followed by the rest -> 'if not C: <rest>' (guard clause -> nesting)"""

    def visit_Call(self, n):
        n = self.generic_visit(n)
        if isinstance(n.func, ast.Name) and n.func.id == "cast" and len(n.args) == 2 and not n.keywords:
            return n.args[1]
        return n

    # [f(m.group()) for m in re.finditer(P, x)]  ->  [f(m) for m in re.findall(P, x)]  when the
    # pattern P (a literal) has no capture group: findall then returns the whole matches
    @staticmethod
    def _groupless(pat_node):
        if not (isinstance(pat_node, ast.Constant) and isinstance(pat_node.value, str)):
            return False
        try:
            from . import e2_regex as e2
            P = e2.parse(pat_node.value, version1=False)
            return not any(isinstance(x, e2.Group) for x in e2.walk(P.root))
        except Exception:
            return False

    def _finditer_comp(self, n):
        if len(n.generators) != 1:
            return n
        g = n.generators[0]
        it = g.iter
        if not (isinstance(it, ast.Call) and isinstance(it.func, ast.Attribute) and it.func.attr == "finditer"
                and isinstance(it.func.value, ast.Name) and it.func.value.id in ("re", "regex")
                and len(it.args) == 2 and not it.keywords and isinstance(g.target, ast.Name)
                and self._groupless(it.args[0])):
            return n
        var = g.target.id
        uses = []
        whole = []
        parts = [n.elt] if not isinstance(n, ast.DictComp) else [n.key, n.value]
        for root in parts + list(g.ifs):
            for x in ast.walk(root):
                if isinstance(x, ast.Name) and x.id == var:
                    uses.append(x)
                if isinstance(x, ast.Call) and isinstance(x.func, ast.Attribute) and x.func.attr == "group" \
                        and isinstance(x.func.value, ast.Name) and x.func.value.id == var and not x.keywords \
                        and (not x.args or (len(x.args) == 1 and isinstance(x.args[0], ast.Constant)
                                            and x.args[0].value == 0)):
                    whole.append(x)
        if not uses or len(uses) != len(whole):
            return n

        class _R(ast.NodeTransformer):
            def visit_Call(self, c):
                if any(c is w for w in whole):
                    return ast.copy_location(ast.Name(id=var, ctx=ast.Load()), c)
                return self.generic_visit(c)
        if isinstance(n, ast.DictComp):
            n.key, n.value = _R().visit(n.key), _R().visit(n.value)
        else:
            n.elt = _R().visit(n.elt)
        g.ifs = [_R().visit(i_) for i_ in g.ifs]
        it.func.attr = "findall"
        return n

    def visit_ListComp(self, n):
        return self._finditer_comp(self.generic_visit(n))

    def visit_GeneratorExp(self, n):
        return self._finditer_comp(self.generic_visit(n))

    @staticmethod
    def _neg(t):
        if isinstance(t, ast.UnaryOp) and isinstance(t.op, ast.Not):
            return t.operand
        return ast.copy_location(ast.UnaryOp(op=ast.Not(), operand=t), t)

    def _loop_body(self, body):
        out = []
        for i, s in enumerate(body):
            if isinstance(s, ast.If) and not s.orelse and s.body and isinstance(s.body[-1], ast.Continue) \
                    and i + 1 < len(body):
                rest = self._loop_body(body[i + 1:])
                if len(s.body) == 1:
                    new = ast.copy_location(ast.If(test=self._neg(s.test), body=rest, orelse=[]), s)
                else:
                    new = ast.copy_location(ast.If(test=s.test, body=s.body[:-1], orelse=rest), s)
                out.append(new)
                return out
            out.append(s)
        return out

    @staticmethod
    def _leaves(stmts):
        if not stmts:
            return False
        last = stmts[-1]
        if isinstance(last, (ast.Return, ast.Raise)):
            return True
        if isinstance(last, ast.If) and last.orelse:
            return _Normalise._leaves(last.body) and _Normalise._leaves(last.orelse)
        return False

    def _guards(self, body):
        """'if C: ...; return' followed by the rest  ->  'if C: ...; return  else: <rest>'"""
        out = []
        for i, s in enumerate(body):
            if isinstance(s, ast.If) and not s.orelse and self._leaves(s.body) and i + 1 < len(body):
                s.orelse = self._guards(body[i + 1:])
                out.append(s)
                return out
            out.append(s)
        return out

    def visit_FunctionDef(self, n):
        n = self.generic_visit(n)
        n.body = self._guards(n.body)
        return n

    def visit_If(self, n):
        n = self.generic_visit(n)
        n.body = self._guards(n.body)
        n.orelse = self._guards(n.orelse)
        return n

    def visit_With(self, n):
        n = self.generic_visit(n)
        n.body = self._guards(n.body)
        return n

    def visit_Try(self, n):
        n = self.generic_visit(n)
        n.body = self._guards(n.body)
        return n

    def visit_For(self, n):
        n = self.generic_visit(n)
        n.body = self._loop_body(n.body)
        return n

    def visit_While(self, n):
        n = self.generic_visit(n)
        n.body = self._loop_body(n.body)
        return n


def _top_defs(tree):
    """name -> defining statement, for module-level functions and single-name assignments"""
    out = {}
    for st in tree.body:
        if isinstance(st, (ast.FunctionDef, ast.AsyncFunctionDef)):
            out[st.name] = st
        elif isinstance(st, ast.Assign) and len(st.targets) == 1 and isinstance(st.targets[0], ast.Name):
            out.setdefault(st.targets[0].id, st)
        elif isinstance(st, ast.AnnAssign) and isinstance(st.target, ast.Name) and st.value is not None:
            out.setdefault(st.target.id, st)
    return out


def _bound_names(tree):
    names = set()
    for st in tree.body:
        if isinstance(st, (ast.FunctionDef, ast.AsyncFunctionDef, ast.ClassDef)):
            names.add(st.name)
        elif isinstance(st, (ast.Import, ast.ImportFrom)):
            for a in st.names:
                names.add((a.asname or a.name).split(".")[0])
        else:
            for n in ast.walk(st):
                if isinstance(n, ast.Name) and isinstance(n.ctx, ast.Store):
                    names.add(n.id)
    return names


def grafted_tree(mod, model, depth=0):
    """A clone of the module's tree in which functions and module-level values imported from another
    module *of the package* are replaced by copies of their definitions (under the imported name),
    together with the module-level definitions of that module they refer to.  Code that a maintainer
    moves to a new module and imports back is thereby read where it is used; classes are not
    grafted (they are resolved through the model's environment)."""
    tree = clone(mod.tree)
    if model is None or depth > 2:
        return tree
    bound = _bound_names(tree)
    body = []
    for st in tree.body:
        if not isinstance(st, ast.ImportFrom) or any(a.name == "*" for a in st.names):
            body.append(st)
            continue
        full = model.resolve_import(mod, st)
        if full not in model.mods or full == mod.name:
            body.append(st)
            continue
        src = model.mod(full)
        src_tree = grafted_tree(src, model, depth + 1)
        defs = _top_defs(src_tree)
        keep = []
        grafts = []
        done = set()

        def graft(name, as_name):
            d = defs.get(name)
            if d is None or (name, as_name) in done:
                return False
            done.add((name, as_name))
            node = clone(d)
            origin = getattr(d, "_origin_rel", None) or src.rel
            for x in ast.walk(node):
                x._origin_rel = origin
            node._origin_name = getattr(d, "_origin_name", None) or name
            if isinstance(node, (ast.FunctionDef, ast.AsyncFunctionDef)):
                node.name = as_name
            elif isinstance(node, ast.Assign):
                node.targets[0].id = as_name
            else:
                node.target.id = as_name
            # what the definition refers to in its own module comes along (under its own name),
            # unless the importing module binds that name itself
            for x in ast.walk(d):
                if isinstance(x, ast.Name) and isinstance(x.ctx, ast.Load) and x.id in defs \
                        and x.id != name and x.id not in bound:
                    if graft(x.id, x.id):
                        bound.add(x.id)
            grafts.append(node)
            return True
        for a in st.names:
            if not graft(a.name, a.asname or a.name):
                keep.append(a)
        if keep:
            st.names = keep
            body.append(st)
        body.extend(grafts)
    tree.body = body
    return tree


def _is_cm_deco(d):
    return (isinstance(d, ast.Name) and d.id == "contextmanager") or \
        (isinstance(d, ast.Attribute) and d.attr == "contextmanager")


class _InlineContextManagers(ast.NodeTransformer):
    """with cm(args): BODY, cm a same-module @contextmanager generator with exactly one bare
    'yield' statement and no return  ->  the generator's body with the yield replaced by BODY
    (parameters bound by assignments, the generator's own names renamed apart).  That is what
    contextlib runs, as long as BODY does not return/break out of the with (then the code after
    the yield would be skipped differently): such with-statements are left alone."""

    def __init__(self, funcs):
        self.funcs = funcs
        self.n = 0

    def visit_With(self, w):
        w = self.generic_visit(w)
        if len(w.items) != 1 or w.items[0].optional_vars is not None:
            return w
        call = w.items[0].context_expr
        if not (isinstance(call, ast.Call) and isinstance(call.func, ast.Name)):
            return w
        g = self.funcs.get(call.func.id)
        if g is None or not any(_is_cm_deco(d) for d in g.decorator_list) or len(g.decorator_list) != 1:
            return w
        own = []
        stack = list(g.body)
        while stack:
            x = stack.pop()
            if isinstance(x, (ast.FunctionDef, ast.AsyncFunctionDef, ast.Lambda, ast.ClassDef)):
                continue
            own.append(x)
            stack.extend(ast.iter_child_nodes(x))
        yields = [x for x in own if isinstance(x, (ast.Yield, ast.YieldFrom))]
        if len(yields) != 1 or not isinstance(yields[0], ast.Yield) or yields[0].value is not None:
            return w
        if any(isinstance(x, ast.Return) for x in own):
            return w
        ystmt = [x for x in own if isinstance(x, ast.Expr) and x.value is yields[0]]
        if len(ystmt) != 1:
            return w
        # the body must leave the with-statement only by falling off its end or by an exception
        def leaves(stmts, in_loop):
            for x in stmts:
                if isinstance(x, ast.Return):
                    return True
                if isinstance(x, (ast.Break, ast.Continue)) and not in_loop:
                    return True
                if isinstance(x, (ast.FunctionDef, ast.AsyncFunctionDef, ast.ClassDef)):
                    continue
                inner_loop = in_loop or isinstance(x, (ast.For, ast.While))
                for fld in ("body", "orelse", "finalbody"):
                    sub = getattr(x, fld, None)
                    if isinstance(sub, list) and sub and isinstance(sub[0], ast.stmt):
                        if leaves(sub, inner_loop if fld == "body" else in_loop):
                            return True
                for h in getattr(x, "handlers", []) or []:
                    if leaves(h.body, in_loop):
                        return True
            return False
        if leaves(w.body, False):
            return w
        a = g.args
        if a.vararg or a.kwarg or a.kwonlyargs or a.posonlyargs or any(isinstance(x, ast.Starred) for x in call.args) \
                or any(k.arg is None for k in call.keywords):
            return w
        names = [p.arg for p in a.args]
        bound = {}
        for nm, v in zip(names, call.args):
            bound[nm] = v
        for k in call.keywords:
            if k.arg not in names or k.arg in bound:
                return w
            bound[k.arg] = k.value
        defaults = dict(zip(names[len(names) - len(a.defaults):], a.defaults))
        for nm in names:
            if nm not in bound:
                if nm not in defaults:
                    return w
                bound[nm] = defaults[nm]
        self.n += 1
        suffix = "__cm{}".format(self.n)
        local = set(names)
        for x in own:
            if isinstance(x, ast.Name) and isinstance(x.ctx, ast.Store):
                local.add(x.id)
            if isinstance(x, ast.ExceptHandler) and x.name:
                local.add(x.name)

        class _Ren(ast.NodeTransformer):
            def visit_Name(self, n_):
                if n_.id in local:
                    return ast.copy_location(ast.Name(id=n_.id + suffix, ctx=n_.ctx), n_)
                return n_

            def visit_ExceptHandler(self, h):
                h = self.generic_visit(h)
                if h.name in local:
                    h.name = h.name + suffix
                return h
        body = [_Ren().visit(clone(st)) for st in g.body
                if not (isinstance(st, ast.Expr) and isinstance(st.value, ast.Constant))]
        with_body = w.body

        class _Put(ast.NodeTransformer):
            def visit_Expr(self, e):
                if isinstance(e.value, ast.Yield) and e.value.value is None:
                    return with_body
                return e
        body = [_Put().visit(st) for st in body]
        flat = []
        for st in body:
            flat.extend(st if isinstance(st, list) else [st])
        pre = [ast.copy_location(ast.Assign(targets=[ast.Name(id=nm + suffix, ctx=ast.Store())], value=bound[nm]), w)
               for nm in names]
        out = pre + flat
        for st in out:
            ast.fix_missing_locations(st)
        return out


def inlined_module(mod, model=None):
    """A copy of *mod* (an e1 Mod) in which every function has its helper calls inlined; with a
    *model*, definitions imported from other modules of the package are grafted in first."""
    if model is not None:
        base = copy.copy(mod)
        base.tree = grafted_tree(mod, model)
        ast.fix_missing_locations(base.tree)
        for node in ast.walk(base.tree):
            for ch in ast.iter_child_nodes(node):
                ch._parent = node
        base.funcs = {}
        base.classes = {}
        base._index()
        mod = base
    if any(any(_is_cm_deco(d) for d in f_.decorator_list) for f_ in mod.funcs.values()):
        base = copy.copy(mod)
        t2 = clone(mod.tree)
        for a_, b_ in zip(ast.walk(mod.tree), ast.walk(t2)):
            if hasattr(a_, "_origin_rel"):
                b_._origin_rel = a_._origin_rel
            if hasattr(a_, "_origin_name"):
                b_._origin_name = a_._origin_name
        top = {st.name: st for st in t2.body if isinstance(st, ast.FunctionDef)}
        base.tree = _InlineContextManagers(top).visit(t2)
        ast.fix_missing_locations(base.tree)
        for node in ast.walk(base.tree):
            for ch in ast.iter_child_nodes(node):
                ch._parent = node
        base.funcs = {}
        base.classes = {}
        base._index()
        mod = base
    new = copy.copy(mod)
    new.tree = clone(mod.tree)
    for a_, b_ in zip(ast.walk(mod.tree), ast.walk(new.tree)):
        if hasattr(a_, "_origin_rel"):
            b_._origin_rel = a_._origin_rel
        if hasattr(a_, "_origin_name"):
            b_._origin_name = a_._origin_name
    new.funcs = {}
    new.classes = {}
    new._index()
    inl = Inliner(mod)        # callees are always taken from the original module
    # inner functions first is not needed: callees come from the original tree
    for q, fn in sorted(new.funcs.items(), key=lambda kv: kv[0].count(".")):
        cls = getattr(fn, "_cls", None)
        fn._qual = q
        inl.function(fn, cls)
    new.tree = _Normalise().visit(new.tree)
    ast.fix_missing_locations(new.tree)
    new.funcs = {}
    new.classes = {}
    new._index()
    for node in ast.walk(new.tree):
        for ch in ast.iter_child_nodes(node):
            ch._parent = node
    new.inlined = sorted(set(inl.inlined))
    # helpers of which no reference is left: their bodies are analysed in their callers' context
    callees = {q for _c, q in new.inlined}
    refs = {}
    for q, fn in new.funcs.items():
        for n in ast.walk(fn):
            nm = n.id if isinstance(n, ast.Name) else (n.attr if isinstance(n, ast.Attribute) else None)
            if nm is not None:
                refs.setdefault(nm, set()).add(q)
    for n in ast.walk(new.tree):
        pass
    new.fully_inlined = set()
    for q in callees:
        short = q.split(".")[-1]
        users = {u for u in refs.get(short, set()) if u != q and not u.startswith(q + ".")}
        if not users:
            new.fully_inlined.add(q)
    new.is_inlined_view = True
    return new
