"""E7 — static reader of the shipped model pickle: opcode stream only, no unpickling."""
import bz2
import os
import pickletools

from .core import AnalysisError


def read_model(path):
    """Return (vocabulary keys, referenced globals, opcode count)."""
    if not os.path.exists(path):
        raise AnalysisError("shipped model file missing: {}".format(path))
    with bz2.open(path, "rb") as fd:
        data = fd.read()
    ops = list(pickletools.genops(data))
    globals_ = []
    strings = []
    vocab = None
    # reconstruct: the dict stored under the attribute name 'vocabulary'
    # pattern: ... 'vocabulary' EMPTY_DICT/(MARK str int str int ... SETITEMS) ...
    i = 0
    n = len(ops)
    last_strs = []
    while i < n:
        op, arg, pos = ops[i]
        name = op.name
        if name in ("BINUNICODE", "SHORT_BINUNICODE", "UNICODE", "BINUNICODE8"):
            last_strs.append(arg)
            if len(last_strs) > 2:
                last_strs.pop(0)
            if arg == "vocabulary":
                keys, j = _read_dict(ops, i + 1)
                if keys is not None:
                    vocab = keys
                    i = j
                    continue
        if name == "STACK_GLOBAL":
            globals_.append(tuple(last_strs[-2:]))
        if name == "GLOBAL":
            globals_.append(tuple(arg.split(" ")))
        i += 1
    if vocab is None:
        raise AnalysisError("no 'vocabulary' dict found in the model pickle")
    return vocab, globals_, len(ops)


def _read_dict(ops, i):
    n = len(ops)
    # skip memoize ops
    while i < n and ops[i][0].name in ("MEMOIZE", "BINPUT", "LONG_BINPUT", "PUT", "FRAME"):
        i += 1
    if i >= n or ops[i][0].name != "EMPTY_DICT":
        return None, i
    i += 1
    keys = []
    depth = 0
    pending = None
    while i < n:
        name = ops[i][0].name
        arg = ops[i][1]
        if name in ("MEMOIZE", "BINPUT", "LONG_BINPUT", "PUT", "FRAME"):
            pass
        elif name == "MARK":
            depth += 1
        elif name in ("BINUNICODE", "SHORT_BINUNICODE", "UNICODE", "BINUNICODE8"):
            pending = arg
        elif name in ("BININT", "BININT1", "BININT2", "INT", "LONG1", "LONG"):
            if pending is not None:
                keys.append(pending)
                pending = None
        elif name == "SETITEMS":
            depth -= 1
            if depth <= 0:
                # further batches may follow (pickle splits at 1000 items)
                j = i + 1
                while j < n and ops[j][0].name in ("MEMOIZE", "BINPUT", "LONG_BINPUT", "PUT", "FRAME"):
                    j += 1
                if j < n and ops[j][0].name == "MARK":
                    i = j
                    continue
                return keys, i + 1
        elif name == "SETITEM":
            pass
        elif name in ("BINGET", "LONG_BINGET", "GET"):
            pending = None
        else:
            return keys, i
        i += 1
    return keys, i
