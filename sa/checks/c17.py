"""C17 — training data are truthful: one sample per trace prefix, labelled by value
(decided clauses; DESIGN.md §4 C17)."""
import ast
import copy

from ..core import AnalysisError, Undecided
from .. import e1_model as e1
from ..e3_rules import get_engine
from .common import norm, calls_in
from . import c18


# clauses that report a construct they found (a write, a computed value), not a pattern they
# failed to find: the idiom guard of sa/idioms.py does not apply to them
IDIOM_GUARD_EXEMPT = {"prefixes", "round-trip", "value-fields", "eq-hash"}


def check(ctx, rep, tier):
    rep.describe("label", "in both dataset builders the label is an equality between the "
                 "candidate's resolution and the gold value (== on value-comparing classes, or "
                 "equality of their bound-free text forms); nothing else enters it")
    rep.describe("prefixes", "the sample loop produces the trace prefixes of length 1..n, each "
                 "exactly once, all with the same label (symbolic evaluation of the loop bounds "
                 "and the slice for n = 0..6)")
    rep.describe("value-fields", "equality of resolutions is value equality (imported from C18)")
    rep.describe("training-entry", "the training script feeds the builders' (X, y) unchanged to "
                 "the trainer")
    cm = ctx.imod("ctparse.corpus")
    builders = []
    for q, f in cm.funcs.items():
        if "." in q:
            continue
        if any(isinstance(n, ast.Call) and e1.callee_name(n.func) == "ctparse_gen" for n in ast.walk(f)):
            builders.append(f)
    rep.count("dataset_builders", len(builders), 2)
    for f in builders:
        _builder(ctx, rep, cm, f)
    eng = get_engine(ctx)
    names, pf, _ = c18.resolution_classes(ctx)
    for name in names:
        c18._value_fields(ctx, rep, eng, name)
    c18._eq_hash(ctx, rep)
    # a builder that labels by the bound-free text form relies on that form being faithful
    if any("nb_str" in norm(f) for f in builders):
        rep.describe("print-parse", "the text form used for labelling prints every value field "
                     "(imported from C18)")
        c18._time_print_parse(ctx, rep)
        c18._interval_print_parse(ctx, rep)
        c18._duration_print_parse(ctx, rep)
    _entry(ctx, rep)
    rep.assume("not decided: monotonicity of the retrained score under duplication of a positive "
               "example (a theorem about the estimator over all corpora)")


def _builder(ctx, rep, cm, f):
    c = "{}::{}".format(cm.rel, f.name)
    # the loop over candidates
    loops = [n for n in ast.walk(f) if isinstance(n, ast.For) and isinstance(n.iter, ast.Call)
             and e1.callee_name(n.iter.func) == "ctparse_gen"]
    enum_target = None
    if not loops:
        # for i, parse in enumerate(ctparse_gen(...)[, start]):
        for n in ast.walk(f):
            if isinstance(n, ast.For) and isinstance(n.iter, ast.Call) and e1.callee_name(n.iter.func) == "enumerate" \
                    and n.iter.args and isinstance(n.iter.args[0], ast.Call) \
                    and e1.callee_name(n.iter.args[0].func) == "ctparse_gen" \
                    and isinstance(n.target, ast.Tuple) and len(n.target.elts) == 2:
                loops.append(n)
                enum_target = n.target.elts[1]
    if not loops:
        raise AnalysisError("anchor vanished: candidate loop in " + f.name)
    loop = loops[0]
    pv = norm(enum_target if enum_target is not None else loop.target)
    # label assignment
    label = None
    for a in ast.walk(loop):
        if isinstance(a, ast.Assign) and len(a.targets) == 1 and isinstance(a.targets[0], ast.Name) \
                and isinstance(a.value, ast.Compare):
            if pv + ".resolution" in norm(a.value):
                label = a
    if label is None:
        rep.violated("label", c + "::label", cm.where(loop), "no label of the form <resolution> == <gold>")
        return
    cmpn = label.value
    ok = len(cmpn.ops) == 1 and isinstance(cmpn.ops[0], ast.Eq)
    left, right = norm(cmpn.left), norm(cmpn.comparators[0])
    forms = {pv + ".resolution", pv + ".resolution.nb_str()"}
    side_ok = left in forms or right in forms
    other = right if left in forms else left
    # the other side is the gold value (attribute 'gold' of the entry or the loop's target string)
    gold_ok = other.endswith(".gold") or other.endswith(".gold.nb_str()") or other in ("target",)
    both_text = (left.endswith("nb_str()") or left == "target") == (right.endswith("nb_str()") or right == "target")
    good = ok and side_ok and gold_ok and both_text
    rep.add("label", c + "::label", cm.where(label), good,
            "" if good else "label is '{}'".format(norm(cmpn)))
    lname = label.targets[0].id
    # nothing rebinds the label before it is emitted
    rebinds = [a for a in ast.walk(loop) if isinstance(a, (ast.Assign, ast.AugAssign)) and a is not label
               and any(isinstance(t, ast.Name) and t.id == lname for t in
                       (a.targets if isinstance(a, ast.Assign) else [a.target]))]
    rep.add("label", c + "::label not rebound", cm.where(label), not rebinds,
            "" if not rebinds else "the label is modified: " + norm(rebinds[0])[:60])
    # the samples: the body of the candidate loop, constant-propagated (e1.PureEval) for a candidate
    # whose trace has n = 0..6 marker elements; statements that need the real candidate (the
    # label, bookkeeping) are skipped, the label is a marker.  Whatever the sampling is written
    # with (range + slice, a helper generator, accumulation), what is emitted must be each
    # non-empty prefix exactly once, every one with the candidate's label.
    from ..e1_model import PureEval, Record, StepBudget, _Raised
    LABEL = "\ue000label"
    collectors = sorted({n.func.value.id for n in ast.walk(loop) if isinstance(n, ast.Call)
                         and isinstance(n.func, ast.Attribute) and n.func.attr in ("append", "extend")
                         and isinstance(n.func.value, ast.Name)})
    is_gen = any(isinstance(n, (ast.Yield, ast.YieldFrom)) for n in ast.walk(loop))
    bad = None
    und = None
    emitted_label_ok = True
    elt_ok = True
    for n in range(0, 7):
        trace = ["\ue000t{}".format(k) for k in range(n)]
        env = {pv: Record(production=list(trace), resolution=Record(), score=0.0), lname: LABEL}
        for cname in collectors:
            env[cname] = []
        if is_gen:
            env["__yield__"] = []
        ev = PureEval(ctx.model, cm, dict(ctx.model.env(cm.name)), budget=200000)
        ev.ext_hook = lambda obj, attr, args, kwargs: None if attr in ("debug", "info", "warning") else NotImplemented
        skipped = []

        def tolerant(stmts):
            for st_ in stmts:
                try:
                    if isinstance(st_, ast.If):
                        t_ = ev.ev(st_.test, env)
                        ev._need_concrete(t_)
                        tolerant(st_.body if t_ else st_.orelse)
                    else:
                        ev.stmt(st_, env)
                except (Undecided, _Raised) as e:
                    skipped.append((st_, str(e)))
        try:
            tolerant(loop.body)
        except StepBudget:
            und = "budget"
        except Exception as e:       # continue / break at the top level of the body
            if type(e).__name__ not in ("_Continue", "_Break"):
                raise
        if env.get(lname) != LABEL:
            und = und or "the label variable is rebound by a foldable statement"
        samples, labels = [], []
        if is_gen:
            for item in env["__yield__"]:
                if isinstance(item, (tuple, list)) and len(item) == 2:
                    samples.append(item[0])
                    labels.append(item[1])
                else:
                    und = und or "yielded value is not a (sample, label) pair"
        else:
            lists = {k: env[k] for k in collectors if isinstance(env.get(k), list)}
            lab_lists = [v for v in lists.values() if v and all(x == LABEL for x in v)]
            smp_lists = [v for v in lists.values() if v and all(isinstance(x, list) for x in v)]
            if n > 0 and (len(lab_lists) != 1 or len(smp_lists) != 1):
                # nothing emitted, or not recognisable: was a needed statement skipped?
                inner_skipped = [s_ for s_, _w in skipped if any(isinstance(x, (ast.For, ast.While)) for x in ast.walk(s_))]
                if inner_skipped:
                    und = und or "sample loop not foldable: " + skipped[[s_ for s_, _ in skipped].index(inner_skipped[0])][1]
                else:
                    bad = bad or "for a trace of length {} no (sample, label) pairs are collected".format(n)
                continue
            samples = smp_lists[0] if smp_lists else []
            labels = lab_lists[0] if lab_lists else []
        if n > 0 and not samples and is_gen:
            inner_skipped = [w for s_, w in skipped if any(isinstance(x, (ast.For, ast.While, ast.Yield, ast.YieldFrom)) for x in ast.walk(s_))]
            if inner_skipped:
                und = und or "sample loop not foldable: " + inner_skipped[0]
                continue
        want = [trace[:k] for k in range(1, n + 1)]
        got = [list(x) if isinstance(x, (list, tuple)) else x for x in samples]
        if sorted(map(repr, got)) != sorted(map(repr, want)):
            lens = [len(g) if isinstance(g, list) else "?" for g in got]
            if all(isinstance(g, list) for g in got) and sorted(lens) == list(range(1, n + 1)):
                elt_ok = False
                bad = bad or "for a trace of length {} the samples have the lengths 1..{} but are not the prefixes " \
                    "of the trace (elements taken from other positions or transformed)".format(n, n)
            else:
                bad = bad or "for a trace of length {} the samples are prefixes of lengths {} (expected 1..{})".format(
                    n, lens, n)
        if len(labels) != len(samples) or any(x != LABEL for x in labels):
            emitted_label_ok = False
    if und:
        rep.undecided("prefixes", c + "::sample loop", cm.where(loop), und)
        return
    rep.add("prefixes", c + "::sample loop", cm.where(loop), bad is None, bad or "n = 0..6")
    rep.add("prefixes", c + "::label emitted with every sample", cm.where(loop), emitted_label_ok,
            "" if emitted_label_ok else "samples are not emitted with the candidate's label")
    rep.add("prefixes", c + "::sample elements", cm.where(loop), elt_ok,
            "" if elt_ok else "sample tokens are not the trace elements in order")


def _subst_len(e, pv):
    class T(ast.NodeTransformer):
        def visit_Call(self, n):
            if isinstance(n.func, ast.Name) and n.func.id == "len" and n.args and \
                    norm(n.args[0]) == pv + ".production":
                return ast.copy_location(ast.Name(id="__n__", ctx=ast.Load()), n)
            return self.generic_visit(n)
    t = T().visit(copy.deepcopy(e))
    ast.fix_missing_locations(t)
    return t


def _entry(ctx, rep):
    sm = ctx.model.mods.get("scripts.train_default_model")
    if sm is None:
        raise AnalysisError("anchor vanished: scripts/train_default_model.py")
    f = sm.funcs.get("main")
    if f is None:
        raise AnalysisError("anchor vanished: training main()")
    calls = calls_in(f, "train_naive_bayes")
    if not calls:
        raise AnalysisError("anchor vanished: train_naive_bayes call in the training script")
    call = calls[0]
    args = [norm(a) for a in call.args]
    ok = len(args) == 2
    det = ""
    builders = ("run_corpus", "make_partial_rule_dataset")
    srcs = {}
    for a in ast.walk(f):
        if isinstance(a, ast.Assign) and isinstance(a.targets[0], ast.Tuple) and \
                any(isinstance(c_, ast.Call) and e1.callee_name(c_.func) in builders for c_ in ast.walk(a.value)):
            names = [norm(t) for t in a.targets[0].elts]
            srcs[tuple(names)] = a
    for i, acc in enumerate(args):
        exts = [c_ for c_ in calls_in(f, "extend") if norm(c_.func.value) == acc]
        if not exts:
            ok = False
            det = det or "{} is not accumulated from the builders".format(acc)
        for e_ in exts:
            v = norm(e_.args[0]) if e_.args else None
            if not any(len(k) == 2 and k[i] == v for k in srcs):
                ok = False
                det = det or "{} is extended with {} which is not the builders' output".format(acc, v)
        others = [n for n in ast.walk(f) if isinstance(n, ast.Call) and isinstance(n.func, ast.Attribute)
                  and norm(n.func.value) == acc and n.func.attr not in ("extend",)]
        if others:
            ok = False
            det = det or "{} is modified by {}".format(acc, norm(others[0])[:50])
    rep.add("training-entry", sm.rel + "::main::trainer input", sm.where(call), ok, det)
