"""C17 — training data are truthful: one sample per trace prefix, labelled by value
(decided clauses; DESIGN.md §4 C17)."""
import ast
import copy

from ..core import AnalysisError, Undecided
from .. import e1_model as e1
from ..e3_rules import get_engine
from .common import norm, calls_in
from . import c18


def check(ctx, rep, tier):
    rep.describe("label", "in both dataset builders the label is an equality between the "
                 "candidate's resolution and the gold value (== on value-comparing classes, or "
                 "equality of their bound-free text forms); nothing else enters it")
    rep.describe("prefixes", "the sample loop produces the trace prefixes of length 1..n, each "
                 "exactly once, all with the same label (symbolic evaluation of the loop bounds "
                 "and the slice for n = 0..6)")
    rep.describe("value-fields", "equality of resolutions is value equality (imported from C18)")
    rep.describe("training-entry", "the training script feeds the builders' (X, y) unchanged to "
                 "the trainer")
    cm = ctx.mod("ctparse.corpus")
    builders = []
    for q, f in cm.funcs.items():
        if "." in q:
            continue
        if any(isinstance(n, ast.Call) and e1.callee_name(n.func) == "ctparse_gen" for n in ast.walk(f)):
            builders.append(f)
    rep.count("dataset_builders", len(builders), 2)
    for f in builders:
        _builder(ctx, rep, cm, f)
    eng = get_engine(ctx)
    names, pf, _ = c18.resolution_classes(ctx)
    for name in names:
        c18._value_fields(ctx, rep, eng, name)
    c18._eq_hash(ctx, rep)
    # a builder that labels by the bound-free text form relies on that form being faithful
    if any("nb_str" in norm(f) for f in builders):
        rep.describe("print-parse", "the text form used for labelling prints every value field "
                     "(imported from C18)")
        c18._time_print_parse(ctx, rep)
        c18._interval_print_parse(ctx, rep)
        c18._duration_print_parse(ctx, rep)
    _entry(ctx, rep)
    rep.assume("not decided: monotonicity of the retrained score under duplication of a positive "
               "example (a theorem about the estimator over all corpora)")


def _builder(ctx, rep, cm, f):
    c = "{}::{}".format(cm.rel, f.name)
    # the loop over candidates
    loops = [n for n in ast.walk(f) if isinstance(n, ast.For) and isinstance(n.iter, ast.Call)
             and e1.callee_name(n.iter.func) == "ctparse_gen"]
    if not loops:
        raise AnalysisError("anchor vanished: candidate loop in " + f.name)
    loop = loops[0]
    pv = norm(loop.target)
    # label assignment
    label = None
    for a in ast.walk(loop):
        if isinstance(a, ast.Assign) and len(a.targets) == 1 and isinstance(a.targets[0], ast.Name) \
                and isinstance(a.value, ast.Compare):
            if pv + ".resolution" in norm(a.value):
                label = a
    if label is None:
        rep.violated("label", c + "::label", cm.where(loop), "no label of the form <resolution> == <gold>")
        return
    cmpn = label.value
    ok = len(cmpn.ops) == 1 and isinstance(cmpn.ops[0], ast.Eq)
    left, right = norm(cmpn.left), norm(cmpn.comparators[0])
    forms = {pv + ".resolution", pv + ".resolution.nb_str()"}
    side_ok = left in forms or right in forms
    other = right if left in forms else left
    # the other side is the gold value (attribute 'gold' of the entry or the loop's target string)
    gold_ok = other.endswith(".gold") or other.endswith(".gold.nb_str()") or other in ("target",)
    both_text = (left.endswith("nb_str()") or left == "target") == (right.endswith("nb_str()") or right == "target")
    good = ok and side_ok and gold_ok and both_text
    rep.add("label", c + "::label", cm.where(label), good,
            "" if good else "label is '{}'".format(norm(cmpn)))
    lname = label.targets[0].id
    # nothing rebinds the label before it is emitted
    rebinds = [a for a in ast.walk(loop) if isinstance(a, (ast.Assign, ast.AugAssign)) and a is not label
               and any(isinstance(t, ast.Name) and t.id == lname for t in
                       (a.targets if isinstance(a, ast.Assign) else [a.target]))]
    rep.add("label", c + "::label not rebound", cm.where(label), not rebinds,
            "" if not rebinds else "the label is modified: " + norm(rebinds[0])[:60])
    # sample loop
    inner = [n for n in ast.walk(loop) if isinstance(n, ast.For) and n is not loop and
             isinstance(n.iter, ast.Call) and norm(n.iter.func) == "range"]
    if not inner:
        rep.violated("prefixes", c + "::sample loop", cm.where(loop), "no range-based sample loop")
        return
    il = inner[0]
    iv = norm(il.target)
    slices = [s for s in ast.walk(il) if isinstance(s, ast.Subscript) and isinstance(s.slice, ast.Slice)
              and norm(s.value) == pv + ".production"]
    if not slices:
        rep.violated("prefixes", c + "::sample loop", cm.where(il), "the sample is not a slice of the production trace")
        return
    sl = slices[0].slice
    from ..e1_model import PureEval
    bad = None
    try:
        for n in range(0, 7):
            def ev(e, env):
                t = _subst_len(e, pv)
                pe = PureEval.__new__(PureEval)
                pe.model = None
                pe.mod = None
                pe.genv = {}
                pe.budget = 10000
                env = dict(env)
                env["__n__"] = n
                for b in ("range", "len"):
                    env[b] = e1.Opaque("builtin", b)
                return pe.ev(t, env)
            idxs = ev(il.iter, {})
            got = []
            for i in idxs:
                lo = ev(sl.lower, {iv: i}) if sl.lower is not None else 0
                hi = ev(sl.upper, {iv: i}) if sl.upper is not None else n
                if sl.step is not None:
                    raise Undecided("slice step")
                trace = list(range(n))
                got.append(tuple(trace[lo:hi]))
            want = [tuple(range(k)) for k in range(1, n + 1)]
            if sorted(got) != sorted(want):
                bad = bad or "for a trace of length {} the samples are prefixes of lengths {} (expected 1..{})".format(
                    n, [len(g) for g in got], n)
    except Undecided as e:
        rep.undecided("prefixes", c + "::sample loop", cm.where(il), str(e))
        return
    rep.add("prefixes", c + "::sample loop", cm.where(il), bad is None, bad or "n = 0..6")
    # each sample is emitted with the label
    emits_ok = False
    for n_ in ast.walk(il):
        if isinstance(n_, ast.Yield) and isinstance(n_.value, ast.Tuple) and len(n_.value.elts) == 2 \
                and norm(n_.value.elts[1]) == lname:
            emits_ok = True
        if isinstance(n_, ast.Call) and isinstance(n_.func, ast.Attribute) and n_.func.attr == "append" \
                and n_.args and norm(n_.args[0]) == lname:
            emits_ok = True
    rep.add("prefixes", c + "::label emitted with every sample", cm.where(il), emits_ok,
            "" if emits_ok else "samples are not emitted with the candidate's label")
    # the sample elements are the trace elements (stringified), in order
    elt_ok = False
    for n_ in ast.walk(il):
        if isinstance(n_, ast.ListComp) and len(n_.generators) == 1 and not n_.generators[0].ifs:
            g = n_.generators[0]
            if g.iter is slices[0] or norm(g.iter) == norm(slices[0]):
                e = n_.elt
                tv = norm(g.target)
                elt_ok = norm(e) in ("str({})".format(tv), tv)
    rep.add("prefixes", c + "::sample elements", cm.where(il), elt_ok,
            "" if elt_ok else "sample tokens are not the trace elements in order")


def _subst_len(e, pv):
    class T(ast.NodeTransformer):
        def visit_Call(self, n):
            if isinstance(n.func, ast.Name) and n.func.id == "len" and n.args and \
                    norm(n.args[0]) == pv + ".production":
                return ast.copy_location(ast.Name(id="__n__", ctx=ast.Load()), n)
            return self.generic_visit(n)
    t = T().visit(copy.deepcopy(e))
    ast.fix_missing_locations(t)
    return t


def _entry(ctx, rep):
    sm = ctx.model.mods.get("scripts.train_default_model")
    if sm is None:
        raise AnalysisError("anchor vanished: scripts/train_default_model.py")
    f = sm.funcs.get("main")
    if f is None:
        raise AnalysisError("anchor vanished: training main()")
    calls = calls_in(f, "train_naive_bayes")
    if not calls:
        raise AnalysisError("anchor vanished: train_naive_bayes call in the training script")
    call = calls[0]
    args = [norm(a) for a in call.args]
    ok = len(args) == 2
    det = ""
    builders = ("run_corpus", "make_partial_rule_dataset")
    srcs = {}
    for a in ast.walk(f):
        if isinstance(a, ast.Assign) and isinstance(a.targets[0], ast.Tuple) and \
                any(isinstance(c_, ast.Call) and e1.callee_name(c_.func) in builders for c_ in ast.walk(a.value)):
            names = [norm(t) for t in a.targets[0].elts]
            srcs[tuple(names)] = a
    for i, acc in enumerate(args):
        exts = [c_ for c_ in calls_in(f, "extend") if norm(c_.func.value) == acc]
        if not exts:
            ok = False
            det = det or "{} is not accumulated from the builders".format(acc)
        for e_ in exts:
            v = norm(e_.args[0]) if e_.args else None
            if not any(len(k) == 2 and k[i] == v for k in srcs):
                ok = False
                det = det or "{} is extended with {} which is not the builders' output".format(acc, v)
        others = [n for n in ast.walk(f) if isinstance(n, ast.Call) and isinstance(n.func, ast.Attribute)
                  and norm(n.func.value) == acc and n.func.attr not in ("extend",)]
        if others:
            ok = False
            det = det or "{} is modified by {}".format(acc, norm(others[0])[:50])
    rep.add("training-entry", sm.rel + "::main::trainer input", sm.where(call), ok, det)
