"""C11 — separators, brackets, dash variants and letter case never change the result
(class composition, idempotence by class reasoning, case folding; DESIGN.md §4 C11)."""
import ast
import unicodedata

from ..core import AnalysisError, Undecided
from .. import e1_model as e1
from .. import e2_regex as e2
from .common import norm, calls_in, rule_construct
from . import strterms as st_

SEP_CATS = {"Zs", "Zl", "Zp", "Cc", "Cf", "Cs", "Co", "Cn", "Ps", "Pe"}
SEP_CHARS = {ord(","), ord(";")}
DASH_EXTRA = set(range(0x2010, 0x2016)) | {0x2043}


def check(ctx, rep, tier):
    rep.describe("separator-class", "the first substitution's character class contains exactly "
                 "the code points of general categories Z*, C*, Ps, Pe plus ',' and ';' (decided "
                 "for every code point of the scanned range), is applied under + and replaced by "
                 "one blank; a whitespace strip follows")
    rep.describe("dash-class", "the second substitution's class contains exactly category Pd plus "
                 "U+2010..U+2015 and U+2043, under +, replaced by '-'; a strip follows")
    rep.describe("idempotent", "' ' is in the first class and not in the second, '-' is in the "
                 "second and not in the first, both replacements are single characters: each "
                 "substitution is a retraction and the second cannot create input for the first")
    rep.describe("normalised-input", "the text reaching the matcher went through the normaliser")
    rep.describe("case", "every pattern atom that can match a cased letter is case-insensitive")
    cm = ctx.imod("ctparse.ctparse")
    pre = cm.func("_preprocess_string")
    pats = _module_patterns(cm)
    full = tier == "thorough"
    rets = [r for r in ast.walk(pre) if isinstance(r, ast.Return) and r.value is not None]
    if not rets:
        raise AnalysisError("anchor vanished: _preprocess_string returns nothing")
    rep.count("normaliser_return_paths", len(rets), 1)
    from . import strterms as st_
    T = st_.Terms(cm)
    T.run(pre.body, {pre.args.args[0].arg: ("text", "raw")})
    ret_terms = {id(node): term for term, node in T.returns}
    for ri, r in enumerate(rets):
        subs = _term_chain(ret_terms.get(id(r)), st_)
        tag = "" if len(rets) == 1 else " [return {}]".format(ri + 1)
        domain = _path_domain(r, pre)
        if len(subs) != 2 and not _term_understood(ret_terms.get(id(r)), st_):
            rep.undecided("separator-class", "{}::_preprocess_string::substitution chain{}".format(cm.rel, tag),
                          cm.where(r), "the returned text is not a chain of substitutions and strips over the "
                          "argument that this clause can follow: {}".format(st_.term_text(ret_terms.get(id(r)))[:80]))
            continue
        if len(subs) != 2:
            rep.violated("separator-class", "{}::_preprocess_string::substitution chain{}".format(cm.rel, tag),
                         cm.where(r), "a return path applies {} substitution(s) instead of the separator "
                         "and the dash substitution".format(len(subs)))
            continue
        (n1, t1, v1_1, repl1, strip1), (n2, t2, v1_2, repl2, strip2) = subs
        cls1 = _class_of(t1, v1_1)
        cls2 = _class_of(t2, v1_2)
        is_sep = lambda cp: unicodedata.category(chr(cp)) in SEP_CATS or cp in SEP_CHARS  # noqa: E731
        is_dash = lambda cp: unicodedata.category(chr(cp)) == "Pd" or cp in DASH_EXTRA  # noqa: E731
        # a character normalised *in addition* to the stated classes leaves every stated equivalence
        # intact unless it belongs to the other class (a dash turned into a blank is no longer '-')
        _compare(rep, cm, "separator-class", n1 + tag, cls1, r, is_sep, full, domain, conflict=is_dash)
        _compare(rep, cm, "dash-class", n2 + tag, cls2, r, is_dash, full, domain, conflict=is_sep)
        for label, repl, strip, nm, want in (("separator-class", repl1, strip1, n1, " "),
                                             ("dash-class", repl2, strip2, n2, "-")):
            rep.add(label, "{}::_preprocess_string::{} replacement{}".format(cm.rel, nm, tag), cm.where(r),
                    repl == want, "" if repl == want else "replacement is {!r} instead of {!r}".format(repl, want))
            rep.add(label, "{}::_preprocess_string::strip after {}{}".format(cm.rel, nm, tag), cm.where(r), strip,
                    "" if strip else "no strip() after the substitution: leading/trailing separators survive")
        if cls1 is not None and cls2 is not None:
            facts = {
                "' ' in separator class": cls1[0].contains(0x20),
                "'-' not in separator class": not cls1[0].contains(0x2D),
                "'-' in dash class": cls2[0].contains(0x2D),
                "' ' not in dash class": not cls2[0].contains(0x20),
                "separator class under +": cls1[1],
                "dash class under +": cls2[1],
                "dash class disjoint from separator class on the dash code points":
                    not any(cls1[0].contains(cp) for cp in DASH_EXTRA | {0x2D, 0x2212}),
            }
            for k, v in facts.items():
                rep.add("idempotent", "{}::_preprocess_string::{}{}".format(cm.rel, k, tag), cm.where(r), bool(v),
                        "" if v else "does not hold: normalising twice can differ from normalising once")
    # normalised text reaches _ctparse
    gen = cm.func("ctparse_gen")
    states = st_.search_input_state(cm, gen)
    c_ = cm.rel + "::ctparse_gen::_ctparse(_preprocess_string(txt))"
    if not states or any(x == "?" for x in states):
        rep.undecided("normalised-input", c_, cm.where(gen), "what text the search is called on is not recognised")
    else:
        ok = all(x in ("norm", "stripped") for x in states)
        rep.add("normalised-input", c_, cm.where(gen), ok,
                "" if ok else ("labels are cut out of the raw text before it is normalised: where a label ends "
                               "then depends on which dash or separator variant follows it"
                               if "norm-of-stripped" in states else "the search is not run on the normalised text"))
    _case(ctx, rep)
    rep.assume("unicodedata of the running interpreter classifies code points as the regex engine does "
               "(both follow the Unicode character database)")
    rep.assume("not decided: resolution equality under full case folding corner cases decided by the engine")


def _module_patterns(cm):
    out = {}
    for st in cm.tree.body:
        if isinstance(st, ast.Assign) and isinstance(st.value, ast.Call) and e1.callee_name(st.value.func) == "compile" \
                and st.value.args and isinstance(st.value.args[0], ast.Constant) and len(st.targets) == 1 \
                and isinstance(st.targets[0], ast.Name):
            v1 = any("VERSION1" in norm(a) or norm(a).endswith(".V1") for a in st.value.args[1:]) or \
                any("VERSION1" in norm(k.value) for k in st.value.keywords)
            out[st.targets[0].id] = (st.value.args[0].value, v1, st)
    return out


def _term_understood(t, st_):
    """the term is built from the text parameter by substitutions and strips only"""
    while True:
        t, _ = st_.strip_ops(t)
        if isinstance(t, tuple) and t and t[0] == "sub":
            t = t[4]
            continue
        return isinstance(t, tuple) and bool(t) and t[0] == "text"


def _term_chain(t, st_):
    """[(label, pattern text, version1?, replacement, stripped?)] innermost first, from the
    provenance term of a returned value"""
    out = []
    while True:
        t, strip = st_.strip_ops(t)
        if isinstance(t, tuple) and t and t[0] == "sub":
            out.append((t[5], t[1], t[2], t[3], strip))
            t = t[4]
        else:
            break
    return list(reversed(out))


def _sub_chain(e, pats):
    """[(label, pattern text, version1?, replacement, stripped?)] innermost first."""
    out = []

    def unwrap(e):
        strip = False
        while True:
            if isinstance(e, ast.Call) and isinstance(e.func, ast.Name) and e.func.id == "cast" and len(e.args) == 2:
                e = e.args[1]
            elif isinstance(e, ast.Call) and isinstance(e.func, ast.Attribute) and e.func.attr == "strip" and not e.args:
                strip = True
                e = e.func.value
            else:
                return e, strip
    cur, strip = unwrap(e)
    while isinstance(cur, ast.Call) and isinstance(cur.func, ast.Attribute) and cur.func.attr == "sub" \
            and isinstance(cur.func.value, ast.Name):
        base = cur.func.value.id
        if base in pats and len(cur.args) >= 2:
            text, v1, _ = pats[base]
            repl = cur.args[0].value if isinstance(cur.args[0], ast.Constant) else None
            out.append((base, text, v1, repl, strip))
            cur, strip = unwrap(cur.args[1])
        elif base in ("re", "regex") and len(cur.args) >= 3 and isinstance(cur.args[0], ast.Constant):
            repl = cur.args[1].value if isinstance(cur.args[1], ast.Constant) else None
            out.append(("{}.sub({!r})".format(base, cur.args[0].value[:24]), cur.args[0].value, base == "regex",
                        repl, strip))
            cur, strip = unwrap(cur.args[2])
        else:
            break
    return list(reversed(out))


def _path_domain(ret, f):
    """Code points a return path can see: a path guarded by <text>.isascii() sees ASCII only."""
    cur = getattr(ret, "_parent", None)
    child = ret
    while cur is not None and cur is not f:
        if isinstance(cur, ast.If):
            in_body = any(child is b for b in cur.body)
            t = cur.test
            pos = isinstance(t, ast.Call) and isinstance(t.func, ast.Attribute) and t.func.attr == "isascii"
            neg = isinstance(t, ast.UnaryOp) and isinstance(t.op, ast.Not) and isinstance(t.operand, ast.Call) \
                and isinstance(t.operand.func, ast.Attribute) and t.operand.func.attr == "isascii"
            if (pos and in_body) or (neg and not in_body):
                return "ascii"
        child = cur
        cur = getattr(cur, "_parent", None)
    return "all"


def _class_of(text, v1):
    """(CharSet, under_plus) of a pattern of the form CLASS+ or (alt of classes)+."""
    try:
        P = e2.parse(text, version1=v1)
    except (AnalysisError, Undecided):
        return None
    root = P.root
    while root.kind in ("group", "atomic"):
        root = root.child
    plus = root.kind == "rep" and root.lo == 1 and root.hi is None
    body = root.child if root.kind == "rep" else root
    while body.kind in ("group", "atomic"):
        body = body.child
    if body.kind == "char":
        return body.cs, plus
    if body.kind == "alt" and all(_single_char(c) is not None for c in body.items):
        return e2.CharSet("union", [_single_char(c) for c in body.items]), plus
    return None


def _single_char(n):
    while n.kind in ("group", "atomic"):
        n = n.child
    return n.cs if n.kind == "char" else None


def normaliser_classes(ctx):
    """[(separator class, dash class, return node)] of every return path of _preprocess_string whose
    text is a chain of the two substitutions; None for a path outside that shape (used by C10)."""
    cm = ctx.imod("ctparse.ctparse")
    pre = cm.func("_preprocess_string")
    rets = [r for r in ast.walk(pre) if isinstance(r, ast.Return) and r.value is not None]
    T = st_.Terms(cm)
    T.run(pre.body, {pre.args.args[0].arg: ("text", "raw")})
    ret_terms = {id(node): term for term, node in T.returns}
    out = []
    for r in rets:
        subs = _term_chain(ret_terms.get(id(r)), st_)
        if len(subs) != 2:
            out.append(None)
            continue
        (n1, t1, v1_1, _r1, _s1), (n2, t2, v1_2, _r2, _s2) = subs
        c1, c2 = _class_of(t1, v1_1), _class_of(t2, v1_2)
        out.append(None if c1 is None or c2 is None else (c1[0], c2[0], r))
    return cm, out


def _compare(rep, cm, label, name, cls, node, spec, full, domain="all", conflict=None):
    c = "{}::{}::class".format(cm.rel, name)
    if cls is None:
        rep.undecided(label, c, cm.where(node), "pattern is not a repeated character class")
        return
    cs, plus = cls
    if domain == "ascii":
        rng = list(range(0, 128))
    else:
        rng = list(range(0, 0x110000)) if full else list(range(0, 0x3100)) + list(range(0xD700, 0x10000)) + \
            list(range(0x1F000, 0x1F100)) + [0xE0001, 0xE0020, 0xF0000, 0x10FFFF, 0x10000, 0x2FFFF]
    missing, extra, benign_extra = [], [], []
    n = 0
    for cp in rng:
        n += 1
        a = cs.contains(cp)
        b = spec(cp)
        if a and not b:
            (extra if conflict is None or conflict(cp) else benign_extra).append(cp)
        elif b and not a:
            missing.append(cp)
    ok = not missing and not extra
    det = "{} code points".format(n)
    if benign_extra:
        det += "; also normalised, outside the stated classes and in conflict with none: {}".format(
            ["U+%04X" % c_ for c_ in benign_extra[:5]])
    if not ok:
        det = ""
        if missing:
            det += "not normalised: {} ".format(["U+%04X" % c_ for c_ in missing[:5]])
        if extra:
            det += "normalised here although the property gives it to the other class: {}".format(["U+%04X" % c_ for c_ in extra[:5]])
    rep.add(label, c, cm.where(node), ok, det,
            witness=None if ok else {"missing": missing[:10], "extra": extra[:10]})
    rep.add(label, "{}::{}::applied to runs".format(cm.rel, name), cm.where(node), plus,
            "" if plus else "the class is not under '+': a run of separators is not collapsed to one")
    if domain != "ascii":
        rep.count(label + "_code_points", n, 10000)


def _raw_group_tests(ctx, rep):
    """String tests the productions make on captured text must be on case-folded text:
    the patterns match case-insensitively, so the capture can be in any case."""
    from ..e3_rules import get_engine
    eng = get_engine(ctx)
    bad = {}
    n = 0

    def folded(sym):
        return isinstance(sym, tuple) and sym and sym[0] in ("lower", "casefold", "upper")

    def raw_group(sym):
        if isinstance(sym, tuple) and sym:
            if sym[0] == "group":
                return True
            if folded(sym):
                return False
            return any(raw_group(x) for x in sym[1:] if isinstance(x, tuple))
        return False

    def visit(sym, rule):
        nonlocal n
        if not isinstance(sym, tuple) or not sym:
            return
        if sym[0] == "anyof":
            for conj in sym[1]:
                for c, _ in conj:
                    visit(c, rule)
            return
        if sym[0] in ("startswith", "endswith") and len(sym) >= 3:
            n += 1
            const = sym[2]
            if raw_group(sym[1]) and isinstance(const, str) and const.lower() != const.upper():
                bad.setdefault((rule.name, sym[0], const), rule)
        if sym[0] == "cmp" and sym[1] in ("Eq", "NotEq"):
            for a, b in ((sym[2], sym[3]), (sym[3], sym[2])):
                if raw_group(a) and isinstance(b, tuple) and b[0] == "const" and isinstance(b[1], str) \
                        and b[1].lower() != b[1].upper():
                    n += 1
                    bad.setdefault((rule.name, "==", b[1]), rule)
        if sym[0] == "in" and isinstance(sym[1], tuple) and sym[1][0] == "const" and isinstance(sym[1][1], str):
            if raw_group(sym[2]) and sym[1][1].lower() != sym[1][1].upper():
                n += 1
                bad.setdefault((rule.name, "in", sym[1][1]), rule)
    for mk, run in eng.runs.items():
        for p in run.paths:
            for sym, _ in p.conds:
                visit(sym, run.rule)
    for (rname, op, const), rule in sorted(bad.items()):
        rep.violated("case", rule_construct(rule, "{} {!r} on the captured text".format(op, const)), rule.where,
                     "a production tests captured text case-sensitively ({} {!r}) although the pattern "
                     "matched it case-insensitively".format(op, const))
    if not bad:
        rep.ok("case", "ctparse/time/rules.py::string tests on captures are case-folded", "ctparse/time/rules.py",
               "{} string tests".format(n))


def _case(ctx, rep):
    _raw_group_tests(ctx, rep)
    n = 0
    for r in ctx.rb.rules:
        for i, p in enumerate(r.pats):
            if p.kind != "regex":
                continue
            n += 1
            try:
                _, P = ctx.wrapped(p.value)
                bad = e2.cased_atoms_without_icase(P.id_group, P)
            except Undecided as e:
                rep.undecided("case", rule_construct(r, "pattern[{}]".format(i)), r.where, str(e))
                continue
            rep.add("case", rule_construct(r, "pattern[{}] case-insensitive".format(i)), r.where, not bad,
                    "" if not bad else "cased atoms matched case-sensitively: {}".format(bad[:4]))
    rep.count("patterns", n, 30)
