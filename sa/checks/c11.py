"""C11 — separators, brackets, dash variants and letter case never change the result
(class composition, idempotence by class reasoning, case folding; DESIGN.md §4 C11)."""
import ast
import unicodedata

from ..core import AnalysisError, Undecided
from .. import e1_model as e1
from .. import e2_regex as e2
from .common import norm, calls_in, rule_construct

SEP_CATS = {"Zs", "Zl", "Zp", "Cc", "Cf", "Cs", "Co", "Cn", "Ps", "Pe"}
SEP_CHARS = {ord(","), ord(";")}
DASH_EXTRA = set(range(0x2010, 0x2016)) | {0x2043}


def check(ctx, rep, tier):
    rep.describe("separator-class", "the first substitution's character class contains exactly "
                 "the code points of general categories Z*, C*, Ps, Pe plus ',' and ';' (decided "
                 "for every code point of the scanned range), is applied under + and replaced by "
                 "one blank; a whitespace strip follows")
    rep.describe("dash-class", "the second substitution's class contains exactly category Pd plus "
                 "U+2010..U+2015 and U+2043, under +, replaced by '-'; a strip follows")
    rep.describe("idempotent", "' ' is in the first class and not in the second, '-' is in the "
                 "second and not in the first, both replacements are single characters: each "
                 "substitution is a retraction and the second cannot create input for the first")
    rep.describe("normalised-input", "the text reaching the matcher went through the normaliser")
    rep.describe("case", "every pattern atom that can match a cased letter is case-insensitive")
    cm = ctx.mod("ctparse.ctparse")
    pre = cm.func("_preprocess_string")
    pats = _module_patterns(cm)
    subs = _sub_chain(pre)
    if len(subs) != 2:
        raise AnalysisError("anchor vanished: the two substitutions in _preprocess_string ({} found)".format(len(subs)))
    (inner_name, inner_repl, inner_strip), (outer_name, outer_repl, outer_strip) = subs
    full = tier == "thorough"
    cls1 = _class_of(pats, inner_name, cm)
    cls2 = _class_of(pats, outer_name, cm)
    _compare(rep, cm, "separator-class", inner_name, cls1,
             lambda cp: unicodedata.category(chr(cp)) in SEP_CATS or cp in SEP_CHARS, full)
    _compare(rep, cm, "dash-class", outer_name, cls2,
             lambda cp: unicodedata.category(chr(cp)) == "Pd" or cp in DASH_EXTRA, full)
    for label, repl, strip, nm, want in (("separator-class", inner_repl, inner_strip, inner_name, " "),
                                         ("dash-class", outer_repl, outer_strip, outer_name, "-")):
        rep.add(label, "{}::_preprocess_string::{} replacement".format(cm.rel, nm), cm.where(pre),
                repl == want, "" if repl == want else "replacement is {!r} instead of {!r}".format(repl, want))
        rep.add(label, "{}::_preprocess_string::strip after {}".format(cm.rel, nm), cm.where(pre), strip,
                "" if strip else "no strip() after the substitution: leading/trailing separators survive")
    if cls1 is not None and cls2 is not None:
        facts = {
            "' ' in separator class": cls1[0].contains(0x20),
            "'-' not in separator class": not cls1[0].contains(0x2D),
            "'-' in dash class": cls2[0].contains(0x2D),
            "' ' not in dash class": not cls2[0].contains(0x20),
            "separator class under +": cls1[1],
            "dash class under +": cls2[1],
            "dash class disjoint from separator class on the dash code points":
                not any(cls1[0].contains(cp) for cp in DASH_EXTRA | {0x2D, 0x2212}),
        }
        for k, v in facts.items():
            rep.add("idempotent", "{}::_preprocess_string::{}".format(cm.rel, k), cm.where(pre), bool(v),
                    "" if v else "does not hold: normalising twice can differ from normalising once")
    # normalised text reaches _ctparse
    gen = cm.func("ctparse_gen")
    ok = any(c.args and isinstance(c.args[0], ast.Call) and e1.callee_name(c.args[0].func) == "_preprocess_string"
             for c in calls_in(gen, "_ctparse"))
    rep.add("normalised-input", cm.rel + "::ctparse_gen::_ctparse(_preprocess_string(txt))", cm.where(gen), ok,
            "" if ok else "the search is not run on the normalised text")
    _case(ctx, rep)
    rep.assume("unicodedata of the running interpreter classifies code points as the regex engine does "
               "(both follow the Unicode character database)")
    rep.assume("not decided: resolution equality under full case folding corner cases decided by the engine")


def _module_patterns(cm):
    out = {}
    for st in cm.tree.body:
        if isinstance(st, ast.Assign) and isinstance(st.value, ast.Call) and e1.callee_name(st.value.func) == "compile" \
                and st.value.args and isinstance(st.value.args[0], ast.Constant) and len(st.targets) == 1 \
                and isinstance(st.targets[0], ast.Name):
            v1 = any("VERSION1" in norm(a) or norm(a).endswith(".V1") for a in st.value.args[1:]) or \
                any("VERSION1" in norm(k.value) for k in st.value.keywords)
            out[st.targets[0].id] = (st.value.args[0].value, v1, st)
    return out


def _sub_chain(pre):
    """[(pattern name, replacement, stripped?)] innermost first."""
    ret = [r for r in ast.walk(pre) if isinstance(r, ast.Return)]
    if not ret:
        return []
    e = ret[0].value
    out = []

    def unwrap(e):
        strip = False
        while True:
            if isinstance(e, ast.Call) and isinstance(e.func, ast.Name) and e.func.id == "cast" and len(e.args) == 2:
                e = e.args[1]
            elif isinstance(e, ast.Call) and isinstance(e.func, ast.Attribute) and e.func.attr == "strip" and not e.args:
                strip = True
                e = e.func.value
            else:
                return e, strip
    cur, strip = unwrap(e)
    while isinstance(cur, ast.Call) and isinstance(cur.func, ast.Attribute) and cur.func.attr == "sub" \
            and isinstance(cur.func.value, ast.Name) and len(cur.args) >= 2:
        repl = cur.args[0].value if isinstance(cur.args[0], ast.Constant) else None
        out.append((cur.func.value.id, repl, strip))
        cur, strip = unwrap(cur.args[1])
    return list(reversed(out))


def _class_of(pats, name, cm):
    """(CharSet, under_plus) of a pattern of the form CLASS+ or (alt of classes)+."""
    if name not in pats:
        return None
    text, v1, st = pats[name]
    P = e2.parse(text, version1=v1)
    root = P.root
    while root.kind in ("group", "atomic"):
        root = root.child
    plus = root.kind == "rep" and root.lo == 1 and root.hi is None
    body = root.child if root.kind == "rep" else root
    while body.kind in ("group", "atomic"):
        body = body.child
    if body.kind == "char":
        return body.cs, plus, st
    if body.kind == "alt" and all(_single_char(c) is not None for c in body.items):
        return e2.CharSet("union", [_single_char(c) for c in body.items]), plus, st
    return None


def _single_char(n):
    while n.kind in ("group", "atomic"):
        n = n.child
    return n.cs if n.kind == "char" else None


def _compare(rep, cm, label, name, cls, spec, full):
    c = "{}::{}::class".format(cm.rel, name)
    if cls is None:
        rep.undecided(label, c, cm.rel, "pattern is not a repeated character class")
        return
    cs, plus, st = cls
    rng = list(range(0, 0x110000)) if full else list(range(0, 0x3100)) + list(range(0xD700, 0x10000)) + \
        list(range(0x1F000, 0x1F100)) + [0xE0001, 0xE0020, 0xF0000, 0x10FFFF, 0x10000, 0x2FFFF]
    missing, extra = [], []
    n = 0
    for cp in rng:
        n += 1
        a = cs.contains(cp)
        b = spec(cp)
        if a and not b:
            extra.append(cp)
        elif b and not a:
            missing.append(cp)
    ok = not missing and not extra
    det = "{} code points".format(n)
    if not ok:
        det = ""
        if missing:
            det += "not normalised: {} ".format(["U+%04X" % c_ for c_ in missing[:5]])
        if extra:
            det += "normalised although not in the stated classes: {}".format(["U+%04X" % c_ for c_ in extra[:5]])
    rep.add(label, c, cm.where(st), ok, det,
            witness=None if ok else {"missing": missing[:10], "extra": extra[:10]})
    rep.add(label, "{}::{}::applied to runs".format(cm.rel, name), cm.where(st), plus,
            "" if plus else "the class is not under '+': a run of separators is not collapsed to one")
    rep.count(label + "_code_points", n, 10000)


def _case(ctx, rep):
    n = 0
    for r in ctx.rb.rules:
        for i, p in enumerate(r.pats):
            if p.kind != "regex":
                continue
            n += 1
            try:
                _, P = ctx.wrapped(p.value)
                bad = e2.cased_atoms_without_icase(P.id_group, P)
            except Undecided as e:
                rep.undecided("case", rule_construct(r, "pattern[{}]".format(i)), r.where, str(e))
                continue
            rep.add("case", rule_construct(r, "pattern[{}] case-insensitive".format(i)), r.where, not bad,
                    "" if not bad else "cased atoms matched case-sensitively: {}".format(bad[:4]))
    rep.count("patterns", n, 30)
