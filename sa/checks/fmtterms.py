"""Templates of printing code: the value a printer returns, as a sequence of literal chunks and
field chunks, whatever mix of str.format, f-strings, format(), concatenation, local variables and
conditional expressions it is written with.

  ("lit", text)
  ("field", source, spec, conversion, absent, guard)
       source      normalised source text of the printed expression (e.g. 'self.year')
       spec        format spec ('04d', '')
       conversion  's' / 'r' / None
       absent      text printed instead when the guard fails (None: unconditional)
       guard       'none' (printed unless the value is None), 'truthy' (printed when truthy:
                   falsy values print as *absent*), None
  ("?", source)    something else
"""
import ast
import string

from .common import norm


class Template:
    def __init__(self, fn, cm, consts=None):
        self.fn = fn
        self.cm = cm
        self.consts = consts if consts is not None else module_constants(cm)
        self.env = {}
        for st in ast.walk(fn):
            if isinstance(st, ast.Assign) and len(st.targets) == 1 and isinstance(st.targets[0], ast.Name):
                self.env.setdefault(st.targets[0].id, []).append(st.value)
            elif isinstance(st, ast.AnnAssign) and isinstance(st.target, ast.Name) and st.value is not None:
                self.env.setdefault(st.target.id, []).append(st.value)

    # ------------------------------------------------------------------
    def of(self, e, depth=0):
        if depth > 12:
            return [("?", norm(e))]
        if isinstance(e, ast.Constant):
            if isinstance(e.value, str):
                return [("lit", e.value)]
            return [("lit", str(e.value))] if e.value is not None else [("?", "None")]
        if isinstance(e, ast.JoinedStr):
            out = []
            for v in e.values:
                if isinstance(v, ast.Constant):
                    out.append(("lit", str(v.value)))
                elif isinstance(v, ast.FormattedValue):
                    spec = ""
                    if v.format_spec is not None:
                        if all(isinstance(x, ast.Constant) for x in v.format_spec.values):
                            spec = "".join(str(x.value) for x in v.format_spec.values)
                        else:
                            out.append(("?", norm(v)))
                            continue
                    conv = {115: "s", 114: "r", 97: "a"}.get(v.conversion)
                    out.extend(self._apply(self.of(v.value, depth + 1), spec, conv))
            return _merge(out)
        if isinstance(e, ast.BinOp) and isinstance(e.op, ast.Add):
            return _merge(self.of(e.left, depth + 1) + self.of(e.right, depth + 1))
        if isinstance(e, ast.Name):
            if e.id in self.env and len(self.env[e.id]) == 1:
                return self.of(self.env[e.id][0], depth + 1)
            if e.id in self.consts and e.id not in self.env:
                return [("lit", self.consts[e.id])] if isinstance(self.consts[e.id], str) else [("?", e.id)]
            return [("field", e.id, "", None, None, None)]
        if isinstance(e, ast.Attribute):
            return [("field", norm(e), "", None, None, None)]
        if isinstance(e, ast.IfExp):
            return self._ifexp(e, depth)
        if isinstance(e, ast.BoolOp) and isinstance(e.op, ast.Or) and len(e.values) == 2:
            a, b = self.of(e.values[0], depth + 1), self.of(e.values[1], depth + 1)
            if len(a) == 1 and a[0][0] == "field" and a[0][4] is None and len(b) == 1 and b[0][0] == "lit":
                f = a[0]
                return [("field", f[1], f[2], f[3], b[0][1], "truthy")]
            return [("?", norm(e))]
        if isinstance(e, ast.NamedExpr) and isinstance(e.target, ast.Name):
            self.env[e.target.id] = [e.value]
            return self.of(e.value, depth + 1)
        if isinstance(e, ast.Call):
            f = e.func
            if isinstance(f, ast.Name) and f.id == "getattr" and len(e.args) == 2 and not e.keywords \
                    and isinstance(e.args[1], ast.Constant) and isinstance(e.args[1].value, str):
                return self.of(ast.Attribute(value=e.args[0], attr=e.args[1].value, ctx=ast.Load()), depth + 1)
            if isinstance(f, ast.Name) and f.id in ("str", "repr") and len(e.args) == 1:
                return self._apply(self.of(e.args[0], depth + 1), "", "s" if f.id == "str" else "r")
            if isinstance(f, ast.Name) and f.id == "format" and 1 <= len(e.args) <= 2:
                spec = ""
                if len(e.args) == 2:
                    sp = self.of(e.args[1], depth + 1)
                    if len(sp) == 1 and sp[0][0] == "lit":
                        spec = sp[0][1]
                    elif sp:
                        return [("?", norm(e))]
                return self._apply(self.of(e.args[0], depth + 1), spec, None)
            if isinstance(f, ast.Attribute) and f.attr == "format":
                base = self.of(f.value, depth + 1)
                if len(base) == 1 and base[0][0] == "lit" and not e.keywords:
                    return self._format(base[0][1], e.args, depth)
                if not base:
                    return []
            if isinstance(f, ast.Attribute) and f.attr == "join":
                return [("?", norm(e))]
            return [("field", norm(e), "", None, None, None)]
        return [("?", norm(e))]

    # -- sequences of printed values (for "...".format(*parts)) ---------------------------------
    def _const_value(self, e, depth=0):
        """constant tables the printer is driven by: tuples / lists of constants, zip() of such,
        local names and class-level attributes bound to them; raises ValueError otherwise"""
        if depth > 8:
            raise ValueError("depth")
        if isinstance(e, ast.Constant):
            return e.value
        if isinstance(e, (ast.Tuple, ast.List)):
            return tuple(self._const_value(x, depth + 1) for x in e.elts)
        if isinstance(e, ast.Name):
            if e.id in self.env and len(self.env[e.id]) == 1:
                return self._const_value(self.env[e.id][0], depth + 1)
            if e.id in self.consts and e.id not in self.env:
                return self.consts[e.id]
            for st in self.cm.tree.body:
                if isinstance(st, ast.Assign) and len(st.targets) == 1 and isinstance(st.targets[0], ast.Name) \
                        and st.targets[0].id == e.id and e.id not in self.env:
                    return self._const_value(st.value, depth + 1)
                if isinstance(st, ast.AnnAssign) and isinstance(st.target, ast.Name) and st.target.id == e.id \
                        and st.value is not None and e.id not in self.env:
                    return self._const_value(st.value, depth + 1)
            raise ValueError("name " + e.id)
        if isinstance(e, ast.Attribute) and isinstance(e.value, ast.Name):
            cls = getattr(self.fn, "_cls", None)
            first = self.fn.args.args[0].arg if self.fn.args.args else None
            if e.value.id in (first, cls) and cls in self.cm.classes:
                for st in self.cm.classes[cls].body:
                    if isinstance(st, ast.Assign) and len(st.targets) == 1 and isinstance(st.targets[0], ast.Name) \
                            and st.targets[0].id == e.attr:
                        return self._const_value(st.value, depth + 1)
                    if isinstance(st, ast.AnnAssign) and isinstance(st.target, ast.Name) and st.target.id == e.attr \
                            and st.value is not None:
                        return self._const_value(st.value, depth + 1)
            raise ValueError("attribute")
        if isinstance(e, ast.Call) and isinstance(e.func, ast.Name) and e.func.id == "zip" and not e.keywords:
            return tuple(zip(*[self._const_value(a, depth + 1) for a in e.args]))
        if isinstance(e, ast.Call) and isinstance(e.func, ast.Name) and e.func.id in ("tuple", "list") \
                and len(e.args) == 1:
            return tuple(self._const_value(e.args[0], depth + 1))
        if isinstance(e, ast.Call) and isinstance(e.func, ast.Name) and e.func.id == "enumerate" and e.args:
            start = self._const_value(e.args[1], depth + 1) if len(e.args) > 1 else 0
            return tuple(enumerate(self._const_value(e.args[0], depth + 1), start))
        raise ValueError("expression")

    def seq_of(self, e, depth=0):
        """the templates of the elements of a list the printer builds, or None"""
        if depth > 8:
            return None
        if isinstance(e, (ast.List, ast.Tuple)):
            return [self.of(x, depth + 1) for x in e.elts]
        if isinstance(e, ast.Name) and e.id in self.env and len(self.env[e.id]) == 1:
            return self.seq_of(self.env[e.id][0], depth + 1)
        if isinstance(e, ast.Call) and isinstance(e.func, ast.Name) and e.func.id in ("list", "tuple") and len(e.args) == 1:
            return self.seq_of(e.args[0], depth + 1)
        if isinstance(e, (ast.ListComp, ast.GeneratorExp)) and len(e.generators) == 1 and not e.generators[0].ifs:
            g = e.generators[0]
            try:
                rows = self._const_value(g.iter)
            except ValueError:
                return None
            out = []
            for row in rows:
                binding = {}
                if isinstance(g.target, ast.Name):
                    binding[g.target.id] = row
                elif isinstance(g.target, (ast.Tuple, ast.List)) and isinstance(row, tuple) \
                        and len(row) == len(g.target.elts) and all(isinstance(t, ast.Name) for t in g.target.elts):
                    for t, v in zip(g.target.elts, row):
                        binding[t.id] = v
                else:
                    return None
                if not all(isinstance(v, (str, int, float, bool, type(None))) for v in binding.values()):
                    return None
                elt = _SubstConst(binding).visit(_copy(e.elt))
                out.append(self.of(elt, depth + 1))
            return out
        return None

    def _format(self, fmt, args, depth):
        if any(isinstance(a, ast.Starred) for a in args):
            flat = []
            for a in args:
                if isinstance(a, ast.Starred):
                    seq = self.seq_of(a.value, depth + 1)
                    if seq is None:
                        return [("?", "*" + norm(a.value))]
                    flat.extend(("tmpl", t) for t in seq)
                else:
                    flat.append(a)
            args = flat
        out = []
        auto = 0
        try:
            parsed = list(string.Formatter().parse(fmt))
        except ValueError:
            return [("?", fmt)]
        for lit, fname, spec, conv in parsed:
            if lit:
                out.append(("lit", lit))
            if fname is None:
                continue
            if fname == "":
                idx = auto
                auto += 1
            elif fname.isdigit():
                idx = int(fname)
            else:
                out.append(("?", "{" + fname + "}"))
                continue
            if idx >= len(args):
                out.append(("?", "missing format argument"))
                continue
            a_ = args[idx]
            tmpl = a_[1] if isinstance(a_, tuple) and a_ and a_[0] == "tmpl" else self.of(a_, depth + 1)
            out.extend(self._apply(tmpl, spec or "", conv))
        return _merge(out)

    @staticmethod
    def _apply(parts, spec, conv):
        """format spec / conversion applied to an already evaluated value"""
        if len(parts) == 1 and parts[0][0] == "field":
            f = parts[0]
            if f[2] and spec:
                return [("?", "nested format specs")]
            return [("field", f[1], f[2] or spec, f[3] or conv, f[4], f[5])]
        if spec:
            return [("?", "format spec on a composite value")]
        return parts

    def _ifexp(self, e, depth):
        test = e.test
        for x in ast.walk(test):
            # (value := <expr>) in the test: the branches print that value
            if isinstance(x, ast.NamedExpr) and isinstance(x.target, ast.Name):
                self.env[x.target.id] = [x.value]
        body, orelse = self.of(e.body, depth + 1), self.of(e.orelse, depth + 1)
        neg = False
        subj = None
        kind = None
        t = test
        if isinstance(t, ast.UnaryOp) and isinstance(t.op, ast.Not):
            neg = not neg
            t = t.operand
        if isinstance(t, ast.Compare) and len(t.ops) == 1 and isinstance(t.comparators[0], ast.Constant) \
                and t.comparators[0].value is None and isinstance(t.ops[0], (ast.Is, ast.IsNot, ast.Eq, ast.NotEq)):
            left = t.left.value if isinstance(t.left, ast.NamedExpr) else t.left
            subj = norm(left)
            sf = self.of(left, depth + 1)
            if len(sf) == 1 and sf[0][0] == "field" and sf[0][4] is None:
                subj = sf[0][1]
            kind = "none"
            if isinstance(t.ops[0], (ast.Is, ast.Eq)):
                neg = not neg     # 'x is None' selects the absent branch first
        elif isinstance(t, (ast.Name, ast.Attribute)):
            subj = norm(t)
            kind = "truthy"
        if subj is None:
            return [("?", norm(e))]
        present, absent = (orelse, body) if neg else (body, orelse)
        if len(present) == 1 and present[0][0] == "field" and present[0][4] is None and \
                len(absent) == 1 and absent[0][0] == "lit":
            f = present[0]
            src = f[1]
            # the guard must test the printed value itself
            if src != subj and not self._same_value(src, subj):
                return [("?", norm(e))]
            return [("field", src, f[2], f[3], absent[0][1], kind)]
        return [("?", norm(e))]

    def _same_value(self, a, b):
        def resolve(x):
            seen = 0
            while x in self.env and len(self.env[x]) == 1 and seen < 5:
                x = norm(self.env[x][0])
                seen += 1
            return x
        return resolve(a) == resolve(b)


def _copy(n):
    import copy as _c
    return _c.deepcopy(n)


class _SubstConst(ast.NodeTransformer):
    def __init__(self, binding):
        self.binding = binding

    def visit_Name(self, n):
        if isinstance(n.ctx, ast.Load) and n.id in self.binding:
            return ast.copy_location(ast.Constant(value=self.binding[n.id]), n)
        return n


def _merge(parts):
    out = []
    for p in parts:
        if p[0] == "lit" and out and out[-1][0] == "lit":
            out[-1] = ("lit", out[-1][1] + p[1])
        elif p[0] == "lit" and p[1] == "":
            continue
        else:
            out.append(p)
    return out


def module_constants(cm):
    """module-level NAME = <str/int constant>, assigned once"""
    seen = {}
    for st in cm.tree.body:
        tgt = val = None
        if isinstance(st, ast.Assign) and len(st.targets) == 1 and isinstance(st.targets[0], ast.Name):
            tgt, val = st.targets[0].id, st.value
        elif isinstance(st, ast.AnnAssign) and isinstance(st.target, ast.Name) and st.value is not None:
            tgt, val = st.target.id, st.value
        if tgt is None:
            continue
        if tgt in seen:
            seen[tgt] = None
        elif isinstance(val, ast.Constant) and isinstance(val.value, (str, int)) and not isinstance(val.value, bool):
            seen[tgt] = val.value
        else:
            seen[tgt] = None
    return {k: v for k, v in seen.items() if v is not None}


def as_format(parts):
    """(format literal with one '{}' per field, [field parts]) or None when a part is unknown"""
    lit = ""
    fields = []
    for p in parts:
        if p[0] == "lit":
            lit += p[1].replace("{", "{{").replace("}", "}}")
        elif p[0] == "field":
            lit += "{}"
            fields.append(p)
        else:
            return None
    return lit, fields


def returned_template(cm, fn):
    """template of the single returned value of fn, or None"""
    rets = [r for r in ast.walk(fn) if isinstance(r, ast.Return) and r.value is not None]
    if len(rets) != 1:
        return None
    return Template(fn, cm).of(rets[0].value)
