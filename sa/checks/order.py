"""Interval-order obligations shared by C02 and C07: for every path of every
production (and of the latent layer) that returns an interval with two fully dated
ends, the start must not be after the end under every valuation consistent with
the path condition."""
import ast

from ..core import Undecided
from .. import e4_order as e4
from ..e3_values import *  # noqa
from ..e3_rules import shape_of

DATE = ("year", "month", "day")
FULL = ("year", "month", "day", "hour", "minute")
FIELD_RANGE = {"year": (1970, 2100), "month": (1, 12), "day": (1, 31), "hour": (0, 23),
               "minute": (0, 59), "DOW": (0, 6), "value": (0, 200)}
ARITH_DOMAIN = {
    "hour": list(range(24)),
    "minute": [0, 1, 15, 30, 45, 59],
    "day": [28, 31],
    "month": [2, 12],
    "year": [2020],
    "value": [0, 1, 2, 12, 31, 100],
}


def arithmetic_leaves(syms):
    """Leaves that occur under an arithmetic operator or in a datetime constructor."""
    out = set()

    def rec(s, under):
        if not isinstance(s, tuple) or not s:
            return
        if isinstance(s[0], str) and (s[0] in ("attr", "unk") or s == ("ts",)):
            if under:
                out.add(s)
            return
        u = under or not isinstance(s[0], str) or s[0] in ("op", "dtnew", "dtexpr", "rd", "neg", "min", "max", "abs")
        for x in (s[1:] if isinstance(s[0], str) else s):
            if isinstance(x, tuple):
                rec(x, u)
    for s in syms:
        rec(s, False)
    return out


def make_domains(all_syms, conds, ranges=None):
    arith = arithmetic_leaves(all_syms)
    consts = e4.constants_in(conds)
    ranges = ranges or {}

    def dom(leaf):
        if leaf == ("ts",):
            import datetime as _dt
            return [_dt.datetime(2020, 2, 28, 10, 30, 20), _dt.datetime(2020, 12, 31, 23, 59, 59),
                    _dt.datetime(2021, 1, 1, 0, 0, 0)]
        if leaf[0] == "unk":
            lo, hi = leaf[1], leaf[2]
            if hi - lo <= 30:
                return list(range(int(lo), int(hi) + 1))
            return [int(lo), int(lo) + 1, int(hi) - 1, int(hi)]
        field = leaf[2]
        flo, fhi = FIELD_RANGE.get(field, (0, 100))
        lo, hi = ranges.get(leaf, (flo, fhi))
        lo = int(max(lo, flo))
        hi = int(min(hi, fhi))
        if lo > hi:
            lo, hi = flo, fhi
        if leaf in arith:
            d = [x for x in ARITH_DOMAIN.get(field, [lo, lo + 1, hi]) if lo <= x <= hi]
            for c in consts:
                for x in (c - 1, c, c + 1):
                    if lo <= x <= hi and field in ("hour", "minute", "value"):
                        d.append(x)
            return sorted(set(d)) or [lo]
        pts = {lo, min(lo + 1, hi)}
        for c in consts:
            for x in (c - 1, c, c + 1):
                if lo <= x <= hi:
                    pts.add(x)
        return sorted(pts)
    return dom


def e4_inf():
    return float("inf")


def _field_syms(st, obj):
    out = {}
    for f in FULL:
        v = obj.attrs.get(f)
        if isinstance(v, IntV):
            out[f] = v.sym
        elif isinstance(v, NoneV) or v is None:
            out[f] = None
        else:
            out[f] = _BAD
    return out


_BAD = ("bad",)


def interval_ends(st, ref):
    """(t_from obj, t_to obj) of an interval result, or None."""
    obj = st.heap[ref.oid]
    a, b = obj.attrs.get("t_from"), obj.attrs.get("t_to")
    if isinstance(a, RefV) and isinstance(b, RefV):
        return st.heap[a.oid], st.heap[b.oid]
    return None


def leaf_ranges(st):
    """Ranges of parameter attribute leaves in the final state of a path."""
    out = {}
    for o in st.heap.values():
        if o.fresh:
            continue
        for f, v in o.attrs.items():
            if isinstance(v, IntV):
                out[("attr", o.sym, f)] = (v.lo, v.hi)
    return out


_MEMO = {}


def check_path_order(st, conds, ref, strict, max_span_hours=None, limit=400000, tods=None):
    """Returns (verdict, detail, witness): verdict in 'ok' | 'violated' | 'undecided' |
    'na' (not both ends fully dated)."""
    ends = interval_ends(st, ref)
    if ends is None:
        return "na", "", None
    fa, fb = _field_syms(st, ends[0]), _field_syms(st, ends[1])
    if any(fa[f] is None for f in DATE) or any(fb[f] is None for f in DATE):
        return "na", "", None
    if any(v is _BAD for v in list(fa.values()) + list(fb.values())):
        return "undecided", "interval end field is not an integer term", None
    terms = [fa[f] for f in FULL] + [fb[f] for f in FULL]
    syms = [s for s in terms if s is not None]
    leaves = set()
    for s in syms:
        e4.base_syms(s, leaves)
    for c, _ in conds:
        e4.base_syms(c, leaves)
    hyp = input_intervals(st)
    hyp_terms = []
    for a_, b_ in hyp:
        for s_ in list(a_.values()) + list(b_.values()):
            if s_ is not None:
                e4.base_syms(s_, leaves)
        hyp_terms.append(([a_[f] for f in FULL], [b_[f] for f in FULL]))
    order_ = sorted(leaves, key=repr)
    dom = make_domains(syms + [c for c, _ in conds], conds, leaf_ranges(st))
    use_tods = False
    if tods is not None:
        from .todsets import tod_interval_param, is_tod_obj
        use_tods = any((tod_interval_param(st, o) is not None) or (not o.fresh and is_tod_obj(o))
                       for o in st.heap.values())
    try:
        all_terms = list(terms)
        for ha, hb in hyp_terms:
            all_terms += ha + hb
        f = e4.compile_path(conds, all_terms, order_)
        if use_tods:
            it = tods.valuations(st, leaves, extra_domains=_compact(dom), order=order_)
            dkey = ("tods", tuple((repr(l), tuple(_compact(dom)(l)) if l[0] not in ("attr",) or True else ())
                                  for l in order_), _tod_sig(st, tods))
        else:
            size = 1
            for l in order_:
                size *= len(dom(l))
            if size > limit:
                return "undecided", "valuation space too large ({})".format(size), None
            it = _product(order_, dom)
            dkey = ("prod", tuple((repr(l), tuple(dom(l))) for l in order_))
        mk = (id(f), dkey, strict, max_span_hours)
        if mk in _MEMO:
            return _MEMO[mk]
        res = _scan(f, it, order_, len(hyp_terms), strict, max_span_hours)
        _MEMO[mk] = res
        return res
    except Undecided as e:
        return "undecided", str(e), None


def _tod_sig(st, tods):
    from .todsets import tod_interval_param, is_tod_obj
    sig = []
    for o in st.heap.values():
        if o.fresh:
            continue
        pr = tod_interval_param(st, o)
        objs = list(pr) if pr is not None else ([o] if is_tod_obj(o) else [])
        for x in objs:
            h, m = x.attrs.get("hour"), x.attrs.get("minute")
            sig.append((repr(x.sym), getattr(h, "lo", None), getattr(h, "hi", None),
                        getattr(m, "lo", None), getattr(m, "hi", None)))
    return (tuple(sig), len(tods.T))


def _product(order_, dom):
    import itertools
    for combo in itertools.product(*[dom(l) for l in order_]):
        yield list(combo)


def _scan(f, it, order_, nhyp, strict, max_span_hours):
    import datetime as _dt
    n = 0
    feasible = 0
    for a_ in it:
        n += 1
        if n > 3000000:
            return "undecided", "valuation space too large", None
        r = f(a_)
        if r is None:
            continue
        ok_h = True
        for k in range(nhyp):
            ha = r[10 + k * 10: 15 + k * 10]
            hb = r[15 + k * 10: 20 + k * 10]
            hs = (ha[0], ha[1], ha[2], ha[3] or 0, ha[4] or 0)
            he = (hb[0], hb[1], hb[2], hb[3] if hb[3] is not None else 23,
                  hb[4] if hb[4] is not None else 59)
            if hs > he:
                ok_h = False
                break
        if not ok_h:
            continue
        a, b = r[0:5], r[5:10]
        feasible += 1
        start = (a[0], a[1], a[2], a[3] or 0, a[4] or 0)
        end = (b[0], b[1], b[2], b[3] if b[3] is not None else 23, b[4] if b[4] is not None else 59)
        bad = start >= end if strict else start > end
        if bad:
            return "violated", "start {} is {} end {}".format(
                start, "not before" if strict else "after", end), _witness(dict(zip(order_, a_)))
        if max_span_hours is not None and a[3] is not None and b[3] is not None:
            try:
                d = _dt.datetime(*end) - _dt.datetime(*start)
                if d.total_seconds() > max_span_hours * 3600:
                    return "violated", "range {} .. {} is longer than {} h".format(
                        start, end, max_span_hours), _witness(dict(zip(order_, a_)))
            except ValueError:
                pass
    if feasible == 0:
        return "ok", "no feasible valuation ({} tried)".format(n), None
    return "ok", "{} of {} valuations feasible".format(feasible, n), None


def _witness(val):
    out = {}
    for k, v in val.items():
        if k[0] == "unk":
            continue
        if k == ("ts",):
            out["ts"] = str(v)
        else:
            base = k[1]
            name = base[-1] if isinstance(base, tuple) else str(base)
            if isinstance(base, tuple) and base[0] == "attr":
                name = "{}.{}".format(base[1][-1], base[2])
            out["{}.{}".format(name, k[2])] = v
    return out


def input_intervals(st):
    """Field terms of the interval *parameters* whose two ends are fully dated: the
    obligations are inductive — an interval handed to a production was itself built
    by a production and is assumed ordered."""
    out = []
    for o in st.heap.values():
        if o.fresh or "t_from" not in o.attrs or "t_to" not in o.attrs:
            continue
        a, b = o.attrs.get("t_from"), o.attrs.get("t_to")
        if not (isinstance(a, RefV) and isinstance(b, RefV)):
            continue
        oa, ob = st.heap[a.oid], st.heap[b.oid]
        fa = {f: ("attr", oa.sym, f) if isinstance(oa.attrs.get(f), IntV) else None for f in FULL}
        fb = {f: ("attr", ob.sym, f) if isinstance(ob.attrs.get(f), IntV) else None for f in FULL}
        if any(fa[f] is None for f in DATE) or any(fb[f] is None for f in DATE):
            continue
        out.append((fa, fb))
    return out


def _ordered(fa, fb, val):
    try:
        a = [val.get(fa[f]) if fa[f] is not None else None for f in FULL]
        b = [val.get(fb[f]) if fb[f] is not None else None for f in FULL]
    except Exception:
        return True
    if any(x is None for x in a[:3] + b[:3]):
        return True
    start = (a[0], a[1], a[2], a[3] or 0, a[4] or 0)
    end = (b[0], b[1], b[2], b[3] if b[3] is not None else 23, b[4] if b[4] is not None else 59)
    return start <= end


def _compact(dom):
    """Date leaves next to a clock domain: two representative values suffice (month
    and year ends are covered by the second)."""
    def d(leaf):
        if leaf == ("ts",) or leaf[0] == "unk":
            return dom(leaf)
        f = leaf[2]
        if f == "year":
            return [2020]
        if f == "month":
            return [2, 12]
        if f == "day":
            return [28, 31]
        return dom(leaf)
    return d
