"""C18 — resolutions compare, hash and print by value; the printed form round-trips
(DESIGN.md §4 C18)."""
import ast
import string

from ..core import AnalysisError, Undecided
from .. import e1_model as e1
from .. import e2_regex as e2
from ..e3_rules import get_engine
from ..e3_state import State
from ..e3_values import *  # noqa
from ..e3_interp import Raised, PathLimit
from .common import norm, calls_in
from . import fmtterms as ft_

SPAN = ("mstart", "mend")


def resolution_classes(ctx):
    """Classes a gold string can denote: the value classes of types.py that can be read back
    from their text form (an Artifact subclass that defines from_str)."""
    cm = ctx.imod("ctparse.corpus")
    f = cm.func("parse_nb_string")
    tm = ctx.imod("ctparse.types")
    names = []

    def derives(cname, seen=()):
        cls = tm.classes.get(cname)
        if cls is None or cname in seen:
            return False
        for b_ in cls.bases:
            if isinstance(b_, ast.Name) and (b_.id == "Artifact" or derives(b_.id, seen + (cname,))):
                return True
        return False
    for cname in tm.classes:
        if "." in cname:
            continue
        if derives(cname) and (cname + ".from_str") in tm.funcs:
            names.append(cname)
    if not names:
        raise AnalysisError("anchor vanished: value classes with from_str in ctparse/types.py")
    return names, f, cm


# clauses that report a construct they found (a write, a computed value), not a pattern they
# failed to find: the idiom guard of sa/idioms.py does not apply to them
IDIOM_GUARD_EXEMPT = {"prefix-offsets", "value-fields", "eq-hash", "round-trip"}


def check(ctx, rep, tier):
    rep.describe("value-fields", "for each resolution class the attribute list consulted by "
                 "__eq__/__hash__ (as bound after abstract interpretation of its constructor "
                 "chain) equals the set of attributes the constructor assigns from its "
                 "parameters and contains no span field")
    rep.describe("eq-hash", "__eq__ and __hash__ read the same attribute list; __eq__ compares "
                 "the dynamic types")
    rep.describe("print-parse", "the fields interpolated by __str__ are the fields from_str "
                 "passes to the constructor, position by position; each printed width is "
                 "accepted by the parser's sub-pattern; the absent marker is not a field value; "
                 "the interval separator cannot occur inside a printed end")
    rep.describe("round-trip", "Time.__str__ and Time.from_str, constant-propagated over a grid of field values "
                 "(present / absent combinations and every value of each field); the parser's pattern is "
                 "matched by the analysis's own matcher: from_str(str(t)) rebuilds the fields of t")
    rep.describe("prefix-offsets", "the slice bounds of parse_nb_string equal the length of "
                 "'<Class>[]{' and of the closing brace computed from nb_str's literal")
    names, pf, cm = resolution_classes(ctx)
    rep.count("resolution_classes", len(names), 3)
    eng = get_engine(ctx)
    for name in names:
        _value_fields(ctx, rep, eng, name)
    _eq_hash(ctx, rep)
    _time_print_parse(ctx, rep)
    _interval_print_parse(ctx, rep)
    _duration_print_parse(ctx, rep)
    _offsets(ctx, rep, names, pf, cm)
    rep.assume("not decided: injectivity outside the field ranges of C02 (year >= 10000, negatives)")


def _attr_list(ip, st, ref, node):
    """the equality / hash attribute list of an instance: set in the constructor or on the class"""
    al = st.heap[ref.oid].attrs.get("_attrs")
    if al is not None:
        return al
    try:
        outs = ip.getattr_(st, ref, "_attrs", node)
    except Exception:
        return None
    vals = [v for _s, v in outs if not isinstance(v, Raised)]
    return vals[0] if len(vals) == 1 else None


def _value_fields(ctx, rep, eng, name):
    tm = ctx.imod("ctparse.types")
    cls = tm.classes.get(name)
    if cls is None:
        raise AnalysisError("anchor vanished: class {}".format(name))
    cv = ClassV(tm, cls)
    ip = eng.interp
    mem = ip.find_member(cv, "__init__")
    if mem is None:
        raise AnalysisError("anchor vanished: {}.__init__".format(name))
    init = mem[2]
    params = [a.arg for a in init.args.args][1:]
    st = State()
    st.frames.append({})
    ip.cur_mod.append(tm)
    ip.cur_func.append("<construct {}>".format(name))
    ip.cur_fnode.append(None)
    ip.paths = 0
    args = [TopV("ctor-arg:" + p, sym=("ctorarg", p)) for p in params]
    c = "{}::{}".format(tm.rel, name)
    try:
        outs = ip.instantiate(st, cv, args, {}, cls)
    except PathLimit:
        rep.undecided("value-fields", c, tm.where(cls), "path limit")
        return
    finally:
        ip.cur_mod.pop()
        ip.cur_func.pop()
        ip.cur_fnode.pop()
    if all(isinstance(ref, Raised) for s, ref in outs):
        rep.undecided("value-fields", c, tm.where(cls), "constructor raises on abstract arguments")
        return
    for s, ref in outs:
        if isinstance(ref, Raised):
            continue      # argument validation: only the constructing paths matter here
        obj = s.heap[ref.oid]
        al = _attr_list(ip, s, ref, cls)
        if not isinstance(al, TupleV) or not all(isinstance(x, StrV) and x.is_const() for x in al.items):
            rep.undecided("value-fields", c, tm.where(cls), "attribute list is not a constant list")
            continue
        attrs = [x.const() for x in al.items]
        from_params = sorted(k for k, v in obj.attrs.items()
                             if isinstance(v, TopV) and isinstance(v.sym, tuple) and v.sym[0] == "ctorarg")
        span_in = [a for a in attrs if a in SPAN]
        ok = sorted(attrs) == from_params and not span_in and len(set(attrs)) == len(attrs)
        det = ""
        if span_in:
            det = "compares by character span {}: two values at different positions differ, two " \
                  "different values at the same position are equal".format(span_in)
        elif sorted(attrs) != from_params:
            det = "equality/hash fields {} != constructor value fields {}".format(sorted(attrs), from_params)
        rep.add("value-fields", c + "::_attrs", tm.where(cls), ok, det,
                witness=None if ok else {"_attrs": attrs, "constructor_fields": from_params})


def _eq_hash(ctx, rep):
    tm = ctx.imod("ctparse.types")
    for cname, cls in tm.classes.items():
        eq = tm.funcs.get(cname + ".__eq__")
        hs = tm.funcs.get(cname + ".__hash__")
        if eq is None and hs is None:
            continue
        c = "{}::{}".format(tm.rel, cname)
        if (eq is None) != (hs is None):
            rep.violated("eq-hash", c + "::eq/hash pair", tm.where(cls), "only one of __eq__/__hash__ is defined")
            continue
        eq_fns, hs_fns = _with_self_helpers(tm, cname, eq), _with_self_helpers(tm, cname, hs)
        src_eq = {norm(a) for g_ in eq_fns for a in ast.walk(g_) if isinstance(a, ast.Attribute) and a.attr == "_attrs"}
        src_h = {norm(a) for g_ in hs_fns for a in ast.walk(g_) if isinstance(a, ast.Attribute) and a.attr == "_attrs"}
        ok = bool(src_eq) and src_eq == src_h
        rep.add("eq-hash", c + "::same attribute list", tm.where(eq), ok,
                "" if ok else "__eq__ reads {} and __hash__ reads {}".format(sorted(src_eq), sorted(src_h)))
        types = [n for n in ast.walk(eq) if isinstance(n, ast.Compare) and "type(" in norm(n)]
        isinst = [n for n in ast.walk(eq) if isinstance(n, ast.Call) and norm(n.func) == "isinstance"]
        ok_t = bool(types)
        rep.add("eq-hash", c + "::dynamic type compared", tm.where(eq), ok_t,
                "" if ok_t else "__eq__ does not compare the dynamic types" +
                (" (isinstance admits subclasses of a different kind)" if isinst else ""))
        # the hash is a function of the current field values: nothing memoised on the instance
        helper_names = {getattr(g_, "name", "") for g_ in hs_fns}
        stores = [n for g_ in hs_fns for n in ast.walk(g_) if isinstance(n, ast.Attribute) and isinstance(n.ctx, ast.Store)]
        other_reads = sorted({n.attr for g_ in hs_fns for n in ast.walk(g_) if isinstance(n, ast.Attribute)
                              and isinstance(n.ctx, ast.Load) and norm(n.value) == "self"
                              and n.attr not in ("_attrs", "__class__") and n.attr not in helper_names})
        pure = not stores and not other_reads
        rep.add("eq-hash", c + "::hash computed from the current fields", tm.where(hs), pure,
                "" if pure else ("__hash__ stores {} on the instance: a later field change or a copy made in "
                                 "another process keeps a stale hash".format(norm(stores[0])) if stores else
                                 "__hash__ reads {} instead of the value fields".format(other_reads)))
        # every attribute compared with ==, all of them: decided on the abstract interpretation
        # of __eq__ on two instances with unknown field values (below, per resolution class)
        _eq_semantics(ctx, rep, tm, cname, eq)


def _with_self_helpers(tm, cname, fn):
    """fn and the methods of the class (or of a base class in the module) it calls on self,
    transitively: equality and hashing may walk the attributes through one shared helper"""
    out, todo = [], [fn]
    classes = [cname] + [norm(b) for b in tm.classes[cname].bases] if cname in tm.classes else [cname]
    while todo:
        g = todo.pop()
        if any(g is x for x in out):
            continue
        out.append(g)
        for n in ast.walk(g):
            if isinstance(n, ast.Attribute) and isinstance(n.value, ast.Name) and n.value.id == "self":
                for c_ in classes:
                    h = tm.funcs.get(c_ + "." + n.attr)
                    if h is not None and not any(h is x for x in out):
                        todo.append(h)
    return out


def _abstract_instance(ip, tm, st, cname, tag):
    cls = tm.classes.get(cname)
    cv = ClassV(tm, cls)
    mem = ip.find_member(cv, "__init__")
    if mem is None:
        return None, None
    params = [a.arg for a in mem[2].args.args][1:]
    args = [TopV("{}.{}".format(tag, p), sym=("ctorarg", tag, p)) for p in params]
    outs = [(s, r) for s, r in ip.instantiate(st, cv, args, {}, cls) if not isinstance(r, Raised)]
    if len(outs) != 1:
        return None, None
    return outs[0]


def _eq_semantics(ctx, rep, tm, base, eq):
    """__eq__ of the value classes, interpreted on two instances a, b of the same class whose
    fields are unknown: every path that answers True must have compared every listed attribute
    of a with the same attribute of b; against an instance of another class no path answers True."""
    eng = get_engine(ctx)
    ip = eng.interp
    names, _pf, _cm = resolution_classes(ctx)
    c0 = "{}::{}".format(tm.rel, base)
    for cname in names:
        st = State()
        st.frames.append({})
        ip.cur_mod.append(tm)
        ip.cur_func.append("<eq {}>".format(cname))
        ip.cur_fnode.append(None)
        ip.paths = 0
        und = None
        missing = {}
        cross_true = False
        try:
            s1, a = _abstract_instance(ip, tm, st, cname, "a")
            s2, b = (None, None) if a is None else _abstract_instance(ip, tm, s1, cname, "b")
            if a is None or b is None:
                und = "constructor not interpretable on unknown arguments"
            else:
                oa, ob = s2.heap[a.oid], s2.heap[b.oid]
                al = _attr_list(ip, s2, a, tm.classes.get(cname))
                if not isinstance(al, TupleV) or not all(isinstance(x, StrV) and x.is_const() for x in al.items):
                    und = "attribute list is not a constant list"
                else:
                    attrs = [x.const() for x in al.items]
                    mem = ip.find_member(oa.cls, "__eq__")
                    fv = FuncV(mem[1], mem[2], bound_self=a)
                    n_true = 0
                    for s3, oc in ip.call_func(fv, [b], {}, s2, mem[2]):
                        if s3.undecided:
                            und = und or s3.undecided[0][2]
                        if oc[0] != "ret":
                            continue
                        v = oc[1]
                        if not (isinstance(v, BoolV) and v.value is True):
                            continue
                        n_true += 1
                        eqs = set()
                        def add_eq(x, y):
                            eqs.add(frozenset([x, y]))
                            # equality of two tuples is equality of their elements
                            if isinstance(x, tuple) and isinstance(y, tuple) and len(x) == 2 and len(y) == 2 \
                                    and x[0] == y[0] == "tuple" and len(x[1]) == len(y[1]):
                                for p_, q_ in zip(x[1], y[1]):
                                    add_eq(p_, q_)
                        for cnd, truth in s3.conds:
                            if truth and isinstance(cnd, tuple) and len(cnd) == 4 and cnd[0] == "cmp" and cnd[1] == "Eq":
                                add_eq(cnd[2], cnd[3])
                        for f in attrs:
                            va, vb = oa.attrs.get(f), ob.attrs.get(f)
                            pair = frozenset([getattr(va, "sym", None), getattr(vb, "sym", None)])
                            if pair not in eqs:
                                missing.setdefault(f, 0)
                                missing[f] += 1
                    if n_true == 0 and not und:
                        und = "no path of __eq__ answers True on two instances of one class"
                    # another class
                    other = [n for n in names if n != cname]
                    if other and not und:
                        s4, cobj = _abstract_instance(ip, tm, s2, other[0], "c")
                        if cobj is not None:
                            for s5, oc in ip.call_func(fv, [cobj], {}, s4, mem[2]):
                                if oc[0] == "ret" and isinstance(oc[1], BoolV) and oc[1].value is not False:
                                    cross_true = other[0]
        except PathLimit:
            und = "path limit"
        finally:
            ip.cur_mod.pop()
            ip.cur_func.pop()
            ip.cur_fnode.pop()
        c = "{}::all attributes compared [{}]".format(c0, cname)
        if und:
            rep.undecided("eq-hash", c, tm.where(eq), und)
            continue
        rep.add("eq-hash", c, tm.where(eq), not missing,
                "" if not missing else "__eq__ can answer True without comparing {}".format(sorted(missing)))
        rep.add("eq-hash", "{}::other kinds are unequal [{}]".format(c0, cname), tm.where(eq), not cross_true,
                "" if not cross_true else "a {} can compare equal to a {}".format(cname, cross_true))


def _format_fields(fmt):
    out = []
    for lit, fname, spec, conv in string.Formatter().parse(fmt):
        if fname is not None:
            out.append((lit, fname, spec or "", conv))
    return out


def _time_fold(ctx, tm, st, fs):
    """Print and parse back, by constant propagation (e1.PureEval) of Time.__str__ and
    Time.from_str over a grid of field values; the parser's regex is matched by the analysis's own
    matcher (e2.preferred_match).  -> (number of round trips evaluated, first failure or None);
    raises Undecided when the two functions cannot be folded."""
    import itertools
    env = ctx.model.env("ctparse.types")
    tcls = env.get("Time")
    table = ctx.model.const("ctparse.types", "pod_hours")
    pods = sorted(table)[:2] if isinstance(table, dict) and table else ["morning"]
    grid = {"year": [None, 1, 1970, 2024, 9999], "month": [None, 1, 12], "day": [None, 1, 31],
            "hour": [None, 0, 9, 23], "minute": [None, 0, 59], "DOW": [None, 0, 6], "POD": [None] + pods[:1]}
    init = tm.funcs.get("Time.__init__")
    names = [a.arg for a in init.args.args][1:] if init is not None else list(grid)
    if sorted(names) != sorted(grid):
        raise Undecided("Time fields are {}".format(names))
    parsed_cache = {}

    def hook(obj, attr, args, kwargs):
        if isinstance(obj, e1.Opaque) and obj.kind == "call" and attr in ("match", "fullmatch") and args \
                and isinstance(args[0], str):
            inf = obj.info
            if inf[1] == "compile" and inf[2] and isinstance(inf[2][0], str):
                pat = inf[2][0]
                if pat not in parsed_cache:
                    parsed_cache[pat] = e2.parse(pat, version1=False)
                P = parsed_cache[pat]
                r = e2.preferred_match(P, args[0], 0)
                if r is None or (attr == "fullmatch" and r[0] != len(args[0])):
                    return None
                return e1.FoldMatch(args[0], r[0], {k: v for k, v in r[1].items() if isinstance(k, int)},
                                    max(P.by_idx) if P.by_idx else 0, dict(P.groups))
        if isinstance(obj, e1.Opaque) and attr in ("debug", "info", "warning"):
            return None
        return NotImplemented
    n = 0
    bad = None
    combos = list(itertools.product(*[grid[k] for k in names]))
    # plus every value of each field alone (full ranges)
    full = {"year": range(1, 10000, 7), "month": range(1, 13), "day": range(1, 32), "hour": range(24),
            "minute": range(60), "DOW": range(7)}
    for k, rng in full.items():
        for v in rng:
            combos.append(tuple(v if nm == k else (2024 if nm == "year" and k != "year" else None) for nm in names))
    for combo in combos:
        vals = dict(zip(names, combo))
        rec = e1.Record(**vals)
        text = _fold_call(ctx, tm, st, [rec], hook)
        if not isinstance(text, str):
            raise Undecided("Time.__str__ does not fold to a string")
        try:
            back = _fold_call(ctx, tm, fs, [tcls, text], hook)
        except e1._Raised as e:
            bad = bad or "Time({}) prints as '{}' which from_str rejects ({})".format(
                ", ".join("{}={}".format(k, v) for k, v in vals.items() if v is not None), text, e.what[:30])
            n += 1
            continue
        got = None
        if isinstance(back, e1.Opaque) and back.kind == "instance":
            _c, iargs, ikw, _n = back.info
            got = dict(zip(names, iargs))
            got.update(ikw)
            got = {k: got.get(k) for k in names}
        n += 1
        if got != vals:
            bad = bad or "Time({}) prints as '{}' and parses back as {}".format(
                ", ".join("{}={}".format(k, v) for k, v in vals.items() if v is not None), text,
                {k: v for k, v in (got or {}).items() if v is not None})
    return n, bad


def _time_print_parse(ctx, rep):
    tm = ctx.imod("ctparse.types")
    st = tm.func("Time.__str__")
    fs = tm.func("Time.from_str")
    c = tm.rel + "::Time"
    folded = None
    try:
        folded = _time_fold(ctx, tm, st, fs)
    except (Undecided, e1.StepBudget, e1._Raised, AnalysisError):
        folded = None
    if folded is not None:
        n_f, bad_f = folded
        rep.add("round-trip", c + "::round trip (printer and parser folded over the field grid)", tm.where(fs),
                bad_f is None, bad_f or "{} values".format(n_f))
    # printer: the returned value as a template of literals and fields (sa/checks/fmtterms.py)
    parts = ft_.returned_template(tm, st)
    af = ft_.as_format(parts) if parts is not None else None
    if af is None:
        if folded is None:
            rep.undecided("print-parse", c + "::__str__", tm.where(st), "printer not understood: {}".format(
                [p_ for p_ in (parts or []) if p_[0] == "?"][:2] or "no single returned value"))
        return
    outer, flds = af
    printed = []      # (field, spec, absent marker)
    for (_k, src, spec, conv, absent, guard) in flds:
        fld = src[5:] if src.startswith("self.") and src[5:].isidentifier() else None
        if fld is None or absent is None:
            printed.append((None, spec, absent))
            continue
        if guard == "truthy":
            # a truthiness test makes falsy values (0, '') print as the absent marker
            falsy = {"hour": 0, "minute": 0, "DOW": 0}.get(fld)
            if falsy is not None:
                rep.violated("print-parse", "{}::field {} printed when present".format(c, fld), tm.where(st),
                             "field {} is tested by truthiness: the value {} prints as the absent "
                             "marker and does not parse back".format(fld, falsy))
        printed.append((fld, spec, absent))
    if any(f is None for f, _, _ in printed):
        rep.undecided("print-parse", c + "::__str__", tm.where(st), "a printed field is not 'fmt.format(self.F) if self.F is not None else MARK'")
        return
    # parser pattern
    pat = None
    for stt in tm.tree.body:
        if isinstance(stt, ast.Assign) and isinstance(stt.value, ast.Call) and \
                e1.callee_name(stt.value.func) == "compile" and stt.value.args and \
                isinstance(stt.value.args[0], ast.Constant):
            nm = norm(stt.targets[0])
            if any(isinstance(x, ast.Name) and x.id == nm for x in ast.walk(fs)):
                pat = stt.value.args[0].value
    if pat is None:
        rep.undecided("print-parse", c + "::from_str", tm.where(fs), "parser pattern not found")
        return
    P = e2.parse(pat, version1=False)
    groups = sorted(P.by_idx)
    # constructor keywords <- group indices
    kw_group = {}
    for call2 in calls_in(fs, "cls") + calls_in(fs, "Time"):
        for k in call2.keywords:
            idx = None
            for g in ast.walk(k.value):
                if isinstance(g, ast.Call) and isinstance(g.func, ast.Attribute) and g.func.attr == "group" \
                        and g.args and isinstance(g.args[0], ast.Constant):
                    idx = g.args[0].value
                if isinstance(g, ast.Name):
                    # pod = match.group(7)   /   year, month, ... = match.groups()
                    for a in ast.walk(fs):
                        if isinstance(a, ast.Assign) and norm(a.targets[0]) == g.id:
                            for gg in ast.walk(a.value):
                                if isinstance(gg, ast.Call) and isinstance(gg.func, ast.Attribute) \
                                        and gg.func.attr == "group" and gg.args and isinstance(gg.args[0], ast.Constant):
                                    idx = idx or gg.args[0].value
                        if isinstance(a, ast.Assign) and len(a.targets) == 1 and isinstance(a.targets[0], (ast.Tuple, ast.List)) \
                                and isinstance(a.value, ast.Call) and isinstance(a.value.func, ast.Attribute) \
                                and a.value.func.attr == "groups" and not a.value.args:
                            names_ = [norm(t_) for t_ in a.targets[0].elts]
                            if g.id in names_:
                                idx = idx or (names_.index(g.id) + 1)
            kw_group[k.arg] = idx
    ok_map = True
    det = ""
    for pos, (fld, spec, marker) in enumerate(printed):
        gi = kw_group.get(fld)
        if gi != pos + 1:
            ok_map = False
            det = det or "field {} is printed at position {} but parsed from group {}".format(fld, pos + 1, gi)
    rep.add("print-parse", c + "::field order", tm.where(fs), ok_map, det)
    # literal text between fields agrees with the pattern's literals: evaluate by matching a
    # printed sample with the analysis's own automaton
    nfa = e2.build_nfa(P.root, P)
    samples = []
    table = ctx.model.const("ctparse.types", "pod_hours")
    pod_vals = sorted(table) if isinstance(table, dict) else ["morning"]
    rng = {"year": [1970, 2024, 9999, 1, 1900, 2000, 2100], "month": list(range(1, 13)),
           "day": list(range(1, 32)), "hour": list(range(24)), "minute": list(range(60)),
           "DOW": list(range(7)), "POD": list(pod_vals)}
    import itertools
    fields = [f for f, _, _ in printed]
    bad = None
    n = 0
    for present in itertools.product([False, True], repeat=len(fields)):
        vals = []
        for (fld, spec, marker), pr in zip(printed, present):
            if not pr:
                vals.append([marker])
            else:
                vals.append([("{:" + spec + "}").format(v) for v in rng.get(fld, [1])])
        for combo in itertools.product(*[v[:2] for v in vals]):
            text = outer.format(*combo)
            n += 1
            if len(text) not in e2.nfa_match_prefixes(nfa, text):
                bad = bad or "printed form '{}' is not accepted by the parser pattern".format(text)
    rep.add("print-parse", c + "::printed forms accepted", tm.where(st), bad is None,
            bad or "{} printed forms".format(n))
    # width agreement per field: the parser group must accept exactly the printed width
    for pos, (fld, spec, marker) in enumerate(printed):
        g = P.by_idx.get(pos + 1)
        if g is None:
            rep.violated("print-parse", c + "::group " + str(pos + 1), tm.where(fs), "parser group missing")
            continue
        gn = e2.build_nfa(g.child, P)
        vals = rng.get(fld, [1])
        texts = [("{:" + spec + "}").format(v) for v in vals] + [marker]
        miss = [t for t in texts if len(t) not in e2.nfa_match_prefixes(gn, t)]
        # a value must not look like the absent marker
        clash = [t for t in texts[:-1] if t == marker]
        ok = not miss and not clash
        rep.add("print-parse", "{}::field {} width".format(c, fld), tm.where(st), ok,
                "" if ok else ("printed {} not accepted by its parser group".format(miss[:2]) if miss
                               else "a value prints as the absent marker"))
    # the absent marker is not a part-of-day key
    if isinstance(table, dict):
        markers = {m for _, _, m in printed}
        clash = sorted(markers & set(table))
        rep.add("print-parse", c + "::absent marker vs part-of-day vocabulary", tm.where(st), not clash,
                "" if not clash else "part of day {} prints like the absent marker".format(clash))
    return outer


def _interval_print_parse(ctx, rep):
    """Interval: the printer's template gives the order of the ends and the separator; from_str is
    constant-propagated on printed forms whose ends are markers (and on open ends)."""
    tm = ctx.imod("ctparse.types")
    st = tm.func("Interval.__str__")
    fs = tm.func("Interval.from_str")
    c = tm.rel + "::Interval"
    parts = ft_.returned_template(tm, st)
    af = ft_.as_format(parts) if parts is not None else None
    if af is None:
        rep.undecided("print-parse", c + "::__str__", tm.where(st), "printer not understood")
        return
    outer, flds = af
    args = [f_[1] for f_ in flds]
    ok_order = args == ["self.t_from", "self.t_to"]
    rep.add("print-parse", c + "::ends printed in order", tm.where(st), ok_order,
            "" if ok_order else "printed ends are {}".format(args))
    if not ok_order:
        return
    lits = [p_[1] for p_ in parts if p_[0] == "lit"]
    sep = None
    seq = [p_[0] for p_ in parts]
    if seq == ["field", "lit", "field"]:
        sep = parts[1][1]
    # separator cannot occur inside a printed Time
    tparts = ft_.returned_template(tm, tm.func("Time.__str__"))
    if tparts is not None and sep is not None:
        pieces = [p_[1] for p_ in tparts if p_[0] == "lit"]
        inside = any(sep in p_ for p_ in pieces) or sep.strip() == ""
        rep.add("print-parse", c + "::separator not inside an end", tm.where(st), not inside,
                "" if not inside else "the interval separator {!r} occurs inside the printed form of an end".format(sep))
    A, B = "\ue000A\ue001", "\ue000B\ue001"
    icls = ctx.model.env("ctparse.types").get("Interval")

    def run(a_text, b_text):
        seen = []

        def hook(obj, attr, hargs, kwargs):
            if isinstance(obj, e1.ClassRef) and attr == "from_str":
                seen.append(hargs[0] if hargs else None)
                return e1.Probe("time:" + str(hargs[0] if hargs else None), hargs, kwargs)
            return NotImplemented
        try:
            r = _fold_call(ctx, tm, fs, [icls, outer.format(a_text, b_text)], hook)
        except e1._Raised as e:
            return None, seen, "raises " + e.what[:40]
        except (Undecided, e1.StepBudget) as e:
            return None, seen, "undecided: " + str(e)
        ends = {}
        if isinstance(r, e1.Opaque) and r.kind == "instance":
            cref, iargs, ikw, _n = r.info
            init = tm.funcs.get("Interval.__init__")
            pnames = [a_.arg for a_ in init.args.args][1:] if init is not None else ["t_from", "t_to"]
            ends = dict(zip(pnames, iargs))
            ends.update(ikw)
        return ends, seen, None

    def lab(v):
        return v.label[5:] if isinstance(v, e1.Probe) else v
    ends, seen, err = run(A, B)
    if err and err.startswith("undecided"):
        rep.undecided("print-parse", c + "::from_str", tm.where(fs), err)
        return
    ok = not err and ends is not None and lab(ends.get("t_from")) == A and lab(ends.get("t_to")) == B
    rep.add("print-parse", c + "::ends parsed in order", tm.where(fs), ok,
            "" if ok else "from_str on '<A>{}<B>' {}".format(sep, err or "gives t_from={}, t_to={}".format(
                lab((ends or {}).get("t_from")), lab((ends or {}).get("t_to")))).replace(A, "<A>").replace(B, "<B>"))
    rep.add("print-parse", c + "::separator", tm.where(fs), ok and sep is not None,
            "" if ok and sep is not None else "the printed separator {!r} is not what from_str splits at".format(sep))
    # open ends: printed as str(None)
    none_ok = True
    det = ""
    for a_text, b_text, which in (("None", B, "t_from"), (A, "None", "t_to")):
        ends, seen, err = run(a_text, b_text)
        if err or ends is None or ends.get(which) is not None or "None" in seen:
            none_ok = False
            det = det or "an open {} prints as 'None' but from_str {}".format(
                which, err or "reads it as {}".format(lab((ends or {}).get(which))))
    rep.add("print-parse", c + "::open end marker", tm.where(fs), none_ok, det)


def _duration_print_parse(ctx, rep):
    tm = ctx.imod("ctparse.types")
    st = tm.func("Duration.__str__")
    fs = tm.func("Duration.from_str")
    c = tm.rel + "::Duration"
    parts = ft_.returned_template(tm, st)
    af = ft_.as_format(parts) if parts is not None else None
    srcs = [f_[1] for f_ in af[1]] if af else None
    ok = af is not None and srcs == ["self.value", "self.unit.value"] and af[0] == "{} {}"
    rep.add("print-parse", c + "::printed as '<amount> <unit value>'", tm.where(st), bool(ok),
            "" if ok else "printer is {}".format(af[0] if af else "not understood") + " over {}".format(srcs))
    env = ctx.model.env("ctparse.types")
    du = env.get("DurationUnit")
    dcls = env.get("Duration")
    vals = [m.value for m in du.members.values()] if isinstance(du, e1.ClassRef) else []
    # from_str, constant-propagated on every printed unit: amount and unit come back
    ok2 = bool(vals) and ok
    det2 = ""
    if ok:
        for m in du.members.values():
            try:
                r = _fold_call(ctx, tm, fs, [dcls, af[0].format(1234, m.value)], lambda *a_: NotImplemented)
            except e1._Raised as e:
                ok2, det2 = False, det2 or "from_str raises {} on '1234 {}'".format(e.what[:40], m.value)
                continue
            except (Undecided, e1.StepBudget) as e:
                rep.undecided("print-parse", c + "::parsed as amount, unit", tm.where(fs), str(e))
                ok2 = None
                break
            got = None
            if isinstance(r, e1.Opaque) and r.kind == "instance":
                _cref, iargs, ikw, _n = r.info
                init = tm.funcs.get("Duration.__init__")
                pn = [a_.arg for a_ in init.args.args][1:] if init is not None else ["value", "unit"]
                got = dict(zip(pn, iargs))
                got.update(ikw)
            if not (got and got.get("value") == 1234 and got.get("unit") == m):
                ok2 = False
                det2 = det2 or "from_str('1234 {}') gives {}".format(m.value, got)
    if ok2 is not None:
        rep.add("print-parse", c + "::parsed as amount, unit", tm.where(fs), bool(ok2),
                det2 if not ok2 else "")
    ws = [v for v in vals if not isinstance(v, str) or any(ch.isspace() for ch in v) or v == ""]
    dup = len(set(vals)) != len(vals)
    rep.add("print-parse", c + "::unit values are single distinct tokens", tm.where(st), not ws and not dup and bool(vals),
            "" if (not ws and not dup and vals) else "unit values {} are not distinct single tokens".format(vals))


def _fold_call(ctx, mod, fnode, args, hook):
    """constant-propagate one call of a package function (e1.PureEval) with external / class
    method calls answered by *hook*"""
    env = dict(ctx.model.env(mod.name))
    origin = getattr(fnode, "_origin_rel", None)
    if origin and origin != mod.rel:
        # a definition grafted into the inlined view from the module it lives in: its free names
        # are those of that module
        for mn, m in ctx.model.mods.items():
            if m.rel == origin:
                env = dict(ctx.model.env(mn))
                env.update({k: v for k, v in ctx.model.env(mod.name).items() if k not in env})
    ev = e1.PureEval(ctx.model, mod, env, budget=50000)
    ev.ext_hook = hook
    ev.globals_decl = set()
    ev.allow_methods = True
    return ev.call_func(e1.FuncRef(mod, fnode, closure={}), args, {})


def _offsets(ctx, rep, names, pf, cm):
    """parse_nb_string hands from_str exactly what nb_str put between the braces: nb_str's
    template (sa/checks/fmtterms.py) is instantiated with each class name and a marker body,
    and parse_nb_string is constant-propagated on that text."""
    tm = ctx.imod("ctparse.types")
    nb = tm.func("Artifact.nb_str")
    parts = ft_.returned_template(tm, nb)
    af = ft_.as_format(parts) if parts is not None else None
    if af is None or len(af[1]) != 2:
        rep.undecided("prefix-offsets", tm.rel + "::Artifact.nb_str", tm.where(nb), "nb_str is not a "
                      "template of the class name and the text form")
        return
    lit, flds = af
    role = []
    for (_k, src, spec, conv, absent, guard) in flds:
        role.append("name" if "__name__" in src else ("body" if src in ("self",) or src.startswith("str(self") else "?"))
    if sorted(role) != ["body", "name"]:
        rep.undecided("prefix-offsets", tm.rel + "::Artifact.nb_str", tm.where(nb),
                      "nb_str prints {} instead of the class name and str(self)".format([f_[1] for f_ in flds]))
        return
    body = "\ue000B}{ODY\ue001"
    for cname in names:
        text = lit.format(*[cname if r == "name" else body for r in role])
        seen = []

        def hook(obj, attr, args, kwargs, seen=seen):
            if isinstance(obj, e1.ClassRef) and attr == "from_str":
                seen.append((obj.name, args[0] if args else None))
                return e1.Probe("parsed", args, kwargs)
            if isinstance(obj, e1.Opaque) and attr in ("debug", "info", "warning"):
                return None
            return NotImplemented
        det = ""
        try:
            _fold_call(ctx, cm, pf, [text], hook)
        except e1._Raised as e:
            det = "parse_nb_string raises {} on '{}'".format(e.what[:40], lit.format(*[cname if r == "name" else "..." for r in role]))
        except (Undecided, e1.StepBudget) as e:
            rep.undecided("prefix-offsets", "{}::parse_nb_string::{}".format(cm.rel, cname), cm.where(pf), str(e))
            continue
        ok = not det and seen == [(cname, body)]
        if not ok and not det:
            det = "for '{}' parse_nb_string calls {}".format(
                lit.format(*[cname if r == "name" else "<body>" for r in role]),
                [(n_, (a_ or "").replace(body, "<body>")) for n_, a_ in seen] or "no from_str")
        rep.add("prefix-offsets", "{}::parse_nb_string::{}".format(cm.rel, cname), cm.where(pf), ok, det)
