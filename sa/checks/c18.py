"""C18 — resolutions compare, hash and print by value; the printed form round-trips
(DESIGN.md §4 C18)."""
import ast
import string

from ..core import AnalysisError, Undecided
from .. import e1_model as e1
from .. import e2_regex as e2
from ..e3_rules import get_engine
from ..e3_state import State
from ..e3_values import *  # noqa
from ..e3_interp import Raised, PathLimit
from .common import norm, calls_in

SPAN = ("mstart", "mend")


def resolution_classes(ctx):
    """Classes parse_nb_string can return (located by role)."""
    cm = ctx.mod("ctparse.corpus")
    f = cm.func("parse_nb_string")
    names = []
    for r in ast.walk(f):
        if isinstance(r, ast.Return) and isinstance(r.value, ast.Call) and \
                isinstance(r.value.func, ast.Attribute) and isinstance(r.value.func.value, ast.Name):
            names.append(r.value.func.value.id)
    if not names:
        raise AnalysisError("anchor vanished: parse_nb_string returns")
    return names, f, cm


def check(ctx, rep, tier):
    rep.describe("value-fields", "for each resolution class the attribute list consulted by "
                 "__eq__/__hash__ (as bound after abstract interpretation of its constructor "
                 "chain) equals the set of attributes the constructor assigns from its "
                 "parameters and contains no span field")
    rep.describe("eq-hash", "__eq__ and __hash__ read the same attribute list; __eq__ compares "
                 "the dynamic types")
    rep.describe("print-parse", "the fields interpolated by __str__ are the fields from_str "
                 "passes to the constructor, position by position; each printed width is "
                 "accepted by the parser's sub-pattern; the absent marker is not a field value; "
                 "the interval separator cannot occur inside a printed end")
    rep.describe("prefix-offsets", "the slice bounds of parse_nb_string equal the length of "
                 "'<Class>[]{' and of the closing brace computed from nb_str's literal")
    names, pf, cm = resolution_classes(ctx)
    rep.count("resolution_classes", len(names), 3)
    eng = get_engine(ctx)
    for name in names:
        _value_fields(ctx, rep, eng, name)
    _eq_hash(ctx, rep)
    _time_print_parse(ctx, rep)
    _interval_print_parse(ctx, rep)
    _duration_print_parse(ctx, rep)
    _offsets(ctx, rep, names, pf, cm)
    rep.assume("not decided: injectivity outside the field ranges of C02 (year >= 10000, negatives)")


def _value_fields(ctx, rep, eng, name):
    tm = ctx.mod("ctparse.types")
    cls = tm.classes.get(name)
    if cls is None:
        raise AnalysisError("anchor vanished: class {}".format(name))
    cv = ClassV(tm, cls)
    ip = eng.interp
    mem = ip.find_member(cv, "__init__")
    if mem is None:
        raise AnalysisError("anchor vanished: {}.__init__".format(name))
    init = mem[2]
    params = [a.arg for a in init.args.args][1:]
    st = State()
    st.frames.append({})
    ip.cur_mod.append(tm)
    ip.cur_func.append("<construct {}>".format(name))
    ip.cur_fnode.append(None)
    ip.paths = 0
    args = [TopV("ctor-arg:" + p, sym=("ctorarg", p)) for p in params]
    c = "{}::{}".format(tm.rel, name)
    try:
        outs = ip.instantiate(st, cv, args, {}, cls)
    except PathLimit:
        rep.undecided("value-fields", c, tm.where(cls), "path limit")
        return
    finally:
        ip.cur_mod.pop()
        ip.cur_func.pop()
        ip.cur_fnode.pop()
    if all(isinstance(ref, Raised) for s, ref in outs):
        rep.undecided("value-fields", c, tm.where(cls), "constructor raises on abstract arguments")
        return
    for s, ref in outs:
        if isinstance(ref, Raised):
            continue      # argument validation: only the constructing paths matter here
        obj = s.heap[ref.oid]
        al = obj.attrs.get("_attrs")
        if not isinstance(al, TupleV) or not all(isinstance(x, StrV) and x.is_const() for x in al.items):
            rep.undecided("value-fields", c, tm.where(cls), "attribute list is not a constant list")
            continue
        attrs = [x.const() for x in al.items]
        from_params = sorted(k for k, v in obj.attrs.items()
                             if isinstance(v, TopV) and isinstance(v.sym, tuple) and v.sym[0] == "ctorarg")
        span_in = [a for a in attrs if a in SPAN]
        ok = sorted(attrs) == from_params and not span_in and len(set(attrs)) == len(attrs)
        det = ""
        if span_in:
            det = "compares by character span {}: two values at different positions differ, two " \
                  "different values at the same position are equal".format(span_in)
        elif sorted(attrs) != from_params:
            det = "equality/hash fields {} != constructor value fields {}".format(sorted(attrs), from_params)
        rep.add("value-fields", c + "::_attrs", tm.where(cls), ok, det,
                witness=None if ok else {"_attrs": attrs, "constructor_fields": from_params})


def _eq_hash(ctx, rep):
    tm = ctx.mod("ctparse.types")
    for cname, cls in tm.classes.items():
        eq = tm.funcs.get(cname + ".__eq__")
        hs = tm.funcs.get(cname + ".__hash__")
        if eq is None and hs is None:
            continue
        c = "{}::{}".format(tm.rel, cname)
        if (eq is None) != (hs is None):
            rep.violated("eq-hash", c + "::eq/hash pair", tm.where(cls), "only one of __eq__/__hash__ is defined")
            continue
        src_eq = {norm(a) for a in ast.walk(eq) if isinstance(a, ast.Attribute) and a.attr == "_attrs"}
        src_h = {norm(a) for a in ast.walk(hs) if isinstance(a, ast.Attribute) and a.attr == "_attrs"}
        ok = bool(src_eq) and src_eq == src_h
        rep.add("eq-hash", c + "::same attribute list", tm.where(eq), ok,
                "" if ok else "__eq__ reads {} and __hash__ reads {}".format(sorted(src_eq), sorted(src_h)))
        types = [n for n in ast.walk(eq) if isinstance(n, ast.Compare) and "type(" in norm(n)]
        isinst = [n for n in ast.walk(eq) if isinstance(n, ast.Call) and norm(n.func) == "isinstance"]
        ok_t = bool(types)
        rep.add("eq-hash", c + "::dynamic type compared", tm.where(eq), ok_t,
                "" if ok_t else "__eq__ does not compare the dynamic types" +
                (" (isinstance admits subclasses of a different kind)" if isinst else ""))
        # the hash is a function of the current field values: nothing memoised on the instance
        stores = [n for n in ast.walk(hs) if isinstance(n, ast.Attribute) and isinstance(n.ctx, ast.Store)]
        other_reads = sorted({n.attr for n in ast.walk(hs) if isinstance(n, ast.Attribute)
                              and isinstance(n.ctx, ast.Load) and norm(n.value) == "self"
                              and n.attr not in ("_attrs", "__class__")})
        pure = not stores and not other_reads
        rep.add("eq-hash", c + "::hash computed from the current fields", tm.where(hs), pure,
                "" if pure else ("__hash__ stores {} on the instance: a later field change or a copy made in "
                                 "another process keeps a stale hash".format(norm(stores[0])) if stores else
                                 "__hash__ reads {} instead of the value fields".format(other_reads)))
        # every attribute compared with ==, all of them
        uses_all = any(isinstance(n, ast.Call) and norm(n.func) == "all" for n in ast.walk(eq))
        rep.add("eq-hash", c + "::all attributes compared", tm.where(eq), uses_all,
                "" if uses_all else "__eq__ does not compare all listed attributes")


def _format_fields(fmt):
    out = []
    for lit, fname, spec, conv in string.Formatter().parse(fmt):
        if fname is not None:
            out.append((lit, fname, spec or "", conv))
    return out


def _time_print_parse(ctx, rep):
    tm = ctx.mod("ctparse.types")
    st = tm.func("Time.__str__")
    fs = tm.func("Time.from_str")
    c = tm.rel + "::Time"
    # printer: outer format literal + one argument per field
    ret = [r for r in ast.walk(st) if isinstance(r, ast.Return)]
    call = ret[0].value if ret else None
    if not (isinstance(call, ast.Call) and isinstance(call.func, ast.Attribute) and call.func.attr == "format"
            and isinstance(call.func.value, ast.Constant)):
        rep.undecided("print-parse", c + "::__str__", tm.where(st), "printer is not literal.format(...)")
        return
    outer = call.func.value.value
    printed = []      # (field, spec, absent marker)
    for a in call.args:
        fld = spec = marker = None
        if isinstance(a, ast.BoolOp) and isinstance(a.op, ast.Or) and len(a.values) == 2 and \
                isinstance(a.values[0], ast.Attribute) and norm(a.values[0].value) == "self" and \
                isinstance(a.values[1], ast.Constant):
            # `self.F or MARK`: falsy values print as the absent marker
            fld, spec, marker = a.values[0].attr, "", a.values[1].value
            falsy = {"hour": 0, "minute": 0, "DOW": 0}.get(fld)
            if falsy is not None:
                rep.violated("print-parse", "{}::field {} printed when present".format(c, fld), tm.where(st),
                             "field {} is printed as `self.{} or {!r}`: the value {} prints as the absent "
                             "marker and does not parse back".format(fld, fld, marker, falsy))
            printed.append((fld, spec, marker))
            continue
        if isinstance(a, ast.IfExp) and isinstance(a.body, ast.Call) and isinstance(a.body.func, ast.Attribute) \
                and isinstance(a.body.func.value, ast.Constant) and a.body.args:
            ff = _format_fields(a.body.func.value.value)
            spec = ff[0][2] if ff else ""
            arg = a.body.args[0]
            if isinstance(arg, ast.Attribute) and norm(arg.value) == "self":
                fld = arg.attr
            if isinstance(a.orelse, ast.Constant):
                marker = a.orelse.value
            # the guard tests the same field for None; a truthiness test makes falsy
            # values (0, '') print as the absent marker
            if fld and norm(a.test) == "self.{}".format(fld):
                falsy = {"hour": 0, "minute": 0, "DOW": 0}.get(fld)
                if falsy is not None:
                    rep.violated("print-parse", "{}::field {} printed when present".format(c, fld), tm.where(st),
                                 "field {} is tested by truthiness: the value {} prints as the absent "
                                 "marker and does not parse back".format(fld, falsy))
            elif not (fld and "self.{} is not None".format(fld) == norm(a.test)):
                fld = None
        printed.append((fld, spec, marker))
    if any(f is None for f, _, _ in printed):
        rep.undecided("print-parse", c + "::__str__", tm.where(st), "a printed field is not 'fmt.format(self.F) if self.F is not None else MARK'")
        return
    # parser pattern
    pat = None
    for stt in tm.tree.body:
        if isinstance(stt, ast.Assign) and isinstance(stt.value, ast.Call) and \
                e1.callee_name(stt.value.func) == "compile" and stt.value.args and \
                isinstance(stt.value.args[0], ast.Constant):
            nm = norm(stt.targets[0])
            if any(isinstance(x, ast.Name) and x.id == nm for x in ast.walk(fs)):
                pat = stt.value.args[0].value
    if pat is None:
        rep.undecided("print-parse", c + "::from_str", tm.where(fs), "parser pattern not found")
        return
    P = e2.parse(pat, version1=False)
    groups = sorted(P.by_idx)
    # constructor keywords <- group indices
    kw_group = {}
    for call2 in calls_in(fs, "cls") + calls_in(fs, "Time"):
        for k in call2.keywords:
            idx = None
            for g in ast.walk(k.value):
                if isinstance(g, ast.Call) and isinstance(g.func, ast.Attribute) and g.func.attr == "group" \
                        and g.args and isinstance(g.args[0], ast.Constant):
                    idx = g.args[0].value
                if isinstance(g, ast.Name):
                    # pod = match.group(7)
                    for a in ast.walk(fs):
                        if isinstance(a, ast.Assign) and norm(a.targets[0]) == g.id:
                            for gg in ast.walk(a.value):
                                if isinstance(gg, ast.Call) and isinstance(gg.func, ast.Attribute) \
                                        and gg.func.attr == "group" and gg.args and isinstance(gg.args[0], ast.Constant):
                                    idx = idx or gg.args[0].value
            kw_group[k.arg] = idx
    ok_map = True
    det = ""
    for pos, (fld, spec, marker) in enumerate(printed):
        gi = kw_group.get(fld)
        if gi != pos + 1:
            ok_map = False
            det = det or "field {} is printed at position {} but parsed from group {}".format(fld, pos + 1, gi)
    rep.add("print-parse", c + "::field order", tm.where(fs), ok_map, det)
    # literal text between fields agrees with the pattern's literals: evaluate by matching a
    # printed sample with the analysis's own automaton
    nfa = e2.build_nfa(P.root, P)
    samples = []
    table = ctx.model.const("ctparse.types", "pod_hours")
    pod_vals = sorted(table) if isinstance(table, dict) else ["morning"]
    rng = {"year": [1970, 2024, 9999, 1, 1900, 2000, 2100], "month": list(range(1, 13)),
           "day": list(range(1, 32)), "hour": list(range(24)), "minute": list(range(60)),
           "DOW": list(range(7)), "POD": list(pod_vals)}
    import itertools
    fields = [f for f, _, _ in printed]
    bad = None
    n = 0
    for present in itertools.product([False, True], repeat=len(fields)):
        vals = []
        for (fld, spec, marker), pr in zip(printed, present):
            if not pr:
                vals.append([marker])
            else:
                vals.append([("{:" + spec + "}").format(v) for v in rng.get(fld, [1])])
        for combo in itertools.product(*[v[:2] for v in vals]):
            text = outer.format(*combo)
            n += 1
            if len(text) not in e2.nfa_match_prefixes(nfa, text):
                bad = bad or "printed form '{}' is not accepted by the parser pattern".format(text)
    rep.add("print-parse", c + "::printed forms accepted", tm.where(st), bad is None,
            bad or "{} printed forms".format(n))
    # width agreement per field: the parser group must accept exactly the printed width
    for pos, (fld, spec, marker) in enumerate(printed):
        g = P.by_idx.get(pos + 1)
        if g is None:
            rep.violated("print-parse", c + "::group " + str(pos + 1), tm.where(fs), "parser group missing")
            continue
        gn = e2.build_nfa(g.child, P)
        vals = rng.get(fld, [1])
        texts = [("{:" + spec + "}").format(v) for v in vals] + [marker]
        miss = [t for t in texts if len(t) not in e2.nfa_match_prefixes(gn, t)]
        # a value must not look like the absent marker
        clash = [t for t in texts[:-1] if t == marker]
        ok = not miss and not clash
        rep.add("print-parse", "{}::field {} width".format(c, fld), tm.where(st), ok,
                "" if ok else ("printed {} not accepted by its parser group".format(miss[:2]) if miss
                               else "a value prints as the absent marker"))
    # the absent marker is not a part-of-day key
    if isinstance(table, dict):
        markers = {m for _, _, m in printed}
        clash = sorted(markers & set(table))
        rep.add("print-parse", c + "::absent marker vs part-of-day vocabulary", tm.where(st), not clash,
                "" if not clash else "part of day {} prints like the absent marker".format(clash))
    return outer


def _interval_print_parse(ctx, rep):
    tm = ctx.mod("ctparse.types")
    st = tm.func("Interval.__str__")
    fs = tm.func("Interval.from_str")
    c = tm.rel + "::Interval"
    ret = [r for r in ast.walk(st) if isinstance(r, ast.Return)]
    call = ret[0].value if ret else None
    if not (isinstance(call, ast.Call) and isinstance(call.func, ast.Attribute) and call.func.attr == "format"
            and isinstance(call.func.value, ast.Constant)):
        rep.undecided("print-parse", c + "::__str__", tm.where(st), "printer is not literal.format(...)")
        return
    outer = call.func.value.value
    ff = _format_fields(outer)
    sep = ff[1][0] if len(ff) == 2 else None
    args = [norm(a.args[0]) if isinstance(a, ast.Call) and norm(a.func) in ("str", "repr") and a.args
            else norm(a) for a in call.args]
    ok_order = args == ["self.t_from", "self.t_to"]
    rep.add("print-parse", c + "::ends printed in order", tm.where(st), ok_order,
            "" if ok_order else "printed ends are {}".format(args))
    splits = [c_ for c_ in calls_in(fs, "split") if c_.args and isinstance(c_.args[0], ast.Constant)]
    psep = splits[0].args[0].value if splits else None
    ok_sep = sep is not None and sep == psep
    rep.add("print-parse", c + "::separator", tm.where(fs), ok_sep,
            "" if ok_sep else "printed separator {!r} vs parsed separator {!r}".format(sep, psep))
    # separator cannot occur inside a printed Time
    tstr = tm.func("Time.__str__")
    tret = [r for r in ast.walk(tstr) if isinstance(r, ast.Return)][0].value
    tlit = tret.func.value.value if isinstance(tret, ast.Call) and isinstance(tret.func, ast.Attribute) and \
        isinstance(tret.func.value, ast.Constant) else None
    if tlit is not None and sep is not None:
        lits = "".join(l for l, _, _, _ in string.Formatter().parse(tlit))
        pieces = [l for l, _, _, _ in string.Formatter().parse(tlit)]
        inside = any(sep in (p or "") for p in pieces) or sep.strip() == ""
        rep.add("print-parse", c + "::separator not inside an end", tm.where(st), not inside,
                "" if not inside else "the interval separator {!r} occurs inside the printed form of an end".format(sep))
    # from_str: t_from <- bounds[0], t_to <- bounds[1]; None marker
    kws = {}
    for call2 in calls_in(fs, "cls") + calls_in(fs, "Interval"):
        for k in call2.keywords:
            kws[k.arg] = norm(k.value)
    idx = {}
    for a in ast.walk(fs):
        if isinstance(a, ast.Assign) and len(a.targets) == 1 and isinstance(a.targets[0], ast.Name):
            m = [s_ for s_ in ast.walk(a.value) if isinstance(s_, ast.Subscript) and isinstance(s_.slice, ast.Constant)]
            if m:
                idx[a.targets[0].id] = {x.slice.value for x in m}
    ok = idx.get(kws.get("t_from")) == {0} and idx.get(kws.get("t_to")) == {1}
    rep.add("print-parse", c + "::ends parsed in order", tm.where(fs), ok,
            "" if ok else "from_str assigns the ends from {}".format({k: sorted(v) for k, v in idx.items()}))
    none_ok = all('"None"' in norm(a.value) or "'None'" in norm(a.value) for a in ast.walk(fs)
                  if isinstance(a, ast.Assign) and isinstance(a.targets[0], ast.Name) and a.targets[0].id in idx)
    rep.add("print-parse", c + "::open end marker", tm.where(fs), none_ok,
            "" if none_ok else "an open end prints as 'None' but is not parsed back as open")


def _duration_print_parse(ctx, rep):
    tm = ctx.mod("ctparse.types")
    st = tm.func("Duration.__str__")
    fs = tm.func("Duration.from_str")
    c = tm.rel + "::Duration"
    ret = [r for r in ast.walk(st) if isinstance(r, ast.Return)]
    call = ret[0].value if ret else None
    ok = isinstance(call, ast.Call) and isinstance(call.func, ast.Attribute) and call.func.attr == "format" \
        and isinstance(call.func.value, ast.Constant) and [norm(a) for a in call.args] == ["self.value", "self.unit.value"]
    lit = call.func.value.value if ok else None
    ok = ok and lit == "{} {}"
    rep.add("print-parse", c + "::printed as '<amount> <unit value>'", tm.where(st), bool(ok),
            "" if ok else "printer is {}".format(norm(call) if call is not None else None))
    src = norm(fs)
    ok2 = ".split(" in src and "int(" in src and "DurationUnit(" in src
    rep.add("print-parse", c + "::parsed as amount, unit", tm.where(fs), ok2,
            "" if ok2 else "from_str does not split into int amount and unit value")
    env = ctx.model.env("ctparse.types")
    du = env.get("DurationUnit")
    vals = [m.value for m in du.members.values()] if isinstance(du, e1.ClassRef) else []
    ws = [v for v in vals if not isinstance(v, str) or any(ch.isspace() for ch in v) or v == ""]
    dup = len(set(vals)) != len(vals)
    rep.add("print-parse", c + "::unit values are single distinct tokens", tm.where(st), not ws and not dup and bool(vals),
            "" if not ws and not dup else "unit values {} break the split-based parser".format(ws or vals))


def _offsets(ctx, rep, names, pf, cm):
    tm = ctx.mod("ctparse.types")
    nb = tm.func("Artifact.nb_str")
    ret = [r for r in ast.walk(nb) if isinstance(r, ast.Return)][0].value
    if not (isinstance(ret, ast.Call) and isinstance(ret.func, ast.Attribute) and isinstance(ret.func.value, ast.Constant)):
        rep.undecided("prefix-offsets", tm.rel + "::Artifact.nb_str", tm.where(nb), "nb_str is not literal.format(...)")
        return
    lit = ret.func.value.value
    for branch in ast.walk(pf):
        if not (isinstance(branch, ast.If) and isinstance(branch.test, ast.Call) and
                isinstance(branch.test.func, ast.Attribute) and branch.test.func.attr == "startswith"
                and branch.test.args and isinstance(branch.test.args[0], ast.Constant)):
            continue
        prefix = branch.test.args[0].value
        for r in branch.body:
            if isinstance(r, ast.Return) and isinstance(r.value, ast.Call):
                cls = r.value.func.value.id if isinstance(r.value.func, ast.Attribute) and \
                    isinstance(r.value.func.value, ast.Name) else None
                sl = [s_ for s_ in ast.walk(r.value) if isinstance(s_, ast.Subscript) and isinstance(s_.slice, ast.Slice)]
                if not sl or cls is None:
                    continue
                lo = sl[0].slice.lower.value if isinstance(sl[0].slice.lower, ast.Constant) else None
                hi = norm(sl[0].slice.upper) if sl[0].slice.upper is not None else None
                body = "\x00BODY\x00"
                printed = lit.format(cls, body)
                want_lo = printed.index(body)
                want_hi = -(len(printed) - want_lo - len(body))
                ok = lo == want_lo and hi == str(want_hi) and prefix == cls
                rep.add("prefix-offsets", "{}::parse_nb_string::{}".format(cm.rel, cls), cm.where(r), ok,
                        "" if ok else "slice [{}:{}] for prefix '{}' but nb_str prints '{}' ({} characters before "
                        "the body, {} after)".format(lo, hi, prefix, lit.format(cls, "..."), want_lo, -want_hi))
