"""C04 — partial dates resolve to the nearest future occurrence, written fields
preserved (DESIGN.md §4 C04)."""
import ast
import datetime as _dt

from ..core import AnalysisError, Undecided
from ..e3_rules import get_engine, Shape
from ..e3_values import *  # noqa
from .common import rule_construct, report_undecided, norm, runs_of, Relevant

RELEVANT = Relevant()
from .relspec import Summary, ts_sweep


def _unary(ctx, pred):
    rs = [r for r in ctx.rb.rules if len(r.pats) == 1 and r.pats[0].kind == "pred"
          and r.pats[0].value == pred]
    if not rs:
        raise AnalysisError("anchor vanished: no unary rule on {}".format(pred))
    return rs


def _next_dom(today, n):
    d = today + _dt.timedelta(days=1)
    for _ in range(400):
        if d.day == n:
            return d
        d += _dt.timedelta(days=1)
    return None


def _next_dow(today, k):
    d = today + _dt.timedelta(days=1)
    while d.weekday() != k:
        d += _dt.timedelta(days=1)
    return d


def _next_doy(today, m, dd):
    d = today
    for _ in range(366 * 9):
        if d.month == m and d.day == dd:
            return d
        d += _dt.timedelta(days=1)
    return None


def check(ctx, rep, tier):
    eng = get_engine(ctx)
    from . import spellings
    spellings.check(ctx, rep, "weekday-spellings", lambda g: g in ("mon", "tue", "wed", "thu", "fri", "sat", "sun", "monday", "tuesday", "wednesday", "thursday", "friday", "saturday", "sunday"), floor=1)
    RELEVANT.names.clear()
    rep.describe("nearest-future", "the summary term of each latent rule (located by role: "
                 "the unary rule on day-of-month / weekday / day+month / part-of-day values) "
                 "equals, on every (reference time, written value) of the sweep, the nearest "
                 "matching date that is not before the reference date (same day-of-month or "
                 "weekday rolls, same day+month stays), with the written fields preserved")
    rep.describe("weekday-names", "every English and German weekday name is accepted exactly by "
                 "groups that make the naming rule return that weekday's index (Monday = 0), so "
                 "the weekday that was written is the weekday that is searched for")
    rep.describe("weekday-dom-search", "the weekday+day-of-month rule searches from the "
                 "reference time for the written weekday and day")
    sweep = ts_sweep(tier)
    rep.count("reference_times", len(sweep), 300)
    _dom(ctx, rep, eng, sweep)
    _dow(ctx, rep, eng, sweep)
    _doy(ctx, rep, eng, sweep)
    _pod(ctx, rep, eng, sweep)
    _dowdom(ctx, rep, eng)
    _weekday_names(ctx, rep, eng)
    report_undecided(rep, eng, RELEVANT)
    rep.assume("A2 dateutil model (absolute day= clips to the month length); A3 rrule")
    rep.assume("not decided: ranking of the latent reading against competing readings")


def _summary(eng, rule):
    RELEVANT.add(rule)
    runs = runs_of(eng, rule)
    return Summary([p for run in runs for p in run.paths]) if runs else None


def _eval_rule(rep, rule, label, summ, cases, spec, fmt):
    """cases: iterable of (valuation, key) ; spec(key) -> expected dict of fields."""
    c = rule_construct(rule, label)
    if summ is None:
        rep.undecided("nearest-future", c, rule.where, "rule was not analysed")
        return
    bad = None
    n = 0
    try:
        for val, key in cases:
            res = summ.evaluate(val)
            n += 1
            want = spec(*key)
            if want is None:
                continue
            if len(res) != 1 or res[0][0] == "none":
                bad = (key, "has {} consistent returning paths".format(len(res)))
                break
            f = res[0][1]
            for k, v in want.items():
                if f.get(k) != v:
                    bad = (key, "gives {} instead of {}".format(
                        {x: f.get(x) for x in want}, want))
                    break
            if bad:
                break
    except Undecided as e:
        rep.undecided("nearest-future", c, rule.where, str(e))
        return
    rep.add("nearest-future", c, rule.where, bad is None,
            "{} cases".format(n) if bad is None else "for {} the rule {}".format(fmt(*bad[0]), bad[1]),
            witness=None if bad is None else {"case": fmt(*bad[0])})


def _dom(ctx, rep, eng, sweep):
    for rule in _unary(ctx, "isDOM"):
        leaf = ("attr", ("param", 0, rule.params[1]), "day")

        def cases():
            for ts in sweep:
                for n in range(1, 32):
                    yield {("ts",): ts, leaf: n}, (ts, n)

        def spec(ts, n):
            d = _next_dom(ts.date(), n)
            return {"year": d.year, "month": d.month, "day": d.day}
        _eval_rule(rep, rule, "day of month", _summary(eng, rule), cases(), spec,
                   lambda ts, n: "day {} at reference time {}".format(n, ts))


def _dow(ctx, rep, eng, sweep):
    for rule in _unary(ctx, "isDOW"):
        leaf = ("attr", ("param", 0, rule.params[1]), "DOW")

        def cases():
            for ts in sweep:
                for k in range(7):
                    yield {("ts",): ts, leaf: k}, (ts, k)

        def spec(ts, k):
            d = _next_dow(ts.date(), k)
            return {"year": d.year, "month": d.month, "day": d.day}
        _eval_rule(rep, rule, "weekday", _summary(eng, rule), cases(), spec,
                   lambda ts, k: "weekday {} at reference time {}".format(k, ts))


def _doy(ctx, rep, eng, sweep):
    for rule in _unary(ctx, "isDOY"):
        lm = ("attr", ("param", 0, rule.params[1]), "month")
        ld = ("attr", ("param", 0, rule.params[1]), "day")
        mlen = [31, 29, 31, 30, 31, 30, 31, 31, 30, 31, 30, 31]
        pairs = [(m, d) for m in range(1, 13) for d in (1, 15, 28, 29, 30, 31) if d <= mlen[m - 1]]
        from .relspec import sample
        tss = sample(sweep, 400 if len(sweep) > 5000 else 150)

        def cases():
            for ts in tss:
                for m, d in pairs:
                    yield {("ts",): ts, lm: m, ld: d}, (ts, m, d)

        def spec(ts, m, d):
            x = _next_doy(ts.date(), m, d)
            return {"year": x.year, "month": x.month, "day": x.day}
        _eval_rule(rep, rule, "day+month", _summary(eng, rule), cases(), spec,
                   lambda ts, m, d: "{}.{}. at reference time {}".format(d, m, ts))


def _pod(ctx, rep, eng, sweep):
    table = ctx.model.const("ctparse.types", "pod_hours")
    if not isinstance(table, dict):
        rep.undecided("nearest-future", "pod_hours", "ctparse/types.py", "table not folded")
        return
    tv = eng.class_v("Time")
    base = None
    for sh in eng.R.values():
        if sh.cls.name == "Time" and sh.presence() == frozenset({"POD"}):
            base = sh
    if base is None:
        rep.undecided("nearest-future", "part-of-day shape", "-", "no part-of-day-only shape is reachable")
        return
    from .relspec import sample
    tss = sample(sweep, 300 if len(sweep) > 5000 else 90)
    for rule in _unary(ctx, "isPOD"):
        c = rule_construct(rule, "part of day")
        bad = None
        n = 0
        try:
            for key in sorted(table):
                sh = Shape(base.cls, dict(base.attrs), base.cal)
                sh.attrs["POD"] = StrV({key})
                run = eng.run_rule(rule, [sh])
                if run.error:
                    raise Undecided(run.error)
                summ = Summary(run.paths)
                h_from = table[key][0]
                for ts in tss:
                    res = summ.evaluate({("ts",): ts})
                    n += 1
                    today = (ts.hour, ts.minute) < (h_from, 0)
                    want = ts.date() if today else ts.date() + _dt.timedelta(days=1)
                    if len(res) != 1 or res[0][0] == "none":
                        bad = (key, ts, "has {} consistent returning paths".format(len(res)))
                        break
                    f = res[0][1]
                    got = (f["year"], f["month"], f["day"], f["POD"])
                    if got != (want.year, want.month, want.day, key):
                        bad = (key, ts, "gives {} instead of {} {}".format(got, want, key))
                        break
                if bad:
                    break
        except Undecided as e:
            rep.undecided("nearest-future", c, rule.where, str(e))
            continue
        rep.add("nearest-future", c, rule.where, bad is None,
                "{} cases over {} parts of day".format(n, len(table)) if bad is None else
                "for '{}' at reference time {} the rule {}".format(*bad))


def _dowdom(ctx, rep, eng):
    rules = [r for r in ctx.rb.rules if [(p.kind, p.value) for p in r.pats] ==
             [("pred", "isDOW"), ("pred", "isDOM")]]
    for rule in rules:
        c = rule_construct(rule, "weekday + day of month")
        # the rule as the inlined view has it (narrowing helpers such as 'assert x is not None;
        # return x' are gone there), with single-assignment locals resolved
        inode = ctx.imod(rule.mod.name).funcs.get(rule.name, rule.node)
        from .common import alias_map, resolve_alias
        amap = alias_map(inode)
        calls = [n for n in ast.walk(inode) if isinstance(n, ast.Call) and
                 isinstance(n.func, ast.Name) and n.func.id == "rrule"]
        if not calls:
            # another search idiom: the nearest-future obligation cannot be evaluated
            rep.undecided("weekday-dom-search", c, rule.where, "search idiom not recognised")
            continue
        call = calls[0]
        # dateutil's signature, so that positional and keyword spellings read the same
        sig = ["freq", "dtstart", "interval", "wkst", "count", "until", "bysetpos", "bymonth",
               "bymonthday", "byyearday", "byeaster", "byweekno", "byweekday"]
        kw = {name: resolve_alias(norm(a), amap) for name, a in zip(sig, call.args)}
        kw.update({k.arg: resolve_alias(norm(k.value), amap) for k in call.keywords})
        p1, p2 = rule.params[1], rule.params[2]
        extra = set(kw) - {"freq", "dtstart", "count", "bymonthday", "byweekday"}
        ok = kw.get("dtstart") == rule.params[0] and kw.get("byweekday") == p1 + ".DOW" and \
            kw.get("bymonthday") == p2 + ".day" and kw.get("count") == "1" and \
            kw.get("freq") in ("MONTHLY", "DAILY") and not extra
        # an argument this clause can read and that is something else is a violation; an argument
        # it cannot read (a helper call, a computed value) is not decided
        readable = {rule.params[0], p1 + ".DOW", p2 + ".day", p1 + ".day", p2 + ".DOW", "1", "MONTHLY", "DAILY",
                    "WEEKLY", "YEARLY"}
        unreadable = [k_ for k_ in ("dtstart", "byweekday", "bymonthday", "count", "freq")
                      if k_ in kw and kw[k_] not in readable and not kw[k_].isdigit()]
        if not ok and unreadable and not extra:
            rep.undecided("weekday-dom-search", c, rule.where,
                          "rrule argument(s) {} not recognised: {}".format(unreadable, {k_: kw[k_] for k_ in unreadable}))
            continue
        rep.add("weekday-dom-search", c, rule.where, bool(ok),
                "" if ok else "rrule arguments are {}".format(kw))


WEEKDAYS_EN = ["monday", "tuesday", "wednesday", "thursday", "friday", "saturday", "sunday"]
WEEKDAYS_DE = ["montag", "dienstag", "mittwoch", "donnerstag", "freitag", "samstag", "sonntag"]


def _weekday_names(ctx, rep, eng):
    from .. import e2_regex as e2
    from ..e3_values import RefV, IntV
    n_rules = 0
    for rule in ctx.rb.rules:
        if not (len(rule.pats) == 1 and rule.pats[0].kind == "regex"):
            continue
        RELEVANT.add(rule)
        runs = runs_of(eng, rule)
        group_dow = {}
        for run in runs:
            for p in run.paths:
                if p.kind != "ret" or not isinstance(p.val, RefV):
                    continue
                v = p.st.heap[p.val.oid].attrs.get("DOW")
                if not (isinstance(v, IntV) and v.is_const()):
                    continue
                moid = [o.oid for o in p.st.heap.values() if o.sym == ("param", 0, rule.params[1])]
                cfgs = p.st.cfg.get(moid[0]) if moid else None
                for cfg in cfgs or []:
                    for g in cfg:
                        group_dow.setdefault(g, set()).add(v.lo)
        if not group_dow:
            continue
        n_rules += 1
        _, P = ctx.wrapped(rule.pats[0].value)
        nfas = {}
        for g in group_dow:
            gg = P.group(g)
            if gg is None:
                continue
            try:
                nfas[g] = e2.build_nfa(gg.child, P)
            except Undecided:
                continue
        # wrapper groups accept everything: ignore groups that are hit by all names
        bad = None
        und = None
        hits_by_word = {}
        for i, (en, de) in enumerate(zip(WEEKDAYS_EN, WEEKDAYS_DE)):
            for w in (en, de):
                hits_by_word[(i, w)] = [g for g, nfa in nfas.items() if len(w) in e2.nfa_match_prefixes(nfa, w)]
        wrappers = {g for g in nfas if all(g in h for h in hits_by_word.values())}
        for (i, w), hits in sorted(hits_by_word.items()):
            hits = [g for g in hits if g not in wrappers]
            vals = set()
            for g in hits:
                vals |= group_dow.get(g, set())
            if not vals and hits:
                und = und or "no constant weekday found on the paths where group {} took part".format(hits[0])
            elif vals != {i}:
                bad = bad or "'{}' is accepted by groups {} which give weekday {} (expected {})".format(
                    w, hits, sorted(vals), i)
        if bad is None and und:
            rep.undecided("weekday-names", rule_construct(rule, "weekday names"), rule.where, und)
        else:
            rep.add("weekday-names", rule_construct(rule, "weekday names"), rule.where, bad is None, bad or "14 names")
    rep.count("weekday_name_rules", n_rules, 1)
