"""C02 — every resolution is a well-formed calendar value; accessors never fail.
All clauses are decided on the emitted shape set of E3 (DESIGN.md §4 C02)."""
import ast

from ..core import AnalysisError
from .. import e1_model as e1
from ..e3_rules import get_engine, Shape, shape_of
from ..e3_values import *  # noqa
from ..e3_interp import Raised
from .common import (rule_construct, norm, report_undecided, walk_shapes, grouped_runs, shapes_desc,
                     calls_in)
from .c01 import emitted_shapes
from . import order

RANGES = {"month": (1, 12), "day": (1, 31), "hour": (0, 23), "minute": (0, 59), "DOW": (0, 6)}


def check(ctx, rep, tier):
    eng = get_engine(ctx)
    rep.describe("field-range", "at every construction site of a value with date/time "
                 "fields, on every path of every production/latent rewrite, each integer "
                 "field's interval lies inside month 1-12, day 1-31, hour 0-23, minute "
                 "0-59, weekday 0-6")
    rep.describe("pod-known", "part-of-day strings set at a construction site are keys of "
                 "the flattened part-of-day table")
    rep.describe("calendar", "a constructed value with month and day (and year) takes them "
                 "from one real datetime, from one already valid value, or after a "
                 "validity check; never from independent sources unchecked")
    rep.describe("interval-order", "every path returning an interval with two fully dated "
                 "ends has start <= end under every valuation consistent with its path "
                 "condition (E4)")
    rep.describe("accessor", "start/end/dt of every emitted shape: no raise, except dt's "
                 "documented ValueError on a value without a date")
    rep.describe("span", "the wrapper sets the result span from the first argument's start "
                 "and the last argument's end on every non-None path; latent rewrites carry "
                 "the span of their input; matches are taken on the normalised text")
    _sites(ctx, rep, eng)
    interval_order(ctx, rep, eng, "interval-order", strict=False)
    _accessors(ctx, rep, eng)
    _span(ctx, rep, eng)
    report_undecided(rep, eng)
    for (w_, c_, why_) in sorted(getattr(eng.interp, "cal_unknown", {}).values()):
        rep.undecided("calendar", c_, w_, why_)
    rep.count("rules", len(ctx.rb.rules), 40)
    rep.count("emitted_shapes", len(emitted_shapes(eng)), 20)
    rep.assume("A2 dateutil model; A5 E3 over-approximates reachable values")


def _sites(ctx, rep, eng):
    table = ctx.model.const("ctparse.types", "pod_hours")
    by_site = {}
    for site, where, cls, attrs, cal, root in eng.construct_log:
        if not any(f in attrs for f in RANGES):
            continue
        e = by_site.setdefault(site, {"where": where, "n": 0, "bad": {}, "cal": set(), "pod": set(),
                                      "podtop": False, "roots": set()})
        e["n"] += 1
        e["roots"].add(root)
        for f, (lo, hi) in RANGES.items():
            v = attrs.get(f)
            if isinstance(v, IntV) and (v.lo < lo or v.hi > hi):
                e["bad"].setdefault(f, (v.lo, v.hi, root))
            elif v is not None and not isinstance(v, (IntV, NoneV)):
                e["bad"].setdefault(f, ("kind", v.kind, root))
        if "month" in attrs and "day" in attrs and isinstance(attrs["month"], IntV) \
                and isinstance(attrs["day"], IntV):
            e["cal"].add((cal, root))
        p = attrs.get("POD")
        if isinstance(p, StrV):
            if p.vals is None:
                e["podtop"] = True
            else:
                e["pod"] |= set(p.vals)
    n_time = 0
    for site, e in sorted(by_site.items()):
        n_time += 1
        where = e["where"]
        if e["bad"]:
            f, info = sorted(e["bad"].items())[0]
            rep.violated("field-range", site, where,
                         "field {} can be {} (reached from {})".format(f, info[:2], info[2]),
                         witness={"field": f, "interval": list(info[:2])})
        else:
            rep.ok("field-range", site, where, "{} constructions".format(e["n"]))
        if e["podtop"] or e["pod"]:
            miss = sorted(x for x in e["pod"] if not isinstance(table, dict) or x not in table)
            ok = not e["podtop"] and not miss
            rep.add("pod-known", site, where, ok,
                    "" if ok else ("unbounded part-of-day string" if e["podtop"]
                                   else "part-of-day keys unknown to the table: {}".format(miss[:3])))
        if e["cal"]:
            badc = sorted(r for c, r in e["cal"] if c not in ("REAL", "CHECKED", "NA", "UNKNOWN"))
            unk = sorted(r for c, r in e["cal"] if c == "UNKNOWN")
            if unk and not badc:
                rep.undecided("calendar", site, where, "calendar validity depends on a path condition outside "
                              "the evaluable fragment (reached from {})".format(", ".join(unk[:3])))
                continue
            rep.add("calendar", site, where, not badc,
                    "" if not badc else "month/day(/year) combined from independent sources "
                    "without a validity check (reached from {})".format(", ".join(badc[:3])))
    rep.count("time_construction_sites", n_time, 30)


def interval_order(ctx, rep, eng, rule_name, strict, only_rules=None, max_span=None):
    from .todsets import get_todsets
    tods = get_todsets(ctx, eng)
    rep.count("producible_clock_range_tuples", len(tods.T), 500)
    if not tods.complete:
        rep.undecided(rule_name, "clock-range collecting semantics", "-", "; ".join(tods.notes[:3]))
    n = 0
    for (ri, name), runs in sorted(grouped_runs(eng).items()):
        rule = runs[0].rule
        if only_rules is not None and name not in only_rules:
            continue
        verdicts = {}
        for run in runs:
            for p in run.paths:
                if p.kind != "ret" or not isinstance(p.val, RefV):
                    continue
                obj = p.st.heap[p.val.oid]
                if "t_from" not in obj.attrs:
                    continue
                if not obj.fresh or getattr(obj, "copied_from", None) is not None:
                    continue   # an argument handed back (or its copy): ordered by induction
                v, det, wit = order.check_path_order(p.st, p.conds, p.val, strict, max_span, tods=tods)
                if v == "na":
                    continue
                n += 1
                site = obj.site or rule_construct(rule, "return")
                cur = verdicts.get(site)
                rank = {"ok": 0, "undecided": 1, "violated": 2}
                if cur is None or rank[v] > rank[cur[0]]:
                    verdicts[site] = (v, det, wit, run)
        for site, (v, det, wit, run) in sorted(verdicts.items()):
            if v == "ok":
                rep.ok(rule_name, site, rule.where, det)
            elif v == "violated":
                w = {"parameter_shapes": shapes_desc(run)}
                if wit:
                    w["valuation"] = wit
                rep.violated(rule_name, site, rule.where, det, witness=w)
            else:
                rep.undecided(rule_name, site, rule.where, det)
    # latent layer
    lat = {}
    for key, (shape, paths, err) in eng.latent.items():
        for p in paths:
            if p.kind != "ret" or not isinstance(p.val, RefV):
                continue
            obj = p.st.heap[p.val.oid]
            if "t_from" not in obj.attrs or not obj.fresh:
                continue
            v, det, wit = order.check_path_order(p.st, p.conds, p.val, strict, max_span, tods=tods)
            if v == "na":
                continue
            n += 1
            site = obj.site
            rank = {"ok": 0, "undecided": 1, "violated": 2}
            cur = lat.get(site)
            if cur is None or rank[v] > rank[cur[0]]:
                lat[site] = (v, det, wit, shape)
    if only_rules is None or "latent" in only_rules:
        for site, (v, det, wit, shape) in sorted(lat.items()):
            if v == "ok":
                rep.ok(rule_name, site, "ctparse/time/postprocess_latent.py", det)
            elif v == "violated":
                rep.violated(rule_name, site, "ctparse/time/postprocess_latent.py", det,
                             witness={"shape": shape.describe(), "valuation": wit})
            else:
                rep.undecided(rule_name, site, "ctparse/time/postprocess_latent.py", det)
    rep.count("dated_interval_paths", n, 10)


def _accessors(ctx, rep, eng):
    seen = set()
    n = 0
    bad = {}
    for origin, sh in emitted_shapes(eng):
        fp = sh.fingerprint()
        if fp in seen:
            continue
        seen.add(fp)
        for attr in ("start", "end", "dt"):
            if not eng.interp.find_member(sh.cls, attr):
                continue
            outs, err = eng.run_accessor(sh, attr)
            if err:
                rep.undecided("accessor", sh.cls.name + "." + attr, "-", err)
            dated = all(isinstance(sh.attrs.get(f), IntV) for f in ("year", "month", "day"))
            for s, v in outs:
                n += 1
                if isinstance(v, Raised):
                    if attr == "dt" and not dated and v.issue.kind == "explicit-raise" \
                            and v.exc == "ValueError":
                        continue   # documented: no datetime for a value without a date
                    bad.setdefault((attr, v.issue.construct), (v, sh))
    for (attr, k), (rv, sh) in sorted(bad.items()):
        rep.violated("accessor", "{} via .{}".format(k, attr), rv.issue.where,
                     "{}: {}".format(rv.exc, rv.issue.detail),
                     witness={"shape": sh.describe(), "produced_by": sorted(sh.sources)[:6]})
    if not bad:
        rep.ok("accessor", "ctparse/types.py::start/end/dt", "ctparse/types.py",
               "{} accessor paths over {} emitted shapes".format(n, len(seen)))
    rep.count("accessor_paths", n, 60)


def _span(ctx, rep, eng):
    # (i)+(ii) through the wrapper: result span provenance on every returning path
    n = 0
    for (ri, name), runs in sorted(grouped_runs(eng).items()):
        rule = runs[0].rule
        bad = None
        for run in runs:
            k = len(rule.pats)
            pnames = rule.params[1:]
            first = ("param", 0, pnames[0]) if pnames else None
            last = ("param", k - 1, pnames[k - 1]) if len(pnames) >= k and k else None
            for p in run.paths:
                if p.kind != "ret" or not isinstance(p.val, RefV):
                    continue
                n += 1
                obj = p.st.heap[p.val.oid]
                ms, me = obj.attrs.get("mstart"), obj.attrs.get("mend")
                ok = isinstance(ms, IntV) and isinstance(me, IntV) and \
                    ms.sym == ("attr", first, "mstart") and me.sym == ("attr", last, "mend")
                if not ok and bad is None:
                    bad = "span is ({}, {}) instead of (first argument start, last argument end)".format(
                        getattr(ms, "sym", ms), getattr(me, "sym", me))
        rep.add("span", rule_construct(rule, "result span"), rule.where, bad is None, bad or "")
    rep.count("span_paths", n, 200)
    # (iii) latent layer
    latent_bad = {}
    nl = 0
    for key, (shape, paths, err) in eng.latent.items():
        for p in paths:
            if p.kind != "ret" or not isinstance(p.val, RefV):
                continue
            obj = p.st.heap[p.val.oid]
            nl += 1
            ms, me = obj.attrs.get("mstart"), obj.attrs.get("mend")
            src = ("param", 0, "art")
            ok = isinstance(ms, IntV) and isinstance(me, IntV) and \
                ms.sym == ("attr", src, "mstart") and me.sym == ("attr", src, "mend")
            if not ok:
                latent_bad.setdefault(obj.site or "latent result", shape.describe())
            elif not obj.fresh and obj.sym != src:
                # the span was written onto an object that outlives the call (memoised or
                # module-level): the next rewrite overwrites the span reported here
                latent_bad.setdefault((obj.site or "latent result") + " [shared object]", shape.describe())
    for site, sh in sorted(latent_bad.items()):
        rep.violated("span", site, "ctparse/time/postprocess_latent.py",
                     "latent rewrite returns a value whose span is not the span of its input",
                     witness={"input_shape": sh})
    if not latent_bad:
        rep.ok("span", "ctparse/time/postprocess_latent.py::span carried", "ctparse/time/postprocess_latent.py",
               "{} latent paths".format(nl))
    # (iv) matches are taken on the normalised, label-stripped text
    cm = ctx.imod("ctparse.ctparse")
    gen = cm.func("ctparse_gen")
    from . import strterms as st_
    states = st_.search_input_state(cm, gen)
    c_ = cm.rel + "::ctparse_gen::normalised text reaches _ctparse"
    if not states or any(x == "?" for x in states):
        rep.undecided("span", c_, cm.where(gen), "what text the search is called on is not recognised")
    else:
        ok = all(x in ("norm", "stripped", "norm-of-stripped") for x in states)
        rep.add("span", c_, cm.where(gen), ok,
                "" if ok else "_ctparse is called on the {} text instead of _preprocess_string(txt)".format(
                    "/".join(sorted(set(states)))))
    f = cm.func("_ctparse")
    tparam = f.args.args[0].arg
    # by provenance of the text parameter: the matcher's input is the given (normalised) text,
    # possibly with the labels stripped -- whatever the local is called
    T = st_.Terms(cm)
    T.run(f.body, {tparam: ("text", "norm")})
    mstates = [st_.text_state(ats[0]) for (name, ats, _node) in T.calls if name == "_match_regex" and ats]
    c2_ = cm.rel + "::_ctparse::matcher input"
    if not mstates or any(x == "?" for x in mstates):
        rep.undecided("span", c2_, cm.where(f), "what text the matcher is run on is not recognised")
    else:
        ok = all(x in ("norm", "stripped") for x in mstates)
        rep.add("span", c2_, cm.where(f), ok,
                "" if ok else "the matcher is not run on the text _ctparse was given (it sees the {} text)".format(
                    "/".join(sorted(set(mstates)))))
    # RegexMatch takes its span from the id group of the match
    tm = ctx.imod("ctparse.types")
    init = tm.func("RegexMatch.__init__")
    src = norm(init)
    ok = "span(" in src and "self.mstart" in src and "self.mend" in src
    rep.add("span", tm.rel + "::RegexMatch.__init__::span from match", tm.where(init), ok,
            "" if ok else "match span is not read from the regex match", nontrivial=False)
