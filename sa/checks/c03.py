"""C03 — relative-day expressions hit the exact calendar day (DESIGN.md §4 C03)."""
import ast
import datetime as _dt

from ..core import AnalysisError, Undecided
from .. import e1_model as e1
from ..e3_rules import get_engine
from ..e3_values import *  # noqa
from . import strterms as st_
from .common import rule_construct, report_undecided, calls_in, norm, runs_of, Relevant
from .lang import rules_accepting
from .relspec import Summary, ts_sweep


def _d(ts, days):
    return (ts + _dt.timedelta(days=days)).date()


def _eom(ts):
    nxt = _dt.date(ts.year + (ts.month == 12), ts.month % 12 + 1, 1)
    return nxt - _dt.timedelta(days=1)


SPECS = [
    # (label, words that locate the rule, spec: ts -> (date, hour, minute) )
    ("tomorrow", ("tomorrow",), lambda ts: (_d(ts, 1), None, None)),
    ("day after tomorrow", ("übermorgen",), lambda ts: (_d(ts, 2), None, None)),
    ("yesterday", ("yesterday", "gestern"), lambda ts: (_d(ts, -1), None, None)),
    ("day before yesterday", ("vorgestern",), lambda ts: (_d(ts, -2), None, None)),
    ("today", ("today", "heute"), lambda ts: (_d(ts, 0), None, None)),
    ("now", ("now", "jetzt"), lambda ts: (_d(ts, 0), ts.hour, ts.minute)),
    ("end of month", ("end of month", "EOM"), lambda ts: (_eom(ts), None, None)),
    ("end of year", ("end of year", "EOY"), lambda ts: (_dt.date(ts.year, 12, 31), None, None)),
]


def _first_strictly_after(ts, dow):
    d = ts.date() + _dt.timedelta(days=1)
    while d.weekday() != dow:
        d += _dt.timedelta(days=1)
    return d


def _first_on_or_after(day, dow):
    d = day
    while d.weekday() != dow:
        d += _dt.timedelta(days=1)
    return d


def check(ctx, rep, tier):
    eng = get_engine(ctx)
    RELEVANT.names.clear()
    rep.describe("reference-time", "the value reaching every production's first parameter is "
                 "the caller's reference time, or datetime.now() exactly when it was None; "
                 "no rebinding or truncation on the way (def-use chain over the call sites)")
    rep.describe("coherent-date", "a constructed value that takes any of year/month/day (or "
                 "hour/minute) from a datetime takes all of them from the same datetime")
    rep.describe("offset", "the summary term of the rule located by its vocabulary equals the "
                 "calendar-arithmetic specification on every reference time of the sweep")
    rep.describe("weekday", "this <weekday> = first such day strictly after today; next "
                 "<weekday> / <weekday> next week = first such day on or after today + 7")
    _propagation(ctx, rep)
    _coherence(ctx, rep, eng)
    sweep = ts_sweep(tier)
    rep.count("reference_times", len(sweep), 300)
    _offsets(ctx, rep, eng, sweep)
    _weekdays(ctx, rep, eng, sweep)
    report_undecided(rep, eng, RELEVANT)
    rep.assume("A2: dateutil.relativedelta is the arithmetic model of the datetime terms")
    rep.assume("not decided: which surface forms the regexes accept beyond the locating "
               "words; that the scorer ranks the intended reading first")


# ---------------------------------------------------------------------------
def _reassigned(f, name, allow_none_default=True):
    """Assignments to *name* in f other than 'if name is None: name = <expr>'."""
    bad = []
    for n in ast.walk(f):
        tgt = []
        if isinstance(n, ast.Assign):
            tgt = n.targets
        elif isinstance(n, (ast.AugAssign, ast.AnnAssign)):
            tgt = [n.target]
        for t in tgt:
            for x in ast.walk(t):
                if isinstance(x, ast.Name) and x.id == name:
                    par = getattr(n, "_parent", None)
                    ok = allow_none_default and isinstance(par, ast.If) and \
                        norm(par.test) == "{} is None".format(name) and len(par.body) == 1
                    if not ok:
                        bad.append(n)
    return bad


def _arg(call, idx, kw):
    if idx is not None and idx < len(call.args):
        return call.args[idx]
    for k in call.keywords:
        if k.arg == kw:
            return k.value
    return None


def _propagation(ctx, rep):
    cm = ctx.imod("ctparse.ctparse")
    pm = ctx.imod("ctparse.partial_parse")
    rm = ctx.imod("ctparse.rule")
    hops = [
        (cm, "ctparse", "ts", "ctparse_gen", 1, "ts"),
        (cm, "ctparse_gen", "ts", "_ctparse", 1, "ts"),
        (cm, "ctparse_gen", "ts", "apply_postprocessing_rules", 0, "ts"),
        (cm, "_ctparse", "ts", "apply_rule", 0, "ts"),
        (pm, "PartialParse.apply_rule", "ts", None, 0, None),      # rule(ts, *window)
        (rm, "rule.fwrapper.wrapper", "ts", None, 0, None),        # f(ts, *args)
    ]
    from .common import registered_callable
    for mod, qual, pname, callee, idx, kw in hops:
        how = None
        if qual == "rule.fwrapper.wrapper" and qual not in mod.funcs:
            # the decorator registers some other callable (e.g. an instance of a class with __call__)
            f, how = registered_callable(mod)
            if f is None:
                rep.undecided("reference-time", "{}::{}::{}".format(mod.rel, qual, pname), mod.rel,
                              "what the rule decorator registers is not recognised")
                continue
            qual = getattr(f, "_qual", qual)
        else:
            f = mod.func(qual)
        params = [a.arg for a in f.args.args]
        if pname not in params:
            raise AnalysisError("anchor vanished: parameter {} of {}".format(pname, qual))
        bad = _reassigned(f, pname, allow_none_default=(qual == "ctparse_gen"))
        c = "{}::{}::{}".format(mod.rel, qual, pname)
        if bad:
            rep.violated("reference-time", c + " rebinding", mod.where(bad[0]),
                         "reference time is rebound: " + norm(bad[0])[:80])
            continue
        if callee is not None:
            calls = calls_in(f, callee)
            # the position of the callee's reference-time parameter is read from its definition
            # (a parameter added in front of it moves it)
            if kw is not None:
                for m_ in (cm, pm, rm, ctx.imod("ctparse.time.postprocess_latent")):
                    hit = [fn_ for q_, fn_ in m_.funcs.items() if q_ == callee or q_.endswith("." + callee)]
                    if len(hit) == 1:
                        pn_ = [a_.arg for a_ in hit[0].args.args]
                        if getattr(hit[0], "_cls", None) and pn_ and pn_[0] in ("self", "cls"):
                            pn_ = pn_[1:]
                        if kw in pn_:
                            idx = pn_.index(kw)
                        break
        else:
            # call of a parameter/closure variable with the reference time first
            cands = set(params) | _closure_names(f)
            calls = [c_ for c_ in calls_in(f) if isinstance(c_.func, ast.Name) and c_.func.id in cands
                     and c_.args]
            if how is not None and how[0] == "self":
                calls = [c_ for c_ in calls_in(f) if norm(c_.func) == "self." + how[1] and c_.args]
        if not calls:
            rep.violated("reference-time", c + " -> " + str(callee or "production"), mod.where(f),
                         "no call forwards the reference time")
            continue
        ok = True
        det = ""
        # the value passed on, as a provenance term: the parameter itself, or (where an omitted
        # reference time is defaulted) the parameter or the current time
        T = st_.Terms(mod)
        T.run(f.body, {p: ("var", p) for p in params})
        terms = {id(node): ats for (_n, ats, node) in T.calls}
        for call in calls:
            a = _arg(call, idx, kw)
            if isinstance(a, ast.Name) and a.id == pname and not _rebound_before(f, pname, call):
                continue
            t = None
            ats = terms.get(id(call))
            if ats is not None and idx is not None and idx < len(ats) and idx < len(call.args):
                t = ats[idx]
            if t is None or not _is_ref_time(t, pname, allow_now=(qual == "ctparse_gen")):
                ok = False
                det = "argument is {} instead of the reference time".format(norm(a) if a is not None else "missing")
        rep.add("reference-time", c + " -> " + str(callee or "production"), mod.where(calls[0]), ok, det)
    # the None default is datetime.now(): the value reaching the search is the current time
    # exactly on the branch where the parameter is None
    gen = cm.func("ctparse_gen")
    ok = False
    NOW = ("datetime.now()", "datetime.today()")
    for n in ast.walk(gen):
        var = None
        if isinstance(n, ast.Assign) and norm(n.value) in NOW \
                and len(n.targets) == 1 and isinstance(n.targets[0], ast.Name):
            var = n.targets[0].id
            pol = _none_branch(n, gen, "ts")
            if not pol:
                continue
        elif isinstance(n, (ast.Assign, ast.AnnAssign)) and isinstance(n.value, ast.IfExp):
            # v = now() if ts is None else ts   (a fresh name for the narrowed value)
            tg = n.targets[0] if isinstance(n, ast.Assign) and len(n.targets) == 1 else getattr(n, "target", None)
            t_, b_, o_ = norm(n.value.test), norm(n.value.body), norm(n.value.orelse)
            if isinstance(tg, ast.Name) and (
                    (t_ in ("ts is None", "not ts") and b_ in NOW and o_ == "ts") or
                    (t_ in ("ts is not None", "ts") and o_ in NOW and b_ == "ts")):
                var = tg.id
        if var is not None:
            # that variable is what reaches _ctparse
            T = st_.Terms(cm)
            T.run(gen.body, {a.arg: ("var", a.arg) for a in gen.args.args})
            ti = 1
            cdef = cm.funcs.get("_ctparse")
            if cdef is not None and "ts" in [a_.arg for a_ in cdef.args.args]:
                ti = [a_.arg for a_ in cdef.args.args].index("ts")
            for (name, ats, node) in T.calls:
                if name == "_ctparse" and len(ats) > ti and len(node.args) > ti \
                        and _is_ref_time(ats[ti], "ts", allow_now=True) \
                        and st_.find(ats[ti], "mcall") and isinstance(node.args[ti], ast.Name) \
                        and node.args[ti].id == var:
                    ok = True
    if ok:
        rep.ok("reference-time", cm.rel + "::ctparse_gen::default", cm.where(gen))
    else:
        # the parameter handed on as it came (possibly None), or a default this clause does not read
        T2 = st_.Terms(cm)
        T2.run(gen.body, {a.arg: ("var", a.arg) for a in gen.args.args})
        cdef = cm.funcs.get("_ctparse")
        ti = [a_.arg for a_ in cdef.args.args].index("ts") if cdef is not None and \
            "ts" in [a_.arg for a_ in cdef.args.args] else 1
        seen_ = [ats[ti] for (name, ats, node) in T2.calls if name == "_ctparse" and len(ats) > ti]
        defaults = [d_ for d_ in gen.args.defaults + gen.args.kw_defaults if d_ is not None]
        ts_optional = any(isinstance(d_, ast.Constant) and d_.value is None for d_ in defaults)
        if seen_ and all(t_ == ("var", "ts") for t_ in seen_) and ts_optional and \
                not any(norm(x) in ("datetime.now()", "datetime.today()") for x in ast.walk(gen)
                        if isinstance(x, ast.Call)):
            rep.violated("reference-time", cm.rel + "::ctparse_gen::default", cm.where(gen),
                         "an omitted reference time is not replaced by the current time")
        else:
            rep.undecided("reference-time", cm.rel + "::ctparse_gen::default", cm.where(gen),
                          "how an omitted reference time is defaulted is not recognised")


def _is_now(t):
    return isinstance(t, tuple) and len(t) >= 3 and t[0] == "mcall" and t[1] in ("now", "today") and \
        t[2] == ("var", "datetime")


def _is_ref_time(t, pname, allow_now):
    if t == ("var", pname):
        return True
    if isinstance(t, tuple) and t and t[0] == "phi" and allow_now:
        alts = t[1:]
        return all(a == ("var", pname) or _is_now(a) for a in alts) and any(a == ("var", pname) for a in alts)
    return False


def _rebound_before(f, name, call):
    return False


def _none_branch(node, f, pname):
    """is *node* on the branch of an enclosing test where <pname> is None?"""
    cur = getattr(node, "_parent", None)
    child = node
    while cur is not None and cur is not f:
        if isinstance(cur, ast.If):
            in_body = any(child is b for b in cur.body)
            t = norm(cur.test)
            if (in_body and t in ("{} is None".format(pname), "not {}".format(pname))) or \
                    (not in_body and t in ("{} is not None".format(pname), pname)):
                return True
        child = cur
        cur = getattr(cur, "_parent", None)
    return False


def _closure_names(f):
    out = set()
    cur = getattr(f, "_parent", None)
    while cur is not None:
        if isinstance(cur, ast.FunctionDef):
            out |= {a.arg for a in cur.args.args}
        cur = getattr(cur, "_parent", None)
    return out


def _dt_source(v):
    s = getattr(v, "sym", None)
    if isinstance(s, tuple) and len(s) == 3 and s[0] == "dtfield":
        return s[1], s[2]
    return None, None


def _coherence(ctx, rep, eng):
    by_site = {}
    for site, where, cls, attrs, cal, root in eng.construct_log:
        if "year" not in attrs:
            continue
        for group in (("year", "month", "day"), ("hour", "minute")):
            srcs = {}
            for f in group:
                v = attrs.get(f)
                if isinstance(v, IntV):
                    sy = getattr(v, "sym", None)
                    if isinstance(sy, tuple) and sy and sy[0] == "const":
                        # a literal (`x or 0` on the path where x is 0, truncation to the hour, "the 1st"):
                        # chosen by the code, not taken from another datetime
                        continue
                    src, fld = _dt_source(v)
                    srcs[f] = (src, fld)
            dts = {s for s, _ in srcs.values() if s is not None}
            if not dts:
                continue
            e = by_site.setdefault((site, group[0]), {"where": where, "bad": None, "n": 0})
            e["n"] += 1
            if len(dts) > 1 or any(s is None for s, _ in srcs.values()):
                e["bad"] = "fields {} come from different sources".format(sorted(srcs))
            elif any(fld != f for f, (s, fld) in srcs.items()):
                e["bad"] = "a field is read from a differently named datetime attribute"
    for (site, g), e in sorted(by_site.items()):
        rep.add("coherent-date", "{} [{}]".format(site, "date" if g == "year" else "clock"),
                e["where"], e["bad"] is None, e["bad"] or "{} constructions".format(e["n"]))
    rep.count("datetime_fed_sites", len(by_site), 10)


def _runs_of(eng, rule):
    RELEVANT.add(rule)
    return runs_of(eng, rule)


RELEVANT = Relevant()


def _offsets(ctx, rep, eng, sweep):
    for label, words, spec in SPECS:
        rules = rules_accepting(ctx, words, regex_only=True)
        if not rules:
            raise AnalysisError("anchor vanished: no regex-only rule accepts {!r}".format(words[0]))
        for rule in rules:
            c = rule_construct(rule, label)
            runs = _runs_of(eng, rule)
            if not runs:
                rep.undecided("offset", c, rule.where, "rule was not analysed")
                continue
            summ = Summary([p for run in runs for p in run.paths])
            bad = None
            n = 0
            try:
                for ts in sweep:
                    res = summ.evaluate({("ts",): ts})
                    n += 1
                    want_d, want_h, want_m = spec(ts)
                    if len(res) != 1 or res[0][0] == "none":
                        bad = (ts, "no single result ({} consistent paths)".format(len(res)))
                        break
                    f = res[0][1]
                    got = (f["year"], f["month"], f["day"], f["hour"], f["minute"])
                    want = (want_d.year, want_d.month, want_d.day, want_h, want_m)
                    if got != want:
                        bad = (ts, "gives {} instead of {}".format(got, want))
                        break
            except Undecided as e:
                rep.undecided("offset", c, rule.where, str(e))
                continue
            rep.add("offset", c, rule.where, bad is None,
                    "{} reference times".format(n) if bad is None else
                    "at reference time {} the rule {}".format(bad[0], bad[1]),
                    witness=None if bad is None else {"ts": str(bad[0])})


def _weekdays(ctx, rep, eng, sweep):
    cases = []
    this_rules = [r for r in rules_accepting(ctx, ("this",), regex_first=True, arity=2)
                  if r.pats[1].kind == "pred" and r.pats[1].value == "isDOW"]
    next_rules = [r for r in rules_accepting(ctx, ("next",), regex_first=True, arity=2)
                  if r.pats[1].kind == "pred" and r.pats[1].value == "isDOW"]
    nw_rules = [r for r in ctx.rb.rules if len(r.pats) == 2 and r.pats[0].kind == "pred"
                and r.pats[0].value == "isDOW" and r.pats[1].kind == "regex"]
    from .lang import accepts
    nw_rules = [r for r in nw_rules if accepts(ctx, r.pats[1].value, "next week")]
    if not this_rules or not next_rules or not nw_rules:
        raise AnalysisError("anchor vanished: this/next weekday rules not found by language")
    for r in this_rules:
        cases.append((r, "this <weekday>", 1, lambda ts, k: _first_strictly_after(ts, k)))
    for r in next_rules:
        cases.append((r, "next <weekday>", 1,
                      lambda ts, k: _first_on_or_after(ts.date() + _dt.timedelta(days=7), k)))
    for r in nw_rules:
        cases.append((r, "<weekday> next week", 0,
                      lambda ts, k: _first_on_or_after(ts.date() + _dt.timedelta(days=7), k)))
    for rule, label, pidx, spec in cases:
        c = rule_construct(rule, label)
        runs = _runs_of(eng, rule)
        if not runs:
            rep.undecided("weekday", c, rule.where, "rule was not analysed")
            continue
        summ = Summary([p for run in runs for p in run.paths])
        leaf = ("attr", ("param", pidx, rule.params[pidx + 1]), "DOW")
        bad = None
        n = 0
        try:
            for ts in sweep:
                for k in range(7):
                    res = summ.evaluate({("ts",): ts, leaf: k})
                    n += 1
                    want = spec(ts, k)
                    if len(res) != 1 or res[0][0] == "none":
                        bad = (ts, k, "no single result ({} consistent paths)".format(len(res)))
                        break
                    f = res[0][1]
                    got = (f["year"], f["month"], f["day"])
                    if got != (want.year, want.month, want.day):
                        bad = (ts, k, "gives {} instead of {}".format(got, want))
                        break
                if bad:
                    break
        except Undecided as e:
            rep.undecided("weekday", c, rule.where, str(e))
            continue
        rep.add("weekday", c, rule.where, bad is None,
                "{} (reference time, weekday) pairs".format(n) if bad is None else
                "at reference time {} for weekday {} the rule {}".format(*bad),
                witness=None if bad is None else {"ts": str(bad[0]), "weekday": bad[1]})
