"""C10 — subject and labels partition the non-time words (find/strip agreement on the
valid-tag domain, one derivation for both paths, order and provenance; DESIGN.md §4
C10)."""
import ast

from ..core import AnalysisError, Undecided
from .. import e1_model as e1
from .. import e2_regex as e2
from .common import norm, calls_in

VALID_TAG = r"#[A-Za-z_][A-Za-z0-9_-]*"
VALID_START = r"#[A-Za-z_]"


def check(ctx, rep, tier):
    rep.describe("tag-languages", "on texts that start with a valid hashtag the label-finding "
                 "pattern and the label-stripping pattern accept the same prefixes (automata "
                 "comparison), every valid hashtag is accepted by both, neither can continue "
                 "over a separator, and a match contains exactly one '#'")
    rep.describe("one-derivation", "labels and subject of the no-match path and of the match "
                 "path are the same function of the normalised text: same label helper on the "
                 "normalised text, same strip pattern, same word splitter, same joiner")
    rep.describe("order-provenance", "the subject is built from the split words by "
                 "order-preserving operations with the word itself as element; labels come from "
                 "findall through an order-preserving comprehension")
    rep.describe("labels-stripped-first", "the matcher and the subject splitter see the text "
                 "after the labels were stripped")
    cm = ctx.mod("ctparse.ctparse")
    facts_nm = _text_pipeline(cm, cm.func("ctparse"), start_state="raw", only_after_empty_guard=True)
    facts_m = _text_pipeline(cm, cm.func("_ctparse"), start_state="norm")
    _languages(ctx, rep, cm, facts_nm, facts_m)
    _derivation(ctx, rep, cm, facts_nm, facts_m)
    _order(ctx, rep, cm)
    rep.assume("not decided: 'drops exactly the words inside the matches the resolution was "
               "built from' (the code filters by string equality against every match of every "
               "surviving sequence)")


# ---------------------------------------------------------------------------
def _re_call(e, fname):
    """re.<fname>(pattern, ...) call with a constant pattern."""
    return isinstance(e, ast.Call) and isinstance(e.func, ast.Attribute) and e.func.attr == fname \
        and isinstance(e.func.value, ast.Name) and e.func.value.id in ("re", "regex") and e.args \
        and isinstance(e.args[0], ast.Constant)


def _strip_outer(e):
    strip = False
    while isinstance(e, ast.Call) and isinstance(e.func, ast.Attribute) and e.func.attr == "strip" and not e.args:
        strip = True
        e = e.func.value
    return e, strip


def _text_pipeline(cm, f, start_state, only_after_empty_guard=False):
    """Walk the statements in order and record what is done to the text variable."""
    tparam = f.args.args[0].arg
    state = {tparam: start_state}
    facts = {"labels_on": None, "label_fn": None, "strip_pat": None, "strip_stripped": False,
             "split_pat": None, "split_on": None, "join_sep": None, "matcher_on": None, "where": cm.where(f)}
    body = f.body
    if only_after_empty_guard:
        for n in ast.walk(f):
            if isinstance(n, ast.If) and any(isinstance(c, ast.Call) and e1.callee_name(c.func) == "CTParse"
                                             for b in n.body for c in ast.walk(b)):
                body = n.body
                facts["where"] = cm.where(n)

    def visit(stmts):
        for st in stmts:
            if isinstance(st, ast.Try):
                visit(st.body)
                continue
            if isinstance(st, ast.Assign) and len(st.targets) == 1:
                tgt = st.targets[0]
                v = st.value
                names = [tgt.id] if isinstance(tgt, ast.Name) else \
                    ([tgt.elts[0].id] if isinstance(tgt, ast.Tuple) and isinstance(tgt.elts[0], ast.Name) else [])
                inner, stripped = _strip_outer(v)
                # normalisation
                if isinstance(inner, ast.Call) and e1.callee_name(inner.func) == "_preprocess_string" and inner.args \
                        and isinstance(inner.args[0], ast.Name):
                    for nm in names:
                        state[nm] = "norm" if state.get(inner.args[0].id) in ("raw", "norm") else "?"
                    continue
                # label helper
                if isinstance(inner, ast.Call) and isinstance(inner.func, ast.Name) and \
                        inner.func.id in cm.funcs and inner.func.id.startswith("_get_label") and inner.args \
                        and isinstance(inner.args[0], ast.Name):
                    facts["labels_on"] = state.get(inner.args[0].id)
                    facts["label_fn"] = inner.func.id
                    continue
                # label stripping
                if _re_call(inner, "sub") and len(inner.args) >= 3 and isinstance(inner.args[2], ast.Name) \
                        and isinstance(inner.args[1], ast.Constant) and inner.args[1].value == "":
                    src = state.get(inner.args[2].id)
                    facts["strip_pat"] = inner.args[0].value
                    facts["strip_stripped"] = stripped
                    facts["strip_on"] = src
                    for nm in names:
                        state[nm] = "stripped" if src == "norm" else "stripped-" + str(src)
                    continue
                # word split
                for c in ast.walk(v):
                    if _re_call(c, "split") and len(c.args) >= 2 and isinstance(c.args[1], ast.Name):
                        facts["split_pat"] = c.args[0].value
                        facts["split_on"] = state.get(c.args[1].id)
                    if isinstance(c, ast.Call) and isinstance(c.func, ast.Attribute) and c.func.attr == "split" \
                            and isinstance(c.func.value, ast.Name) and c.func.value.id in state and not _re_call(c, "split"):
                        facts["split_pat"] = ("str.split", norm(c.args[0]) if c.args else None)
                        facts["split_on"] = state.get(c.func.value.id)
                    if isinstance(c, ast.Call) and isinstance(c.func, ast.Attribute) and c.func.attr == "join" \
                            and isinstance(c.func.value, ast.Constant):
                        if any(isinstance(t, ast.Name) and t.id == "subject" for t in [tgt]) or "subject" in names:
                            facts["join_sep"] = c.func.value.value
                # plain copy of the text into the subject (no split/join)
                if "subject" in names and isinstance(v, ast.Name) and v.id in state:
                    facts["split_pat"] = None
                    facts["split_on"] = state.get(v.id)
                    facts["join_sep"] = None
                # the matcher
                for c in ast.walk(v):
                    if isinstance(c, ast.Call):
                        fn = c.func
                        is_mr = (isinstance(fn, ast.Name) and fn.id == "_match_regex") or \
                            (isinstance(fn, ast.Call) and fn.args and norm(fn.args[0]) == "_match_regex")
                        if is_mr and c.args and isinstance(c.args[0], ast.Name):
                            facts["matcher_on"] = state.get(c.args[0].id)
    visit(body)
    return facts


def _pattern_dfa(text, alphabet, prefix_only):
    P = e2.parse(text, version1=False)
    nfa = e2.build_nfa(P.root, P)
    return P, nfa


def _languages(ctx, rep, cm, fnm, fm):
    # the find pattern lives in the label helper
    helper = cm.funcs.get(fm["label_fn"] or fnm["label_fn"] or "_get_labels")
    if helper is None:
        raise AnalysisError("anchor vanished: label helper")
    find_pat = None
    for c in ast.walk(helper):
        if _re_call(c, "findall"):
            find_pat = c.args[0].value
    strip_pats = {p for p in (fm["strip_pat"], fnm["strip_pat"]) if p}
    if find_pat is None or not strip_pats:
        raise AnalysisError("anchor vanished: label find/strip patterns")
    Pv = e2.parse(VALID_TAG, version1=False)
    Ps = e2.parse(VALID_START + r"[\s\S]*", version1=False)
    pats = {"find": find_pat}
    for i, sp in enumerate(sorted(strip_pats)):
        pats["strip" if i == 0 else "strip{}".format(i)] = sp
    nfas = {}
    charsets = []
    try:
        for k, t in list(pats.items()) + [("valid", VALID_TAG)]:
            P = e2.parse(t, version1=False)
            nfa = e2.build_nfa(P.root, P, allow_asserts=False)
            nfas[k] = nfa
            charsets.extend(e2.nfa_charsets(nfa))
    except Undecided as e:
        rep.undecided("tag-languages", cm.rel + "::label patterns", cm.where(helper), str(e))
        return
    alpha = e2.representatives(charsets, extra=[ord(c) for c in "#aZ_-09 \t,;é"])
    dfas = {k: e2.determinise(n, alpha) for k, n in nfas.items()}
    rep.count("tag_automaton_states", sum(d["n"] for d in dfas.values()), 4)
    where = cm.where(helper)
    # V subset of each
    for k in pats:
        w = e2.dfa_difference_witness(dfas["valid"], dfas[k])
        rep.add("tag-languages", "{}::{} pattern accepts every valid hashtag".format(cm.rel, k), where, w is None,
                "" if w is None else "valid hashtag {!r} is not accepted by the {} pattern {!r}".format(w, k, pats[k]),
                witness=None if w is None else {"tag": w})
    # on valid-tag-prefixed words: same accepted prefixes.  Restrict each language to
    # words beginning with '#[A-Za-z_]' by product with that prefix automaton.
    start_nfa = e2.build_nfa(e2.parse(VALID_START + r"[\s\S]*", version1=False).root,
                             e2.parse(VALID_START + r"[\s\S]*", version1=False), allow_asserts=False)
    start_dfa = e2.determinise(start_nfa, alpha)
    for k in pats:
        if k == "find":
            continue
        a = _intersect(dfas["find"], start_dfa)
        b = _intersect(dfas[k], start_dfa)
        w1 = e2.dfa_difference_witness(a, b)
        w2 = e2.dfa_difference_witness(b, a)
        ok = w1 is None and w2 is None
        det = ""
        if w1 is not None:
            det = "{!r} is listed as a label but not stripped from the text".format(w1)
        elif w2 is not None:
            det = "{!r} is stripped from the text but not listed as a label".format(w2)
        rep.add("tag-languages", "{}::find vs {} on valid-tag-prefixed words".format(cm.rel, k), where, ok, det,
                witness=None if ok else {"word": w1 or w2})
        # off-domain disagreement: informational
        o1 = e2.dfa_difference_witness(dfas["find"], dfas[k])
        o2 = e2.dfa_difference_witness(dfas[k], dfas["find"])
        rep.notes.append("off the valid-tag domain the two languages differ: listed-not-stripped {!r}, "
                         "stripped-not-listed {!r}".format(o1, o2))
    # neither continues over a separator; exactly one '#': no accepted valid-prefixed word
    # contains a separator or a second '#'
    seps = [ord(c) for c in " \t,;"]
    for k in pats:
        d = _intersect(dfas[k], start_dfa)
        w = _word_with(d, set(seps) | {ord("#")})
        rep.add("tag-languages", "{}::{} stops at separators and has one '#'".format(cm.rel, k), where, w is None,
                "" if w is None else "the {} pattern accepts {!r}".format(k, w))
    # the label is the match minus '#'
    ok = False
    for n in ast.walk(helper):
        if isinstance(n, ast.Call) and isinstance(n.func, ast.Attribute) and n.func.attr in ("replace", "lstrip") \
                and n.args and isinstance(n.args[0], ast.Constant) and n.args[0].value == "#":
            ok = True
        if isinstance(n, ast.Subscript) and isinstance(n.slice, ast.Slice) and norm(n.slice.lower or ast.Constant(value=0)) == "1":
            ok = True
    rep.add("tag-languages", cm.rel + "::label is the tag without '#'", where, ok,
            "" if ok else "the '#' is not removed from the listed labels")


def _intersect(A, B):
    alpha = A["alphabet"]
    idx = {}
    order = []
    delta = {}
    start = (A["start"], B["start"])
    idx[start] = 0
    order.append(start)
    i = 0
    while i < len(order):
        a, b = order[i]
        for ch in alpha:
            nx = (A["delta"][(a, ch)], B["delta"][(b, ch)])
            if nx not in idx:
                idx[nx] = len(order)
                order.append(nx)
            delta[(idx[(a, b)], ch)] = idx[nx]
        i += 1
    finals = {idx[(a, b)] for (a, b) in order if a in A["finals"] and b in B["finals"]}
    return {"n": len(order), "delta": delta, "finals": finals, "start": 0, "alphabet": alpha}


def _word_with(D, bad_chars):
    """Shortest accepted word that contains one of bad_chars after its first character."""
    from collections import deque
    start = (D["start"], False, 0)
    seen = {start: None}
    dq = deque([start])
    while dq:
        st = dq.popleft()
        s, hit, ln = st
        if s in D["finals"] and hit:
            w = []
            cur = st
            while seen[cur] is not None:
                cur, ch = seen[cur]
                w.append(ch)
            return "".join(chr(c) for c in reversed(w))
        if ln > 6:
            continue
        for ch in D["alphabet"]:
            nx = (D["delta"][(s, ch)], hit or (ln >= 1 and ch in bad_chars), ln + 1)
            key = (nx[0], nx[1], min(nx[2], 7))
            if key not in seen:
                seen[key] = (st, ch)
                dq.append(key)
    return None


def _derivation(ctx, rep, cm, fnm, fm):
    w = fnm["where"]
    rep.add("one-derivation", cm.rel + "::ctparse::labels taken from the normalised text", w,
            fnm["labels_on"] == "norm" and fm["labels_on"] == "norm",
            "" if fnm["labels_on"] == fm["labels_on"] == "norm" else
            "labels are taken from the {} text without a time expression and from the {} text with one".format(
                fnm["labels_on"], fm["labels_on"]))
    rep.add("one-derivation", cm.rel + "::ctparse::same label helper", w,
            fnm["label_fn"] is not None and fnm["label_fn"] == fm["label_fn"],
            "" if fnm["label_fn"] == fm["label_fn"] else "different label helpers: {} vs {}".format(fnm["label_fn"], fm["label_fn"]))
    same_strip = fnm["strip_pat"] is not None and fnm["strip_pat"] == fm["strip_pat"] and \
        fnm.get("strip_on") == fm.get("strip_on") == "norm" and fnm["strip_stripped"] == fm["strip_stripped"]
    rep.add("one-derivation", cm.rel + "::ctparse::same label stripping", w, same_strip,
            "" if same_strip else "label stripping differs: {!r} on {} vs {!r} on {}".format(
                fnm["strip_pat"], fnm.get("strip_on"), fm["strip_pat"], fm.get("strip_on")))
    same_split = fnm["split_pat"] is not None and fnm["split_pat"] == fm["split_pat"] and \
        fnm["split_on"] == fm["split_on"] == "stripped"
    rep.add("one-derivation", cm.rel + "::ctparse::same word splitting", w, same_split,
            "" if same_split else "words are split by {!r} on the {} text without a time expression and by "
            "{!r} on the {} text with one".format(fnm["split_pat"], fnm["split_on"], fm["split_pat"], fm["split_on"]))
    same_join = fnm["join_sep"] is not None and fnm["join_sep"] == fm["join_sep"]
    rep.add("one-derivation", cm.rel + "::ctparse::same joiner", w, same_join,
            "" if same_join else "subject joined by {!r} vs {!r}".format(fnm["join_sep"], fm["join_sep"]))
    rep.add("labels-stripped-first", cm.rel + "::_ctparse::matcher sees the stripped text", fm["where"],
            fm["matcher_on"] == "stripped",
            "" if fm["matcher_on"] == "stripped" else "the matcher runs on the {} text".format(fm["matcher_on"]))
    rep.add("labels-stripped-first", cm.rel + "::_ctparse::subject words from the stripped text", fm["where"],
            fm["split_on"] == "stripped",
            "" if fm["split_on"] == "stripped" else "the subject is split from the {} text".format(fm["split_on"]))


def _order(ctx, rep, cm):
    f = cm.func("_ctparse")
    # subject = [w for w in WORDS if ...]; ' '.join(subject)
    comp = None
    for a in ast.walk(f):
        if isinstance(a, ast.Assign) and len(a.targets) == 1 and norm(a.targets[0]) == "subject":
            if isinstance(a.value, ast.ListComp):
                comp = a.value
            elif isinstance(a.value, ast.Call) and isinstance(a.value.func, ast.Attribute) and a.value.func.attr == "join" \
                    and a.value.args and isinstance(a.value.args[0], (ast.ListComp, ast.GeneratorExp)):
                comp = a.value.args[0]
    c = cm.rel + "::_ctparse::subject"
    if comp is None:
        # some other construction: order-destroying operations in any definition of the subject
        defs = [a.value for a in ast.walk(f) if isinstance(a, ast.Assign) and len(a.targets) == 1
                and norm(a.targets[0]) == "subject"]
        bad = [n for d in defs for n in ast.walk(d) if (isinstance(n, ast.Call) and isinstance(n.func, ast.Name)
               and n.func.id in ("set", "sorted", "frozenset", "dict", "reversed")) or isinstance(n, (ast.Set, ast.SetComp))]
        if bad:
            rep.violated("order-provenance", c + " iterates the split words in order", cm.where(f),
                         "the subject goes through {}: the word order of the text is lost".format(norm(bad[0])[:40]))
        else:
            rep.undecided("order-provenance", c, cm.where(f), "subject construction not recognised")
        return
    g = comp.generators[0]
    elt_ok = isinstance(comp.elt, ast.Name) and norm(comp.elt) == norm(g.target) and len(comp.generators) == 1
    rep.add("order-provenance", c + " elements are the words", cm.where(comp), elt_ok,
            "" if elt_ok else "subject elements are {} (not the words themselves)".format(norm(comp.elt)))
    # the iterable is the split result (a list), not a set / sorted / dict
    it = g.iter
    src = None
    if isinstance(it, ast.Name):
        for a in ast.walk(f):
            if isinstance(a, ast.Assign) and len(a.targets) == 1 and norm(a.targets[0]) == it.id:
                src = a.value
    else:
        src = it
    ordered = src is not None and ((_re_call(src, "split")) or (
        isinstance(src, ast.Call) and isinstance(src.func, ast.Attribute) and src.func.attr == "split"))
    rep.add("order-provenance", c + " iterates the split words in order", cm.where(comp), bool(ordered),
            "" if ordered else "the subject iterates {} (order of the text is not guaranteed)".format(
                norm(src) if src is not None else norm(it)))
    # the filter only tests membership
    filt_ok = all(isinstance(t, ast.Compare) and len(t.ops) == 1 and isinstance(t.ops[0], (ast.NotIn, ast.In))
                  for t in g.ifs)
    rep.add("order-provenance", c + " filter is a membership test", cm.where(comp), filt_ok,
            "" if filt_ok else "the subject filter is {}".format([norm(t) for t in g.ifs]))
    # labels
    helper = cm.funcs.get("_get_labels")
    if helper is not None:
        comps = [n for n in ast.walk(helper) if isinstance(n, ast.ListComp)]
        bad = [n for n in ast.walk(helper) if isinstance(n, ast.Call) and isinstance(n.func, ast.Name)
               and n.func.id in ("set", "sorted", "frozenset", "reversed")]
        fa = [n for n in ast.walk(helper) if _re_call(n, "findall")]
        ok = bool(fa) and not bad and all(len(cmp_.generators) == 1 and not cmp_.generators[0].ifs for cmp_ in comps)
        rep.add("order-provenance", cm.rel + "::_get_labels::labels in text order", cm.where(helper), ok,
                "" if ok else "labels are reordered, filtered or not taken with findall")
