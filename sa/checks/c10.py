"""C10 — subject and labels partition the non-time words (find/strip agreement on the
valid-tag domain, one derivation for both paths, order and provenance; DESIGN.md §4
C10)."""
import ast

from ..core import AnalysisError, Undecided
from .. import e1_model as e1
from .. import e2_regex as e2
from .common import norm, calls_in
from . import strterms as st_

VALID_TAG = r"#[A-Za-z_][A-Za-z0-9_-]*"
VALID_START = r"#[A-Za-z_]"


def check(ctx, rep, tier):
    rep.describe("tag-languages", "on texts that start with a valid hashtag the label-finding "
                 "pattern and the label-stripping pattern accept the same prefixes (automata "
                 "comparison), every valid hashtag is accepted by both, neither can continue "
                 "over a separator, and a match contains exactly one '#'")
    rep.describe("one-derivation", "labels and subject of the no-match path and of the match "
                 "path are the same function of the normalised text: same label helper on the "
                 "normalised text, same strip pattern, same word splitter, same joiner")
    rep.describe("order-provenance", "the subject is built from the split words by "
                 "order-preserving operations with the word itself as element; labels come from "
                 "findall through an order-preserving comprehension")
    rep.describe("labels-stripped-first", "the matcher and the subject splitter see the text "
                 "after the labels were stripped")
    cm = ctx.imod("ctparse.ctparse")
    facts_nm = _text_pipeline(cm, cm.func("ctparse"), start_state="raw", only_after_empty_guard=True)
    facts_m = _text_pipeline(cm, cm.func("_ctparse"), start_state="norm")
    _languages(ctx, rep, cm, facts_nm, facts_m)
    _derivation(ctx, rep, cm, facts_nm, facts_m)
    _order(ctx, rep, cm, facts_m)
    rep.assume("not decided: 'drops exactly the words inside the matches the resolution was "
               "built from' (the code filters by string equality against every match of every "
               "surviving sequence)")


# ---------------------------------------------------------------------------
def _re_call(e, fname):
    """re.<fname>(pattern, ...) call with a constant pattern."""
    return isinstance(e, ast.Call) and isinstance(e.func, ast.Attribute) and e.func.attr == fname \
        and isinstance(e.func.value, ast.Name) and e.func.value.id in ("re", "regex") and e.args \
        and isinstance(e.args[0], ast.Constant)


def _unwrap_order(t):
    """strip the order-keeping wrappers (filter / list copy / prefix) from a word-list term;
    returns (inner term, wrappers met)"""
    seen = []
    while isinstance(t, tuple) and t and t[0] in st_.ORDER_KEEPING:
        seen.append(t)
        t = t[1]
    return t, seen


def _text_pipeline(cm, f, start_state, only_after_empty_guard=False):
    """Provenance of the subject, the labels and the matcher input of one path, as terms over the
    text parameter (sa/checks/strterms.py), summarised in the facts the clauses compare."""
    tparam = f.args.args[0].arg
    T = st_.Terms(cm)
    env = {tparam: ("text", start_state)}
    T.run(f.body, env)
    facts = {"labels_on": None, "label_fn": None, "strip_pat": None, "strip_stripped": False,
             "split_pat": None, "split_on": None, "join_sep": None, "matcher_on": None, "where": cm.where(f),
             "subject_term": None, "labels_term": None, "strip_on": None}
    pick = None
    for (name, ats, kws, node) in T.ctors:
        if name != "CTParse":
            continue
        first = ats[0] if ats else kws.get("resolution")
        is_none = first == ("const", None)
        if is_none == bool(only_after_empty_guard):
            pick = (ats, kws, node)
    if pick is None:
        raise AnalysisError("anchor vanished: CTParse construction in {}".format(f.name))
    ats, kws, node = pick
    facts["where"] = cm.where(node)
    subj = ats[3] if len(ats) > 3 else kws.get("subject")
    labs = ats[4] if len(ats) > 4 else kws.get("labels")
    subj = _sub_as_join(subj)
    facts["subject_term"], facts["labels_term"] = subj, labs
    # labels
    if isinstance(labs, tuple) and labs and labs[0] == "call" and labs[2]:
        facts["label_fn"] = labs[1]
        facts["labels_on"] = st_.text_state(labs[2][0])
    # subject
    if isinstance(subj, tuple) and subj and subj[0] == "join":
        facts["join_sep"] = subj[1] if isinstance(subj[1], str) else None
        words, _ = _unwrap_order(subj[2])
        src = None
        if isinstance(words, tuple) and words and words[0] == "resplit":
            facts["split_pat"] = words[1]
            src = words[2]
        elif isinstance(words, tuple) and words and words[0] == "ssplit":
            facts["split_pat"] = ("str.split", words[1])
            src = words[2]
        else:
            # order-losing or unknown wrappers: look for the split below them
            for h in ("resplit", "ssplit"):
                hit = st_.find(words, h)
                if hit:
                    facts["split_pat"] = hit[0][1] if h == "resplit" else ("str.split", hit[0][1])
                    src = hit[0][2]
                    break
        if src is not None:
            facts["split_on"] = st_.text_state(src)
            inner, stripped = st_.strip_ops(src)
            subs = [x for x in st_.find(src, "sub") if x[3] == ""]
            if subs:
                facts["strip_pat"] = subs[0][1]
                facts["strip_on"] = st_.text_state(subs[0][4])
                facts["strip_stripped"] = stripped and inner is subs[0] or (stripped and inner == subs[0])
    elif isinstance(subj, tuple) and subj:
        # no split/join: the text itself (or something else)
        facts["split_on"] = st_.text_state(subj)
        subs = [x for x in st_.find(subj, "sub") if x[3] == ""]
        if subs:
            facts["strip_pat"] = subs[0][1]
            facts["strip_on"] = st_.text_state(subs[0][4])
            facts["strip_stripped"] = st_.strip_ops(subj)[1]
    # the matcher
    for (name, cats, cnode) in T.calls:
        if name == "_match_regex" and cats:
            facts["matcher_on"] = st_.text_state(cats[0])
    return facts


def _sub_as_join(t):
    """re.sub(P, SEP, x) written for SEP.join(re.split(P, x)): the same string whenever P has no
    capture group (split would return the captures too) and cannot match the empty string"""
    if isinstance(t, tuple) and len(t) >= 5 and t[0] == "sub" and isinstance(t[3], str) and t[3] != "":
        try:
            P = e2.parse(t[1], version1=bool(t[2]))
            plain = not any(isinstance(n_, e2.Group) for n_ in e2.walk(P.root)) \
                and not e2.nullable(P.root, P)
        except Exception:
            plain = False
        if plain:
            return ("join", t[3], ("resplit", t[1], t[4], t[-1]))
    return t


def _pattern_dfa(text, alphabet, prefix_only):
    P = e2.parse(text, version1=False)
    nfa = e2.build_nfa(P.root, P)
    return P, nfa


def _languages(ctx, rep, cm, fnm, fm):
    # the find pattern lives in the label helper
    helper = cm.funcs.get(fm["label_fn"] or fnm["label_fn"] or "_get_labels")
    if helper is None:
        raise AnalysisError("anchor vanished: label helper")
    find_pat = None
    Th = st_.Terms(cm)
    henv = {helper.args.args[0].arg: ("text", "norm")} if helper.args.args else {}
    Th.run(helper.body, henv)
    for rt, _node in Th.returns:
        for t in st_.find(rt, "findall"):
            find_pat = t[1]
    strip_pats = {p for p in (fm["strip_pat"], fnm["strip_pat"]) if p}
    if find_pat is None or not strip_pats:
        raise AnalysisError("anchor vanished: label find/strip patterns")
    Pv = e2.parse(VALID_TAG, version1=False)
    Ps = e2.parse(VALID_START + r"[\s\S]*", version1=False)
    pats = {"find": find_pat}
    for i, sp in enumerate(sorted(strip_pats)):
        pats["strip" if i == 0 else "strip{}".format(i)] = sp
    nfas = {}
    charsets = []
    try:
        for k, t in list(pats.items()) + [("valid", VALID_TAG)]:
            P = e2.parse(t, version1=False)
            nfa = e2.build_nfa(P.root, P, allow_asserts=False)
            nfas[k] = nfa
            charsets.extend(e2.nfa_charsets(nfa))
    except Undecided as e:
        rep.undecided("tag-languages", cm.rel + "::label patterns", cm.where(helper), str(e))
        return
    alpha = e2.representatives(charsets, extra=[ord(c) for c in "#aZ_-09 \t,;é"])
    dfas = {k: e2.determinise(n, alpha) for k, n in nfas.items()}
    rep.count("tag_automaton_states", sum(d["n"] for d in dfas.values()), 4)
    where = cm.where(helper)
    # V subset of each
    for k in pats:
        w = e2.dfa_difference_witness(dfas["valid"], dfas[k])
        rep.add("tag-languages", "{}::{} pattern accepts every valid hashtag".format(cm.rel, k), where, w is None,
                "" if w is None else "valid hashtag {!r} is not accepted by the {} pattern {!r}".format(w, k, pats[k]),
                witness=None if w is None else {"tag": w})
    # on valid-tag-prefixed words: same accepted prefixes.  Restrict each language to
    # words beginning with '#[A-Za-z_]' by product with that prefix automaton.
    start_nfa = e2.build_nfa(e2.parse(VALID_START + r"[\s\S]*", version1=False).root,
                             e2.parse(VALID_START + r"[\s\S]*", version1=False), allow_asserts=False)
    start_dfa = e2.determinise(start_nfa, alpha)
    for k in pats:
        if k == "find":
            continue
        a = _intersect(dfas["find"], start_dfa)
        b = _intersect(dfas[k], start_dfa)
        w1 = e2.dfa_difference_witness(a, b)
        w2 = e2.dfa_difference_witness(b, a)
        ok = w1 is None and w2 is None
        det = ""
        if w1 is not None:
            det = "{!r} is listed as a label but not stripped from the text".format(w1)
        elif w2 is not None:
            det = "{!r} is stripped from the text but not listed as a label".format(w2)
        rep.add("tag-languages", "{}::find vs {} on valid-tag-prefixed words".format(cm.rel, k), where, ok, det,
                witness=None if ok else {"word": w1 or w2})
        # off-domain disagreement: informational
        o1 = e2.dfa_difference_witness(dfas["find"], dfas[k])
        o2 = e2.dfa_difference_witness(dfas[k], dfas["find"])
        rep.notes.append("off the valid-tag domain the two languages differ: listed-not-stripped {!r}, "
                         "stripped-not-listed {!r}".format(o1, o2))
    # neither continues over a separator; exactly one '#': no accepted valid-prefixed word
    # contains a separator or a second '#'
    seps = [ord(c) for c in " \t,;"]
    for k in pats:
        d = _intersect(dfas[k], start_dfa)
        w = _word_with(d, set(seps) | {ord("#")})
        rep.add("tag-languages", "{}::{} stops at separators and has one '#'".format(cm.rel, k), where, w is None,
                "" if w is None else "the {} pattern accepts {!r}".format(k, w))
    # the patterns run on the normalised text: a character of a valid hashtag that the normaliser
    # rewrites (a separator class that has grown to hold '_', a dash class holding a tag character
    # other than '-') cuts the tag before the label patterns see it
    try:
        from .c11 import normaliser_classes
        ncm, classes = normaliser_classes(ctx)
    except (AnalysisError, Undecided, KeyError, AttributeError):
        classes = []
    tag_chars = sorted({ord(c) for c in "#_-"} | set(range(ord("a"), ord("z") + 1)) |
                       set(range(ord("A"), ord("Z") + 1)) | set(range(ord("0"), ord("9") + 1)))
    for i, cl in enumerate(classes):
        if cl is None:
            continue
        sepc, dashc, rnode = cl
        bad = [cp for cp in tag_chars if sepc.contains(cp) or (dashc.contains(cp) and cp != ord("-"))]
        rep.add("tag-languages", "{}::_preprocess_string::keeps hashtag characters [return {}]".format(ncm.rel, i + 1),
                ncm.where(rnode), not bad,
                "" if not bad else "the normaliser rewrites {} which valid hashtags ({}) contain: the label patterns "
                "run on the normalised text and see the tag cut there".format(
                    [chr(c) for c in bad[:5]], VALID_TAG),
                witness=None if not bad else {"tag": "#a{}b".format(chr(bad[0]))})
    # the label is the match minus '#'
    ok = False
    for n in ast.walk(helper):
        if isinstance(n, ast.Call) and isinstance(n.func, ast.Attribute) and n.func.attr in ("replace", "lstrip") \
                and n.args and isinstance(n.args[0], ast.Constant) and n.args[0].value == "#":
            ok = True
        if isinstance(n, ast.Subscript) and isinstance(n.slice, ast.Slice) and norm(n.slice.lower or ast.Constant(value=0)) == "1":
            ok = True
    rep.add("tag-languages", cm.rel + "::label is the tag without '#'", where, ok,
            "" if ok else "the '#' is not removed from the listed labels")


def _intersect(A, B):
    alpha = A["alphabet"]
    idx = {}
    order = []
    delta = {}
    start = (A["start"], B["start"])
    idx[start] = 0
    order.append(start)
    i = 0
    while i < len(order):
        a, b = order[i]
        for ch in alpha:
            nx = (A["delta"][(a, ch)], B["delta"][(b, ch)])
            if nx not in idx:
                idx[nx] = len(order)
                order.append(nx)
            delta[(idx[(a, b)], ch)] = idx[nx]
        i += 1
    finals = {idx[(a, b)] for (a, b) in order if a in A["finals"] and b in B["finals"]}
    return {"n": len(order), "delta": delta, "finals": finals, "start": 0, "alphabet": alpha}


def _word_with(D, bad_chars):
    """Shortest accepted word that contains one of bad_chars after its first character."""
    from collections import deque
    start = (D["start"], False, 0)
    seen = {start: None}
    dq = deque([start])
    while dq:
        st = dq.popleft()
        s, hit, ln = st
        if s in D["finals"] and hit:
            w = []
            cur = st
            while seen[cur] is not None:
                cur, ch = seen[cur]
                w.append(ch)
            return "".join(chr(c) for c in reversed(w))
        if ln > 6:
            continue
        for ch in D["alphabet"]:
            nx = (D["delta"][(s, ch)], hit or (ln >= 1 and ch in bad_chars), ln + 1)
            key = (nx[0], nx[1], min(nx[2], 7))
            if key not in seen:
                seen[key] = (st, ch)
                dq.append(key)
    return None


def _derivation(ctx, rep, cm, fnm, fm):
    w = fnm["where"]
    rep.add("one-derivation", cm.rel + "::ctparse::labels taken from the normalised text", w,
            fnm["labels_on"] == "norm" and fm["labels_on"] == "norm",
            "" if fnm["labels_on"] == fm["labels_on"] == "norm" else
            "labels are taken from the {} text without a time expression and from the {} text with one".format(
                fnm["labels_on"], fm["labels_on"]))
    rep.add("one-derivation", cm.rel + "::ctparse::same label helper", w,
            fnm["label_fn"] is not None and fnm["label_fn"] == fm["label_fn"],
            "" if fnm["label_fn"] == fm["label_fn"] else "different label helpers: {} vs {}".format(fnm["label_fn"], fm["label_fn"]))
    same_strip = fnm["strip_pat"] is not None and fnm["strip_pat"] == fm["strip_pat"] and \
        fnm.get("strip_on") == fm.get("strip_on") == "norm" and fnm["strip_stripped"] == fm["strip_stripped"]
    rep.add("one-derivation", cm.rel + "::ctparse::same label stripping", w, same_strip,
            "" if same_strip else "label stripping differs: {!r} on {} vs {!r} on {}".format(
                fnm["strip_pat"], fnm.get("strip_on"), fm["strip_pat"], fm.get("strip_on")))
    same_split = fnm["split_pat"] is not None and fnm["split_pat"] == fm["split_pat"] and \
        fnm["split_on"] == fm["split_on"] == "stripped"
    rep.add("one-derivation", cm.rel + "::ctparse::same word splitting", w, same_split,
            "" if same_split else "words are split by {!r} on the {} text without a time expression and by "
            "{!r} on the {} text with one".format(fnm["split_pat"], fnm["split_on"], fm["split_pat"], fm["split_on"]))
    same_join = fnm["join_sep"] is not None and fnm["join_sep"] == fm["join_sep"]
    rep.add("one-derivation", cm.rel + "::ctparse::same joiner", w, same_join,
            "" if same_join else "subject joined by {!r} vs {!r}".format(fnm["join_sep"], fm["join_sep"]))
    rep.add("labels-stripped-first", cm.rel + "::_ctparse::matcher sees the stripped text", fm["where"],
            fm["matcher_on"] == "stripped",
            "" if fm["matcher_on"] == "stripped" else "the matcher runs on the {} text".format(fm["matcher_on"]))
    rep.add("labels-stripped-first", cm.rel + "::_ctparse::subject words from the stripped text", fm["where"],
            fm["split_on"] == "stripped",
            "" if fm["split_on"] == "stripped" else "the subject is split from the {} text".format(fm["split_on"]))


def _order(ctx, rep, cm, fm=None):
    f = cm.func("_ctparse")
    c = cm.rel + "::_ctparse::subject"
    subj = fm.get("subject_term") if fm else None
    where = fm["where"] if fm else cm.where(f)
    if not (isinstance(subj, tuple) and subj and subj[0] == "join"):
        rep.undecided("order-provenance", c, where, "subject construction not recognised: {}".format(
            st_.term_text(subj)[:80]))
    else:
        words, wrappers = _unwrap_order(subj[2])
        lost = [h for h in st_.ORDER_LOSING if st_.find(subj[2], h)]
        mapped = st_.find(subj[2], "map")
        is_split = isinstance(words, tuple) and words and words[0] in ("resplit", "ssplit")
        dedup = [h for h in st_.MULTIPLICITY_LOSING if st_.find(subj[2], h)]
        if lost:
            rep.violated("order-provenance", c + " iterates the split words in order", where,
                         "the subject goes through {}(): the word order of the text is lost".format(lost[0]))
        elif dedup:
            rep.violated("order-provenance", c + " iterates the split words in order", where,
                         "the split words go through dict.fromkeys(): a word that occurs twice in the text is "
                         "kept once")
        elif mapped:
            rep.violated("order-provenance", c + " elements are the words", where,
                         "subject elements are {} (not the words themselves)".format(
                             st_.term_text(mapped[0][1])[:40]))
        elif not is_split:
            rep.undecided("order-provenance", c, where, "subject construction not recognised: {}".format(
                st_.term_text(words)[:80]))
        else:
            rep.ok("order-provenance", c + " elements are the words", where)
            rep.ok("order-provenance", c + " iterates the split words in order", where,
                   "join over {} of the split words".format("/".join(w[0] for w in wrappers) or "the list"))
            conds = []
            for w in wrappers:
                if w[0] == "filter":
                    conds.extend(w[2])
                if w[0] == "prefix":
                    conds.append(None)

            def member(t):
                if isinstance(t, tuple):      # (test, polarity) from a loop guard
                    t = t[0]
                if isinstance(t, ast.UnaryOp) and isinstance(t.op, ast.Not):
                    t = t.operand
                return isinstance(t, ast.Compare) and len(t.ops) == 1 and isinstance(t.ops[0], (ast.NotIn, ast.In))
            filt_ok = all(t is not None and member(t) for t in conds)
            rep.add("order-provenance", c + " filter is a membership test", where, filt_ok,
                    "" if filt_ok else "the subject filter is {}".format(
                        [norm(t[0] if isinstance(t, tuple) else t) if t is not None else "a loop with break"
                         for t in conds]))
    # labels
    helper = cm.funcs.get("_get_labels")
    if helper is not None:
        comps = [n for n in ast.walk(helper) if isinstance(n, ast.ListComp)]
        bad = [n for n in ast.walk(helper) if isinstance(n, ast.Call) and isinstance(n.func, ast.Name)
               and n.func.id in ("set", "sorted", "frozenset", "reversed")]
        Th = st_.Terms(cm)
        Th.run(helper.body, {helper.args.args[0].arg: ("text", "norm")} if helper.args.args else {})
        fa = [t for rt, _n in Th.returns for t in st_.find(rt, "findall")]
        ok = bool(fa) and not bad and all(len(cmp_.generators) == 1 and not cmp_.generators[0].ifs for cmp_ in comps)
        rep.add("order-provenance", cm.rel + "::_get_labels::labels in text order", cm.where(helper), ok,
                "" if ok else "labels are reordered, filtered or not taken with findall")
