"""C19 — the rule base is structurally sound and the shipped model speaks its
language.  All clauses are structural (DESIGN.md §4 C19)."""
import ast
import os

from ..core import AnalysisError, Undecided
from .. import e1_model as e1
from .. import e2_regex as e2
from .. import e7_pickle as e7
from ..e3_rules import get_engine, Shape
from ..e3_values import *  # noqa
from .common import rule_construct, norm, report_undecided, walk_shapes, grouped_runs

ARTIFACT_NAMES = ("Time", "Interval", "Duration", "Artifact")


# clauses that report a construct they found (a write, a computed value), not a pattern they
# failed to find: the idiom guard of sa/idioms.py does not apply to them
IDIOM_GUARD_EXEMPT = {"id-sharing", "model-vocabulary", "unique-name"}
# clauses that conclude from the absence of a path or shape: they need every run of the rule-base
# analysis to be complete
NEEDS_ALL_RUNS = {"not-dead", "pod-closure"}


def check(ctx, rep, tier):
    rep.describe("unique-name", "no two top-level functions of a rule module share a name "
                 "(a later def silently replaces the earlier registry entry)")
    rep.describe("registered", "every top-level function that takes a reference time first "
                 "and returns an artifact type carries the @rule decorator; the registry "
                 "key is the production's own name and the value wraps that production")
    rep.describe("not-dead", "every rule is reached by at least one parameter shape of the "
                 "rule-base fixpoint (an over-approximation: a rule reported dead is dead)")
    rep.describe("non-nullable", "minimum match width of every wrapped pattern >= 1 and "
                 "the id group spans the whole pattern")
    rep.describe("no-adjacent-regex", "no decorator argument list has two neighbouring "
                 "string patterns")
    rep.describe("id-sharing", "the id allocation in rule._map is a function of the pattern "
                 "text: lookup precedes allocation, ids start at the folded counter and "
                 "are contiguous")
    rep.describe("pod-closure", "every part-of-day string of every reachable shape is a key "
                 "of the flattened part-of-day table")
    rep.describe("model-vocabulary", "every blank-separated component of every vocabulary key "
                 "of the shipped pickle is a simulated pattern id or a registered rule name")
    _registry_keys(ctx, rep)
    rb = ctx.rb
    _names(ctx, rep)
    _registry(ctx, rep)
    _patterns(ctx, rep)
    _ids(ctx, rep)
    eng = get_engine(ctx)
    _dead(ctx, rep, eng)
    _pod_closure(ctx, rep, eng)
    _model(ctx, rep)
    report_undecided(rep, eng)
    rep.count("rules", len(rb.rules), 40)
    rep.count("distinct_patterns", len(rb.id_of_text), 25)
    rep.assume("A1: ast/pickletools/regex parser are faithful")


def _registry_keys(ctx, rep):
    """the key every registration stores under (rule.py: ``rules[f.__name__]``), derived for the
    decorator form and for the call form ``rule(...)(helper(f))``: `__name__` of a closure is the
    name of its inner def unless that def is decorated with ``wraps(<the wrapped parameter>)``.
    Two registrations under one key: the later silently replaces the earlier.  Runs before the rule
    table is read, so that it also answers on trees whose table cannot be read off decorators."""
    regs = e1.registration_keys(ctx.model)
    if regs is None:
        return
    by = {}
    for key, mod, node, form in regs:
        if key is not None:
            by.setdefault(key, []).append((mod, node, form))
    for key, lst in sorted(by.items()):
        if len(lst) > 1 and any(form == "call" for _m, _n, form in lst):
            mod, node, _f = lst[1]
            rep.violated("unique-name", "registry-key::{}".format(key), mod.where(node),
                         "{} productions register under the key '{}' (at {}); each later one replaces "
                         "the one before it, which can no longer fire".format(
                             len(lst), key, ", ".join(m.where(n) for m, n, _f in lst)))
    if not any(len(l) > 1 for l in by.values()):
        rep.ok("unique-name", "registry-keys::all", "ctparse/rule.py",
               "{} registrations, {} keys derived, all distinct".format(len(regs), len(by)))


def _names(ctx, rep):
    for mod in ctx.rb.rule_mods:
        seen = {}
        for st in mod.tree.body:
            if isinstance(st, (ast.FunctionDef, ast.ClassDef)):
                if st.name in seen:
                    rep.violated("unique-name", "{}::{}".format(mod.rel, st.name), mod.where(st),
                                 "second definition of '{}' (first at line {}) replaces the "
                                 "registry entry".format(st.name, seen[st.name]))
                else:
                    seen[st.name] = st.lineno
            elif isinstance(st, ast.Assign):
                for t in st.targets:
                    if isinstance(t, ast.Name) and t.id in seen and \
                            any(r.name == t.id for r in ctx.rb.rules):
                        rep.violated("unique-name", "{}::{}".format(mod.rel, t.id), mod.where(st),
                                     "rule name rebound by an assignment")
        names = [r.name for r in ctx.rb.rules if r.mod is mod]
        if len(set(names)) == len(names):
            rep.ok("unique-name", mod.rel + "::all", mod.rel, "{} rule names distinct".format(len(names)))
    # across rule modules
    allnames = [r.name for r in ctx.rb.rules]
    dup = {n for n in allnames if allnames.count(n) > 1}
    for n in sorted(dup):
        rs = ctx.rb.by_name(n)
        if len({r.mod.rel for r in rs}) > 1:
            rep.violated("unique-name", "cross-module::" + n, rs[-1].where, "same rule name in two rule modules")


def _registry(ctx, rep):
    # undecorated production-shaped functions
    for mod, st in ctx.rb.helpers:
        args = st.args.args
        first = args[0] if args else None
        takes_ts = first is not None and (first.arg == "ts" or norm(first.annotation or ast.Constant(value="")) == "datetime")
        ret = norm(st.returns) if st.returns is not None else ""
        returns_art = any(a in ret for a in ARTIFACT_NAMES)
        takes_art = any(a.annotation is not None and any(x in norm(a.annotation) for x in ARTIFACT_NAMES + ("RegexMatch",))
                        for a in args[1:])
        if takes_ts and returns_art and takes_art:
            # a helper that is called from a rule is a helper; one that nobody calls is
            # an unregistered production
            called = any(isinstance(c, ast.Call) and e1.callee_name(c.func) == st.name
                         for c in ast.walk(mod.tree))
            rep.add("registered", "{}::{}".format(mod.rel, st.name), mod.where(st), called,
                    "" if called else "production-shaped function without @rule: never registered")
    for r in ctx.rb.rules:
        bad = [p for p in r.pats if p.kind == "unknown"]
        if bad:
            rep.undecided("registered", rule_construct(r, "patterns"), r.where,
                          "pattern argument not foldable: " + bad[0].value)
        elif len(r.params) != len(r.pats) + 1:
            rep.violated("registered", rule_construct(r, "arity"), r.where,
                         "production takes {} parameters for {} patterns (+ts): applying it "
                         "raises TypeError".format(len(r.params), len(r.pats)))
        else:
            rep.ok("registered", rule_construct(r, "decorator"), r.where, nontrivial=False)
    # registry pairing in fwrapper
    rm = ctx.imod("ctparse.rule")
    fw = rm.func("rule.fwrapper")
    fparam = fw.args.args[0].arg
    ok_key = ok_val = ok_call = False
    where = rm.where(fw)
    for n in ast.walk(fw):
        if isinstance(n, ast.Assign) and len(n.targets) == 1 and isinstance(n.targets[0], ast.Subscript) \
                and norm(n.targets[0].value) == "rules":
            where = rm.where(n)
            key = n.targets[0].slice
            ok_key = norm(key) == "{}.__name__".format(fparam)
            v = n.value
            if isinstance(v, ast.Tuple) and v.elts and isinstance(v.elts[0], ast.Name):
                from .common import registered_callable
                inner, how = registered_callable(rm)
                ok_val = inner is not None
                if inner is not None and how[0] == "name":
                    ok_call = any(isinstance(c, ast.Call) and isinstance(c.func, ast.Name)
                                  and c.func.id == how[1] for c in ast.walk(inner))
                elif inner is not None:
                    ok_call = any(isinstance(c, ast.Call) and norm(c.func) == "self." + how[1]
                                  for c in ast.walk(inner))
    rep.add("registered", rm.rel + "::rule.fwrapper::registry-key", where, ok_key,
            "" if ok_key else "registry key is not the production's own __name__")
    rep.add("registered", rm.rel + "::rule.fwrapper::registry-value", where, ok_val and ok_call,
            "" if ok_val and ok_call else "registered callable does not wrap the decorated production")


def _patterns(ctx, rep):
    n = 0
    for r in ctx.rb.rules:
        # adjacency
        adj = [i for i in range(len(r.pats) - 1)
               if r.pats[i].kind == "regex" and r.pats[i + 1].kind == "regex"]
        rep.add("no-adjacent-regex", rule_construct(r, "patterns"), r.where, not adj,
                "" if not adj else "patterns {} and {} are both regular expressions".format(adj[0], adj[0] + 1),
                nontrivial=False)
        for i, p in enumerate(r.pats):
            if p.kind != "regex":
                continue
            n += 1
            c = rule_construct(r, "pattern[{}]".format(i))
            try:
                w, P = ctx.wrapped(p.value)
                mw_all = e2.minwidth(P.root, P)
                mw_id = e2.minwidth(P.id_group.child, P)
                # the id group must be the only consuming top-level item
                top = P.root.items if P.root.kind == "seq" else [P.root]
                others = [t for t in top if t is not P.id_group and e2.maxwidth(t, P) > 0]
                ok = mw_all >= 1 and mw_id >= 1 and not others
                det = ""
                if mw_id < 1 or mw_all < 1:
                    det = "pattern can match the empty string (minimum width {})".format(mw_id)
                elif others:
                    det = "text is consumed outside the id group (zero-length group possible)"
                rep.add("non-nullable", c, r.where, ok, det, witness=None if ok else {"pattern": p.value[:200]})
            except Undecided as e:
                rep.undecided("non-nullable", c, r.where, str(e))
    rep.count("regex_pattern_uses", n, 30)


def _ids(ctx, rep):
    """id allocation of rule.py, decided on the folded registration (e1.simulate_registration):
    the body of rule._map with its helpers inlined, constant-propagated for a fresh pattern text
    and for a text that is already in the table."""
    rm = ctx.imod("ctparse.rule")
    f = rm.funcs.get("rule._map") or rm.func("rule")
    where = rm.where(f)
    T1, T2 = "\ue000fresh+", "\ue000other+"
    first = 4242
    A = e1.simulate_registration(ctx.model, T1, counter=first)
    # the tables by role, from what the fresh registration did to them
    by_text = [k for k, v in A.after.items() if isinstance(v, dict) and T1 in v]
    by_id_text = [k for k, v in A.after.items() if isinstance(v, dict) and any(x == T1 for x in v.values())]
    by_id_comp = [k for k, v in A.after.items() if isinstance(v, dict)
                  and any(isinstance(x, e1.Probe) for x in v.values())]
    counters = [k for k, v in A.after.items() if isinstance(v, int) and A.before.get(k) == first]
    fresh_id = A.predicate_ids[-1] if A.predicate_ids else None
    ok = A.raised is None and len(by_text) == 1 and fresh_id == first and A.after[by_text[0]].get(T1) == first
    rep.add("id-sharing", rm.rel + "::rule._map::returned-id", where, ok,
            "" if ok else "a fresh text registered at counter {} is stored under {} and its predicate is built "
            "for id {}".format(first, A.after[by_text[0]].get(T1) if by_text else None, fresh_id))
    key_ok = bool(by_id_comp) and list(A.after[by_id_comp[0]].keys()) == [first] and bool(A.compiles)
    rep.add("id-sharing", rm.rel + "::rule._map::compiled-table-key", where, key_ok,
            "" if key_ok else "compiled pattern stored under a different key than its id")
    txt_ok = bool(by_id_text) and A.after[by_id_text[0]] == {first: T1}
    rep.add("id-sharing", rm.rel + "::rule._map::id-to-text table", where, txt_ok,
            "" if txt_ok else "the id -> text table does not map the new id to its text")
    cnt_ok = len(counters) == 1 and A.after[counters[0]] == first + 1
    rep.add("id-sharing", rm.rel + "::rule._map::counter advances by one", where, cnt_ok,
            "" if cnt_ok else "after a fresh registration at {} the counter is {}".format(
                first, A.after.get(counters[0]) if counters else None))
    # a text that is already registered keeps its id and allocates nothing
    ok_b = False
    det = "no text -> id table found"
    if len(by_text) == 1:
        state = {k: v for k, v in A.after.items() if isinstance(v, dict)}
        B = e1.simulate_registration(ctx.model, T1, counter=first + 1, prefill=state)
        same = all(B.after.get(k) == (v if not isinstance(v, dict) else v) for k, v in state.items())
        ok_b = B.raised is None and B.predicate_ids[-1:] == [first] and not B.compiles and same and \
            all(B.after[c] == first + 1 for c in counters)
        det = "" if ok_b else "registering the same text again gives id {} (first {}), compiles {} pattern(s), counter {}: " \
            "identical text may get two ids".format(B.predicate_ids[-1:] or None, first, len(B.compiles),
                                                   [B.after[c] for c in counters])
        # and a different text gets the next id
        C = e1.simulate_registration(ctx.model, T2, counter=first + 1, prefill=state)
        nxt = C.raised is None and C.predicate_ids[-1:] == [first + 1] and C.after[by_text[0]].get(T2) == first + 1 \
            and C.after[by_text[0]].get(T1) == first
        rep.add("id-sharing", rm.rel + "::rule._map::distinct texts get distinct ids", where, nxt,
                "" if nxt else "a second, different text is registered under id {}".format(C.predicate_ids[-1:]))
    rep.add("id-sharing", rm.rel + "::rule._map::lookup-before-allocation", where, ok_b, det)
    # group name in the wrapped pattern is R<id>
    try:
        w, _ = e1.wrapped_pattern(ctx.model, "x", 4242)
        g_ok = "(?P<R4242>x)" in w
    except AnalysisError as e:
        g_ok = False
    rep.add("id-sharing", rm.rel + "::rule._map::group-name", where, g_ok,
            "" if g_ok else "wrapped pattern does not name its group R<id>")
    # RegexMatch reads group "R{id}": fold the value stored in self.key for id 4242
    tm = ctx.imod("ctparse.types")
    init = tm.func("RegexMatch.__init__")
    k_ok = False
    idp = init.args.args[1].arg if len(init.args.args) > 1 else "id"
    for n in ast.walk(init):
        if isinstance(n, ast.Assign) and len(n.targets) == 1 and norm(n.targets[0]) == "self.key":
            ev = e1.PureEval(ctx.model, tm, ctx.model.env("ctparse.types"))
            try:
                k_ok = ev.ev(n.value, {idp: 4242}) == "R4242"
            except Undecided:
                k_ok = False
    rep.add("id-sharing", tm.rel + "::RegexMatch.__init__::key", tm.where(init), k_ok,
            "" if k_ok else "RegexMatch no longer derives the group key 'R<id>'")
    ids = sorted(ctx.rb.text_of_id)
    contiguous = ids == list(range(ctx.rb.first_id, ctx.rb.first_id + len(ids)))
    rep.add("id-sharing", "simulated ids", rm.rel, contiguous and ctx.rb.first_id >= 100,
            "ids {}..{}".format(ids[0], ids[-1]) if ids else "no ids")


def _dead(ctx, rep, eng):
    ran = {}
    for mk, run in eng.runs.items():
        if run.paths or run.error:
            ran[(mk[1], run.rule.name)] = True
    for ri, r in enumerate(ctx.rb.rules):
        if any(p.kind == "unknown" for p in r.pats):
            continue
        alive = (ri, r.name) in ran
        det = ""
        if not alive:
            lacking = []
            for i, p in enumerate(r.pats):
                if p.kind != "regex" and not eng.candidates(p):
                    lacking.append("{}({})".format(p.kind, p.value))
            det = "no reachable value satisfies " + ", ".join(lacking) if lacking else "never reached"
        rep.add("not-dead", rule_construct(r, "reachable"), r.where, alive, det)


def _pod_closure(ctx, rep, eng):
    table = ctx.model.const("ctparse.types", "pod_hours")
    if not isinstance(table, dict):
        rep.undecided("pod-closure", "ctparse/types.py::pod_hours", "ctparse/types.py",
                      "part-of-day table could not be folded")
        return
    rep.count("pod_table_keys", len(table), 50)
    bad = {}
    n = 0
    for key, sh in eng.R.items():
        for s in walk_shapes(sh):
            v = s.attrs.get("POD")
            if isinstance(v, StrV):
                n += 1
                if v.vals is None:
                    for src in sorted(sh.sources):
                        bad.setdefault(src, "unbounded part-of-day language (modifier rule can be re-applied to its own output)")
                else:
                    miss = sorted(x for x in v.vals if x not in table)
                    if miss:
                        for src in sorted(sh.sources):
                            bad.setdefault(src, "builds part-of-day keys unknown to the table: {}".format(miss[:3]))
    # attribute the escape to the rules that *construct* POD strings
    makers = set()
    for r in ctx.rb.rules:
        for c in ast.walk(r.node):
            if isinstance(c, ast.keyword) and c.arg == "POD":
                makers.add(r.name)
    reported = False
    for src, det in sorted(bad.items()):
        if src in makers:
            r = ctx.rb.by_name(src)[0]
            val = [k.value for c in ast.walk(r.node) for k in getattr(c, "keywords", []) if k.arg == "POD"]
            if val and all(isinstance(v, ast.Attribute) for v in val):
                continue   # copies an existing part of day
            rep.violated("pod-closure", rule_construct(r, "POD="), r.where, det)
            reported = True
    if bad and not reported:
        rep.violated("pod-closure", "rule base", "ctparse/time/rules.py", next(iter(bad.values())))
    if not bad:
        rep.ok("pod-closure", "ctparse/time/rules.py::POD language", "ctparse/time/rules.py",
               "{} part-of-day fields over {} shapes within {} table keys".format(n, len(eng.R), len(table)))


def _model(ctx, rep):
    path = os.path.join(ctx.root, "ctparse", "models", "model.pbz")
    vocab, globals_, nops = e7.read_model(path)
    rep.count("vocabulary_keys", len(vocab), 100)
    ids = {str(i) for i in ctx.rb.text_of_id}
    names = {r.name for r in ctx.rb.rules}
    toks = {}
    for k in vocab:
        for t in k.split(" "):
            toks.setdefault(t, k)
    rep.count("vocabulary_tokens", len(toks), 20)
    unknown = sorted(t for t in toks if t not in ids and t not in names)
    for t in unknown[:40]:
        rep.violated("model-vocabulary", "ctparse/models/model.pbz::token::" + t, "ctparse/models/model.pbz",
                     "vocabulary token '{}' names neither a pattern id nor a rule".format(t),
                     witness={"key": toks[t]})
    if not unknown:
        rep.ok("model-vocabulary", "ctparse/models/model.pbz::vocabulary", "ctparse/models/model.pbz",
               "{} keys, {} tokens, all known".format(len(vocab), len(toks)))
    pk = {".".join(g) for g in globals_}
    for g in sorted(pk):
        modn, _, cls = g.rpartition(".")
        ok = modn in ctx.model.mods and cls in ctx.model.mods[modn].classes
        rep.add("model-vocabulary", "ctparse/models/model.pbz::global::" + g, "ctparse/models/model.pbz", ok,
                "" if ok else "pickle references a class that no longer exists (load fails at import)")
