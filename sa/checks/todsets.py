"""Collecting semantics for date-less clock ranges on a small exact domain.

An un-dated interval (both ends carry an hour, no date) that reaches a consumer rule
was built by a producer rule; which (from, to) pairs exist is a relational fact the
interval shapes of E3 cannot express.  This module computes, for hours 0..23 and a
set of representative minutes, the set of (from.hour, from.minute, to.hour,
to.minute) tuples the producers' path summaries can build — a fixpoint over a finite
domain — so that consumers are checked on producible inputs only.  Only summary terms
are evaluated (E4); no repository code runs.
"""
from ..core import Undecided
from .. import e4_order as e4
from ..e3_values import *  # noqa

MINUTES = (None, 0, 30)
HOURS = tuple(range(24))
TOD_FIELDS = ("hour", "minute")


def is_tod_obj(o):
    a = o.attrs
    return isinstance(a.get("hour"), IntV) and all(
        isinstance(a.get(f), NoneV) for f in ("year", "month", "day", "DOW", "POD") if f in a)


def tod_interval_param(st, o):
    """(from obj, to obj) if o is an un-dated clock-range parameter."""
    if o.fresh or "t_from" not in o.attrs:
        return None
    a, b = o.attrs.get("t_from"), o.attrs.get("t_to")
    if isinstance(a, RefV) and isinstance(b, RefV):
        oa, ob = st.heap[a.oid], st.heap[b.oid]
        if is_tod_obj(oa) and is_tod_obj(ob):
            return oa, ob
    return None


def _leaf(o, f):
    return ("attr", o.sym, f)


def _minute_ok(o, m):
    v = o.attrs.get("minute")
    if isinstance(v, NoneV) or v is None:
        return m is None
    return m is not None and isinstance(v, IntV) and v.lo <= m <= v.hi


def _hour_ok(o, h):
    v = o.attrs.get("hour")
    return isinstance(v, IntV) and v.lo <= h <= v.hi


class TodSets:
    def __init__(self, eng):
        self.eng = eng
        self.T = set()
        self.complete = True
        self.notes = []
        self._build()

    def _producer_paths(self):
        out = []
        for mk, run in self.eng.runs.items():
            for p in run.paths:
                if p.kind != "ret" or not isinstance(p.val, RefV):
                    continue
                obj = p.st.heap[p.val.oid]
                if "t_from" not in obj.attrs:
                    continue
                if not obj.fresh or getattr(obj, "copied_from", None) is not None:
                    continue     # identity on an existing interval
                a, b = obj.attrs.get("t_from"), obj.attrs.get("t_to")
                if not (isinstance(a, RefV) and isinstance(b, RefV)):
                    continue
                oa, ob = p.st.heap[a.oid], p.st.heap[b.oid]
                if is_tod_obj(oa) and is_tod_obj(ob):
                    out.append((run, p, oa, ob))
        return out

    def _build(self):
        prods = self._producer_paths()
        for _ in range(6):
            before = len(self.T)
            for run, p, oa, ob in prods:
                self._eval_producer(run, p, oa, ob)
            if len(self.T) == before:
                break
        else:
            self.complete = False

    def _eval_producer(self, run, p, oa, ob):
        terms = []
        for o in (oa, ob):
            for f in TOD_FIELDS:
                v = o.attrs.get(f)
                terms.append(v.sym if isinstance(v, IntV) else None)
        leaves = set()
        for t in terms:
            if t is not None:
                e4.base_syms(t, leaves)
        for c, _ in p.conds:
            e4.base_syms(c, leaves)
        order = sorted(leaves, key=repr)
        try:
            f = e4.compile_path(p.conds, terms, order)
            for a in self.valuations(p.st, leaves, order=order):
                r = f(a)
                if r is not None:
                    self.T.add(r)
        except Undecided as e:
            self.complete = False
            self.notes.append("{}: {}".format(run.rule.name, e))

    def valuations(self, st, leaves, extra_domains=None, order=None):
        """Valuations of the leaves of one path: clock-range parameters draw from the
        producible tuple set, single clock-time parameters from the full hour range
        and the representative minutes, everything else from extra_domains.  Yields
        lists aligned with *order* (default: sorted leaves)."""
        import itertools
        if order is None:
            order = sorted(leaves, key=repr)
        index = {l: i for i, l in enumerate(order)}
        groups = []
        used = set()
        for o in st.heap.values():
            pr = tod_interval_param(st, o)
            if pr is None:
                continue
            oa, ob = pr
            ls = [_leaf(oa, "hour"), _leaf(oa, "minute"), _leaf(ob, "hour"), _leaf(ob, "minute")]
            if not any(l in index for l in ls):
                continue
            tuples = [t for t in self.T
                      if _hour_ok(oa, t[0]) and _minute_ok(oa, t[1]) and _hour_ok(ob, t[2])
                      and _minute_ok(ob, t[3])]
            groups.append(([index.get(l) for l in ls], sorted(tuples, key=repr)))
            used.update(ls)
        for o in st.heap.values():
            if o.fresh or not is_tod_obj(o):
                continue
            ls = [_leaf(o, "hour"), _leaf(o, "minute")]
            if any(l in used for l in ls) or not any(l in index for l in ls):
                continue
            tuples = [(h, m) for h in HOURS for m in MINUTES if _hour_ok(o, h) and _minute_ok(o, m)]
            groups.append(([index.get(l) for l in ls], tuples))
            used.update(ls)
        rest = [l for l in order if l not in used]
        for l in rest:
            if extra_domains is None:
                raise Undecided("leaf outside the clock domain: {!r}".format(l))
            groups.append(([index[l]], [(x,) for x in extra_domains(l)]))
        n = len(order)
        for combo in itertools.product(*[g[1] for g in groups]):
            a = [None] * n
            for (idxs, _), tup in zip(groups, combo):
                for i, v in zip(idxs, tup):
                    if i is not None:
                        a[i] = v
            yield a


def get_todsets(ctx, eng):
    return ctx.memo("todsets", lambda: TodSets(eng))
