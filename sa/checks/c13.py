"""C13 — timeout honoured: bounded work between deadline checks, clean partial
results (E6: control flow of the search loop; DESIGN.md §4 C13)."""
import ast

from ..core import AnalysisError
from .. import e1_model as e1
from ..e3_rules import get_engine
from ..e3_state import State
from ..e3_values import *  # noqa
from ..e3_interp import Raised, PathLimit
from .common import norm, calls_in

WORK = {"from_regex_matches", "apply_rule", "score", "score_final", "_filter_rules", "PartialParse",
        "_match_rule", "_seq_match"}


def check(ctx, rep, tier):
    rep.describe("deadline-per-iteration", "every loop or comprehension over a collection derived "
                 "from the enumerated candidate sequences (or over the enumeration's own work "
                 "stack) whose body does rule-applicability analysis, rule application or "
                 "scoring executes a call of the deadline closure on every path through one "
                 "iteration, before the work")
    rep.describe("contained", "every call of the deadline closure (direct, or through the "
                 "parameter it is passed as) lies inside a try whose handler catches the timeout "
                 "exception and ends the stream without re-raising")
    rep.describe("non-interference", "the timeout value and the closure are used only to build "
                 "the closure, to call it as a statement and to pass it on; they reach no "
                 "yielded value")
    rep.describe("zero-means-unlimited", "the closure never raises for timeout 0 and can raise "
                 "for a positive timeout (abstract interpretation of the closure)")
    rep.describe("from-start", "the deadline closure compares <clock now> - START with the timeout, where "
                 "START is read once from the clock when the closure is made and never written afterwards")
    rep.describe("best-so-far", "the single-result entry point selects from whatever the stream "
                 "yielded (shared with C14)")
    cm = ctx.imod("ctparse.ctparse")
    f = cm.func("_ctparse")
    closure, ctor_call = _closure_var(cm, f)
    _loops(ctx, rep, cm, f, closure)
    _contained(ctx, rep, cm, f, closure)
    _noninterference(ctx, rep, cm, f, closure)
    _zero(ctx, rep)
    _zero_passed_through(ctx, rep, cm)
    _from_start(ctx, rep)
    _best(ctx, rep, cm)
    rep.assume("not decided: how long a single uninterruptible step (one regex scan, one rule "
               "expansion over rules x windows) takes")


def _closure_var(cm, f):
    """The local bound to the result of the deadline-closure constructor."""
    env_names = set()
    for st in cm.tree.body:
        if isinstance(st, ast.ImportFrom) and st.module and st.module.endswith("timers"):
            for a in st.names:
                if a.name == "timeout":
                    env_names.add(a.asname or a.name)
        elif isinstance(st, ast.FunctionDef) and getattr(st, "_origin_name", None) == "timeout" and \
                (getattr(st, "_origin_rel", "") or "").endswith("timers.py"):
            env_names.add(st.name)      # the definition grafted into the inlined view
    for n in ast.walk(f):
        if isinstance(n, ast.Assign) and isinstance(n.value, ast.Call) and isinstance(n.value.func, ast.Name) \
                and n.value.func.id in env_names and len(n.targets) == 1 and isinstance(n.targets[0], ast.Name):
            return n.targets[0].id, n.value
    raise AnalysisError("anchor vanished: deadline closure construction in _ctparse")


def _root_collection(e):
    """Name of the collection an iterable expression ranges over (through order/slice
    wrappers), or None when it ranges over a part of one element."""
    while True:
        if isinstance(e, ast.Call) and isinstance(e.func, ast.Name) and \
                e.func.id in ("reversed", "enumerate", "sorted", "list", "tuple", "iter", "len") and e.args:
            e = e.args[0]
        elif isinstance(e, ast.Subscript) and isinstance(e.slice, ast.Slice):
            e = e.value
        elif isinstance(e, ast.Compare):
            e = e.left
        elif isinstance(e, ast.UnaryOp):
            e = e.operand
        else:
            break
    if isinstance(e, ast.Call) and isinstance(e.func, ast.Name) and e.func.id in ("zip", "chain") and e.args:
        # parallel iteration: one step per element of each argument
        for a in e.args:
            r = _root_collection(a)
            if r is not None and (_COLL is None or r in _COLL):
                return r
        return _root_collection(e.args[0])
    return e.id if isinstance(e, ast.Name) else None


_COLL = None


def _derived_from(f, source_call_names):
    """Local names bound to collections with one entry per candidate sequence: results
    of the sequence enumeration and lists built one item per entry of such a list."""
    global _COLL
    coll = set()
    _COLL = coll
    changed = True

    def from_source(v):
        for c in ast.walk(v):
            if isinstance(c, ast.Call):
                fn = c.func
                if isinstance(fn, ast.Name) and fn.id in source_call_names:
                    return True
                if isinstance(fn, ast.Call) and fn.args and isinstance(fn.args[0], ast.Name) \
                        and fn.args[0].id in source_call_names:
                    return True
        return False

    while changed:
        changed = False
        for n in ast.walk(f):
            if isinstance(n, ast.Assign):
                flat = []
                for t in n.targets:
                    if isinstance(t, ast.Name):
                        flat.append(t.id)
                    elif isinstance(t, ast.Tuple) and t.elts and isinstance(t.elts[0], ast.Name):
                        flat.append(t.elts[0].id)   # (result, elapsed) = timeit(f)(...)
                v = n.value
                src = from_source(v) or _root_collection(v) in coll
                if isinstance(v, (ast.ListComp, ast.GeneratorExp, ast.SetComp)) and \
                        _root_collection(v.generators[0].iter) in coll:
                    src = True
                for nm in flat:
                    if src and nm not in coll:
                        coll.add(nm)
                        changed = True
            if isinstance(n, ast.For) and _root_collection(n.iter) in coll:
                for c in ast.walk(n):
                    if isinstance(c, ast.Call) and isinstance(c.func, ast.Attribute) and \
                            c.func.attr in ("append", "add") and isinstance(c.func.value, ast.Name) \
                            and _own_loop(c, n) and c.func.value.id not in coll:
                        coll.add(c.func.value.id)
                        changed = True
    return coll


def _own_loop(node, loop):
    """Is *loop* the innermost loop around node?"""
    cur = getattr(node, "_parent", None)
    while cur is not None:
        if isinstance(cur, (ast.For, ast.While)):
            return cur is loop
        cur = getattr(cur, "_parent", None)
    return False


def _calls_work(node):
    for c in ast.walk(node):
        if isinstance(c, ast.Call) and e1.callee_name(c.func) in WORK:
            return e1.callee_name(c.func)
    return None


def _is_closure_call(st, closure):
    return isinstance(st, ast.Expr) and isinstance(st.value, ast.Call) and \
        isinstance(st.value.func, ast.Name) and st.value.func.id == closure and not st.value.args


def _check_before_work(body, closure):
    """On every path through the statement list, is the closure called before any work?
    Returns 'checked' | 'work-first' | 'none'."""
    for st in body:
        if _is_closure_call(st, closure):
            return "checked"
        if isinstance(st, ast.If):
            a = _check_before_work(st.body, closure)
            b = _check_before_work(st.orelse, closure) if st.orelse else "none"
            if _calls_work(st.test):
                return "work-first"
            if a == "checked" and b == "checked":
                return "checked"
            if "work-first" in (a, b):
                return "work-first"
            continue
        if _calls_work(st):
            return "work-first"
    return "none"


def _loops(ctx, rep, cm, f, closure):
    seq = _derived_from(f, {"_regex_stack"})
    n = 0
    for node in ast.walk(f):
        it = None
        body = None
        kind = None
        if isinstance(node, ast.For):
            it, body, kind = node.iter, node.body, "for"
        elif isinstance(node, ast.While):
            it, body, kind = node.test, node.body, "while"
        elif isinstance(node, (ast.ListComp, ast.GeneratorExp, ast.SetComp, ast.DictComp)):
            it, body, kind = node.generators[0].iter, None, "comprehension"
        if it is None:
            continue
        root = _root_collection(it)
        if root not in seq:
            continue
        names = {root}
        # loops over rules x windows inside one expansion are bounded by the rule base
        work = _calls_work(node) if kind == "comprehension" else _calls_work(ast.Module(body=body, type_ignores=[]))
        if not work:
            continue
        n += 1
        c = "{}::_ctparse::{} over {} doing {}".format(cm.rel, kind, sorted(names & seq)[0], work)
        if kind == "comprehension":
            rep.violated("deadline-per-iteration", c, cm.where(node),
                         "a comprehension over the candidate sequences does {} with no deadline "
                         "check between iterations".format(work))
            continue
        v = _check_before_work(body, closure)
        rep.add("deadline-per-iteration", c, cm.where(node), v == "checked",
                "" if v == "checked" else "no deadline check on every path through one iteration "
                "before the work ({})".format(v))
    rep.count("sequence_indexed_loops", n, 2)
    # inside the enumeration: its work stack loop calls the callback
    g = cm.func("_regex_stack")
    cb = None
    for a in g.args.args:
        if a.annotation is not None and "Callable" in norm(a.annotation):
            cb = a.arg
    ok = False
    for w in ast.walk(g):
        if isinstance(w, ast.While):
            ok = cb is not None and _check_before_work(w.body, cb) == "checked" or \
                (cb is not None and any(_is_closure_call(s, cb) for s in w.body[:1]))
    rep.add("deadline-per-iteration", cm.rel + "::_regex_stack::work-stack loop", cm.where(g), bool(ok),
            "" if ok else "the sequence enumeration loop does not call the deadline callback every iteration")
    # and the callback it receives is the closure
    ok_pass = False
    for c_ in calls_in(f):
        inner = c_.func
        is_rs = (isinstance(inner, ast.Name) and inner.id == "_regex_stack") or \
            (isinstance(inner, ast.Call) and inner.args and norm(inner.args[0]) == "_regex_stack")
        if is_rs and any(isinstance(a, ast.Name) and a.id == closure for a in c_.args + [k.value for k in c_.keywords]):
            ok_pass = True
    rep.add("deadline-per-iteration", cm.rel + "::_ctparse::closure passed to the enumeration", cm.where(f),
            ok_pass, "" if ok_pass else "the sequence enumeration is not given the deadline closure")


def _contained(ctx, rep, cm, f, closure):
    n = 0
    for c_ in calls_in(f):
        direct = isinstance(c_.func, ast.Name) and c_.func.id == closure
        passed = any(isinstance(a, ast.Name) and a.id == closure for a in c_.args + [k.value for k in c_.keywords])
        if not (direct or passed):
            continue
        n += 1
        cur = getattr(c_, "_parent", None)
        ok = False
        while cur is not None and cur is not f:
            if isinstance(cur, ast.Try):
                in_body = any(c_ is x for b in cur.body for x in ast.walk(b))
                for h in cur.handlers:
                    names = [norm(h.type)] if h.type is not None and not isinstance(h.type, ast.Tuple) else \
                        ([norm(e) for e in h.type.elts] if h.type is not None else ["<bare>"])
                    catches = any(x.endswith("CTParseTimeoutError") or x in ("Exception", "BaseException", "<bare>")
                                  for x in names)
                    reraises = any(isinstance(x, ast.Raise) for b in h.body for x in ast.walk(b))
                    yields = any(isinstance(x, (ast.Yield, ast.YieldFrom)) for b in h.body for x in ast.walk(b))
                    if in_body and catches and yields:
                        rep.violated("contained", "{}::_ctparse::timeout handler yields".format(cm.rel), cm.where(h),
                                     "the timeout handler adds an element to the stream: what is produced "
                                     "under a timeout is no longer a prefix of the untimed stream")
                    if in_body and catches and not reraises:
                        ok = True
            cur = getattr(cur, "_parent", None)
        rep.add("contained", "{}::_ctparse::{}".format(cm.rel, norm(c_)[:60]), cm.where(c_), ok,
                "" if ok else "a deadline check outside a handler for the timeout exception: the call can raise")
    rep.count("closure_call_sites", n, 2)
    # the entry points have no other try that could mask/raise
    tm = ctx.imod("ctparse.timers")
    exc = [c for c in tm.classes.values() if c.name == "CTParseTimeoutError"]
    if not exc:
        raise AnalysisError("anchor vanished: CTParseTimeoutError")


def _noninterference(ctx, rep, cm, f, closure):
    tparam = None
    for a in f.args.args:
        if a.arg == "timeout":
            tparam = a.arg
    bad = None
    for n in ast.walk(f):
        if isinstance(n, ast.Name) and isinstance(n.ctx, ast.Load) and n.id in (closure, tparam):
            par = getattr(n, "_parent", None)
            if isinstance(par, ast.Call):
                if par.func is n:
                    gp = getattr(par, "_parent", None)
                    if isinstance(gp, ast.Expr):
                        continue
                    bad = bad or "the closure's result is used: " + norm(gp)[:60]
                    continue
                # passed as an argument: to the constructor or to the enumeration (through timeit)
                callee = par.func
                cn = e1.callee_name(callee) if not isinstance(callee, ast.Call) else \
                    (norm(callee.args[0]) if callee.args else "?")
                if n.id == tparam and cn in ("timeout_", "timeout"):
                    continue
                if n.id == closure and cn in ("_regex_stack",):
                    continue
                bad = bad or "{} is passed to {}".format(n.id, cn)
                continue
            if isinstance(par, ast.keyword):
                continue
            bad = bad or "{} is used in {}".format(n.id, norm(par)[:60])
    rep.add("non-interference", cm.rel + "::_ctparse::timeout and closure uses", cm.where(f), bad is None,
            bad or "")
    # the closure writes nothing non-local
    tm = ctx.imod("ctparse.timers")
    # the closure is whatever nested function timeout() returns, under any name
    outer_t = tm.func("timeout")
    tt = None
    for r in ast.walk(outer_t):
        if isinstance(r, ast.Return) and isinstance(r.value, ast.Name):
            cand = tm.funcs.get("timeout." + r.value.id)
            if cand is not None:
                tt = cand
    if tt is None:
        raise AnalysisError("anchor vanished: timers.timeout closure")
    writes = [n for n in ast.walk(tt) if isinstance(n, (ast.Global, ast.Nonlocal)) or
              (isinstance(n, (ast.Attribute, ast.Subscript)) and isinstance(n.ctx, ast.Store))]
    rep.add("non-interference", tm.rel + "::timeout closure::no writes", tm.where(tt), not writes,
            "" if not writes else "the deadline closure writes state: " + norm(writes[0])[:50])


def _zero(ctx, rep):
    eng = get_engine(ctx)
    ip = eng.interp
    tm = ctx.imod("ctparse.timers")
    outer = tm.func("timeout")
    for label, val, want_raise in (("timeout 0", IntV(0, 0), False), ("timeout > 0", IntV(1, 3600), True)):
        st = State()
        st.frames.append({})
        ip.cur_mod.append(tm)
        ip.cur_func.append("timeout")
        ip.cur_fnode.append(outer)
        ip.paths = 0
        raises = None
        und = None
        try:
            outs = ip.call_func(FuncV(tm, outer), [val], {}, st, outer)
            raises = False
            for s, oc in outs:
                if oc[0] != "ret" or not isinstance(oc[1], FuncV):
                    und = "the constructor does not return a closure"
                    continue
                inner = oc[1]
                for s2, oc2 in ip.call_func(inner, [], {}, s, outer):
                    if oc2[0] == "raise":
                        if oc2[1].exc == "CTParseTimeoutError":
                            raises = True
                        else:
                            und = "closure raises {}".format(oc2[1].exc)
                    if s2.undecided:
                        und = und or s2.undecided[0][2]
        except PathLimit:
            und = "path limit"
        finally:
            ip.cur_mod.pop()
            ip.cur_func.pop()
            ip.cur_fnode.pop()
        c = "{}::timeout::{}".format(tm.rel, label)
        if und:
            rep.undecided("zero-means-unlimited", c, tm.where(outer), und)
        else:
            ok = raises == want_raise
            rep.add("zero-means-unlimited", c, tm.where(outer), ok,
                    "" if ok else ("the closure can raise although the timeout is 0" if raises
                                   else "the closure can never raise for a positive timeout"))


def _truth_test_of(e, name):
    """does expression *e* choose a replacement for *name* by testing its truthiness?  ->  the
    replacement node, or None.  (`name or X`, `name if name else X`, `X if not name else name`)"""
    def is_name(x):
        return isinstance(x, ast.Name) and x.id == name

    def is_zeroish(x):
        return isinstance(x, ast.Constant) and x.value in (0, 0.0, None, False)
    if isinstance(e, ast.BoolOp) and isinstance(e.op, ast.Or) and is_name(e.values[0]):
        rest = [v for v in e.values[1:] if not is_zeroish(v)]
        return rest[0] if rest else None
    if isinstance(e, ast.IfExp):
        t = e.test
        if is_name(t) and is_name(e.body) and not is_zeroish(e.orelse) and not is_name(e.orelse):
            return e.orelse
        if isinstance(t, ast.UnaryOp) and isinstance(t.op, ast.Not) and is_name(t.operand) and \
                is_name(e.orelse) and not is_zeroish(e.body) and not is_name(e.body):
            return e.body
    return None


def _zero_passed_through(ctx, rep, cm):
    """timeout 0 means no limit: on the way from the entry points to the timer factory the value
    0 must stay 0.  A default filled in by a truthiness test (`timeout or DEFAULT`) treats the legal
    value 0 as absent and turns "no limit" into the default budget."""
    n_sites = 0
    for qual, f in sorted(cm.funcs.items()):
        if "." in qual or not isinstance(f, ast.FunctionDef):
            continue
        params = [a.arg for a in f.args.args + f.args.kwonlyargs]
        if "timeout" not in params:
            continue
        n_sites += 1
        bad = None
        for n in ast.walk(f):
            cands = []
            if isinstance(n, ast.Assign) and any(isinstance(t, ast.Name) and t.id == "timeout" for t in n.targets):
                cands.append(n.value)
            elif isinstance(n, ast.AnnAssign) and isinstance(n.target, ast.Name) and n.target.id == "timeout" \
                    and n.value is not None:
                cands.append(n.value)
            elif isinstance(n, ast.NamedExpr) and n.target.id == "timeout":
                cands.append(n.value)
            elif isinstance(n, ast.Call):
                cands.extend(k.value for k in n.keywords if k.arg == "timeout")
                if e1.callee_name(n.func) in ("timeout_", "timeout") and n.args:
                    cands.append(n.args[0])
            elif isinstance(n, ast.If):
                # if not timeout: timeout = X
                t = n.test
                if isinstance(t, ast.UnaryOp) and isinstance(t.op, ast.Not) and isinstance(t.operand, ast.Name) \
                        and t.operand.id == "timeout":
                    for st in n.body:
                        if isinstance(st, ast.Assign) and any(isinstance(x, ast.Name) and x.id == "timeout"
                                                              for x in st.targets) and \
                                not (isinstance(st.value, ast.Constant) and st.value.value in (0, 0.0)):
                            bad = bad or (n, st.value)
            for e in cands:
                r = _truth_test_of(e, "timeout")
                if r is not None:
                    bad = bad or (n, r)
        c = "{}::{}::timeout 0 passed through".format(cm.rel, qual)
        if bad is not None:
            rep.violated("zero-means-unlimited", c, cm.where(bad[0]),
                         "the timeout is replaced by {} whenever it is falsy: the legal value 0 (no limit) "
                         "becomes that budget".format(norm(bad[1])[:60]))
        else:
            rep.ok("zero-means-unlimited", c, cm.where(f), "no truthiness-tested replacement of the timeout")
    rep.count("functions_with_timeout_parameter", n_sites, 2)


CLOCKS = ("perf_counter", "monotonic", "time", "process_time")


def _from_start(ctx, rep):
    """The deadline is measured from the creation of the closure: the closure compares
    <clock now> - START with the timeout, START being a variable of timeout() that is set once
    from the clock and never written by the closure."""
    tm = ctx.imod("ctparse.timers")
    outer = tm.func("timeout")
    inner = None
    for r in ast.walk(outer):
        if isinstance(r, ast.Return) and isinstance(r.value, ast.Name):
            cand = tm.funcs.get("timeout." + r.value.id)
            if cand is not None:
                inner = cand
    c = tm.rel + "::timeout::deadline measured from the start"
    if inner is None:
        rep.undecided("from-start", c, tm.where(outer), "what timeout() returns is not a nested function")
        return
    tparam = outer.args.args[0].arg if outer.args.args else None

    def is_clock(e):
        return isinstance(e, ast.Call) and e1.callee_name(e.func) in CLOCKS

    # variables of the closure bound to an expression (resolved one level)
    local = {}
    for a in ast.walk(inner):
        if isinstance(a, ast.Assign) and len(a.targets) == 1 and isinstance(a.targets[0], ast.Name):
            local.setdefault(a.targets[0].id, []).append(a.value)

    def resolve(e):
        if isinstance(e, ast.Name) and len(local.get(e.id, [])) == 1:
            return local[e.id][0]
        return e
    written = {n_ for st_ in ast.walk(inner) if isinstance(st_, ast.Nonlocal) for n_ in st_.names}
    verdict = None
    detail = ""
    for cmp_ in ast.walk(inner):
        if not (isinstance(cmp_, ast.Compare) and len(cmp_.ops) == 1):
            continue
        sides = [cmp_.left, cmp_.comparators[0]]
        if not any(isinstance(s_, ast.Name) and s_.id == tparam for s_ in sides):
            continue
        if isinstance(cmp_.ops[0], (ast.Eq, ast.NotEq, ast.Is, ast.IsNot)):
            continue      # the "0 means no limit" test
        other = resolve([s_ for s_ in sides if not (isinstance(s_, ast.Name) and s_.id == tparam)][0])
        if isinstance(other, ast.BinOp) and isinstance(other.op, ast.Sub) and is_clock(resolve(other.left)) \
                and isinstance(other.right, ast.Name):
            start = other.right.id
            sets = [a for a in ast.walk(outer) if isinstance(a, ast.Assign) and any(
                isinstance(t_, ast.Name) and t_.id == start for t_ in a.targets)]
            in_outer_only = [a for a in sets if not any(a is x for x in ast.walk(inner))]
            if start in written or len(sets) != len(in_outer_only):
                verdict = False
                detail = "the closure moves its own starting point '{}': the deadline is measured from the " \
                         "previous check, not from the start".format(start)
            elif len(in_outer_only) == 1 and is_clock(in_outer_only[0].value):
                verdict = True if verdict is None else verdict
            else:
                verdict = verdict
                detail = detail or "starting point '{}' is not one clock reading taken when the closure is made".format(start)
        elif isinstance(other, ast.Call) and isinstance(other.func, ast.Attribute) and \
                isinstance(other.func.value, ast.Name) and not other.args and not other.keywords:
            # elapsed time read from an object made by timeout(): <clock now> - <field>, the field
            # set once from the clock by the constructor and written by no method the closure calls
            r_ = _object_elapsed(tm, outer, inner, other.func.value.id, other.func.attr, is_clock)
            if r_ is None:
                detail = detail or "elapsed time is computed as {}".format(ast.unparse(other)[:60])
            else:
                ok_, d_ = r_
                if not ok_:
                    verdict = False
                    detail = d_
                else:
                    verdict = True if verdict is None else verdict
        else:
            detail = detail or "elapsed time is computed as {}".format(ast.unparse(other)[:60])
    if verdict is None:
        rep.undecided("from-start", c, tm.where(inner), "the comparison of the elapsed time with the timeout is not "
                      "recognised" + (": " + detail if detail else ""))
    else:
        rep.add("from-start", c, tm.where(inner), verdict, detail if not verdict else "")


def _object_elapsed(tm, outer, inner, obj, meth, is_clock):
    """obj.meth() in the closure, obj = Cls() once in timeout(): (ok, detail), or None when the
    class is outside the straight-line subset interpreted here."""
    sets = [a for a in ast.walk(outer) if isinstance(a, ast.Assign) and any(
        isinstance(t_, ast.Name) and t_.id == obj for t_ in a.targets)]
    if len(sets) != 1 or any(sets[0] is x for x in ast.walk(inner)):
        return None
    mk = sets[0].value
    if not (isinstance(mk, ast.Call) and isinstance(mk.func, ast.Name) and not mk.args and not mk.keywords):
        return None
    cls = mk.func.id
    init = tm.funcs.get(cls + ".__init__")
    m = tm.funcs.get(cls + "." + meth)
    if init is None or m is None or len(m.args.args) != 1 or m.decorator_list:
        return None

    def straight(fn):
        """[(target expr, value expr)] of a body made of assignments and one final return"""
        out = []
        ret = None
        for st in fn.body:
            if isinstance(st, ast.Expr) and isinstance(st.value, ast.Constant):
                continue
            if isinstance(st, ast.Assign) and len(st.targets) == 1:
                t = st.targets[0]
                if isinstance(t, ast.Tuple) and isinstance(st.value, ast.Tuple) and len(t.elts) == len(st.value.elts):
                    out.append((list(t.elts), list(st.value.elts)))
                else:
                    out.append(([t], [st.value]))
            elif isinstance(st, ast.AnnAssign) and st.value is not None:
                out.append(([st.target], [st.value]))
            elif isinstance(st, ast.Return) and st is fn.body[-1]:
                ret = st.value
            else:
                return None, None
        return out, ret
    ia, _ = straight(init)
    ma, mret = straight(m)
    if ia is None or ma is None or mret is None:
        return None
    iself = init.args.args[0].arg
    mself = m.args.args[0].arg

    def field(e, selfname):
        if isinstance(e, ast.Attribute) and isinstance(e.value, ast.Name) and e.value.id == selfname:
            return e.attr
        return None
    fields = {}
    for ts_, vs_ in ia:
        for t_, v_ in zip(ts_, vs_):
            fl = field(t_, iself)
            if fl is None:
                return None
            fields[fl] = v_
    # the method: substitute locals (right-hand sides of one statement are evaluated before its stores)
    env = {}
    wrote = []

    def subst(e):
        if isinstance(e, ast.Name) and e.id in env:
            return env[e.id]
        fl = field(e, mself)
        if fl is not None:
            return ("field", fl) if fl not in wrote else ("rewritten", fl)
        if isinstance(e, ast.BinOp):
            return ("bin", type(e.op).__name__, subst(e.left), subst(e.right))
        if isinstance(e, ast.Call) and is_clock(e):
            return ("clock",)
        return ("?", ast.unparse(e))
    for ts_, vs_ in ma:
        vals = [subst(v_) for v_ in vs_]
        for t_, v_ in zip(ts_, vals):
            if isinstance(t_, ast.Name):
                env[t_.id] = v_
            else:
                fl = field(t_, mself)
                if fl is None:
                    return None
                wrote.append(fl)
    r = subst(mret)
    if not (isinstance(r, tuple) and r[0] == "bin" and r[1] == "Sub" and r[2] == ("clock",)
            and isinstance(r[3], tuple) and r[3][0] == "field"):
        return None
    fl = r[3][1]
    if fl not in fields or not is_clock(fields[fl]):
        return False, "the starting point {}.{} is not one clock reading taken when the closure is made".format(cls, fl)
    if fl in wrote:
        return False, "each check moves the starting point ({}.{}() writes {}): the deadline is measured from the " \
                      "previous check, not from the start".format(cls, meth, fl)
    # other methods of the object called by the closure must not write the field either
    for c_ in ast.walk(inner):
        if isinstance(c_, ast.Call) and isinstance(c_.func, ast.Attribute) and isinstance(c_.func.value, ast.Name) \
                and c_.func.value.id == obj and c_.func.attr != meth:
            o_ = tm.funcs.get(cls + "." + c_.func.attr)
            if o_ is None:
                return None
            for st in ast.walk(o_):
                if isinstance(st, ast.Attribute) and isinstance(st.ctx, ast.Store) and st.attr == fl:
                    return False, "{}.{}() called by the check writes the starting point {}".format(cls, c_.func.attr, fl)
    for st in ast.walk(inner):
        if isinstance(st, ast.Attribute) and isinstance(st.ctx, ast.Store) and isinstance(st.value, ast.Name) \
                and st.value.id == obj:
            return False, "the check writes {}.{}".format(obj, st.attr)
    return True, ""


def _best(ctx, rep, cm):
    f = cm.func("ctparse")
    ok = any(isinstance(c.func, ast.Name) and c.func.id == "list" and c.args for c in calls_in(f)) or \
        any(isinstance(n, (ast.For, ast.ListComp)) for n in ast.walk(f))
    gen_called = bool(calls_in(f, "ctparse_gen"))
    rep.add("best-so-far", cm.rel + "::ctparse::collects the stream", cm.where(f), ok and gen_called,
            "" if ok and gen_called else "the single-result entry point does not collect the candidate stream",
            nontrivial=False)
