"""C09 — words around a time expression neither change its meaning nor blur its span
(the span clauses and the necessary conditions; DESIGN.md §4 C09)."""
import ast

from ..core import AnalysisError, Undecided
from .. import e1_model as e1
from .. import e2_regex as e2
from ..e3_rules import get_engine
from ..e3_values import *  # noqa
from .common import rule_construct, report_undecided, norm, calls_in
from . import c02


def check(ctx, rep, tier):
    eng = get_engine(ctx)
    rep.describe("blank-free-span", "no rule pattern can begin or end on a blank, or the one "
                 "site that takes the span from the regex group removes leading/trailing "
                 "blanks from it")
    rep.describe("span", "the wrapper sets the result span from the first argument's start "
                 "and the last argument's end; latent rewrites carry the span of their input")
    rep.describe("length-term", "in both scoring methods the text enters only through its "
                 "length, so the length term is a constant shift for a fixed text")
    _edges(ctx, rep)
    from . import spellings
    spellings.check(ctx, rep, "listed-spellings-whole", None, floor=5)
    _raw_extent_readers(ctx, rep)
    # a clock pattern that swallows the first letters of the next word blurs the span
    from . import c20
    rep.describe("token-bleed", c20.TOKEN_BLEED_RULE)
    c20._bleed(ctx, rep, eng)
    c02._span(ctx, rep, eng)
    _length_term(ctx, rep)
    report_undecided(rep, eng)
    rep.assume("not decided: that the value is unchanged by inert neighbours (matcher + ranking)")


def _strip_dataflow(f, attr):
    """Is self.<attr> assigned from an expression that depends on a strip/rstrip/lstrip
    call (directly or through local names)?"""
    tainted = set()
    want = {"mstart": ("strip", "lstrip"), "mend": ("strip", "rstrip")}[attr]
    changed = True
    assigns = [n for n in ast.walk(f) if isinstance(n, ast.Assign)]

    def dep(e):
        for x in ast.walk(e):
            if isinstance(x, ast.Call) and isinstance(x.func, ast.Attribute) and x.func.attr in want \
                    and not x.args:
                return True
            if isinstance(x, ast.Name) and x.id in tainted:
                return True
        return False
    while changed:
        changed = False
        for a in assigns:
            for t in a.targets:
                if isinstance(t, ast.Name) and t.id not in tainted and dep(a.value):
                    tainted.add(t.id)
                    changed = True
    for a in assigns:
        for t in a.targets:
            if isinstance(t, ast.Attribute) and t.attr == attr and norm(t.value) == "self":
                if dep(a.value):
                    return True
    return False


def _edges(ctx, rep):
    tm = ctx.imod("ctparse.types")
    init = tm.func("RegexMatch.__init__")
    trims_end = _strip_dataflow(init, "mend")
    trims_start = _strip_dataflow(init, "mstart")
    ws = sorted(e2.WHITESPACE)
    n = 0
    dirty_end, dirty_start = [], []
    for r in ctx.rb.rules:
        for i, p in enumerate(r.pats):
            if p.kind != "regex":
                continue
            n += 1
            try:
                _, P = ctx.wrapped(p.value)
                last = e2.can_edge_match(P.id_group, P, True, ws)
                first = e2.can_edge_match(P.id_group, P, False, ws)
            except Undecided as e:
                rep.undecided("blank-free-span", rule_construct(r, "pattern[{}]".format(i)), r.where, str(e))
                continue
            if last:
                dirty_end.append(r)
            if first:
                dirty_start.append(r)
            ok = (not last or trims_end) and (not first or trims_start)
            det = ""
            if not ok:
                det = "pattern can {} on a blank and the span is copied verbatim from the group".format(
                    "end" if last and not trims_end else "begin")
            elif last or first:
                det = "can end/begin on a blank; trimmed in RegexMatch.__init__"
            rep.add("blank-free-span", rule_construct(r, "pattern[{}] edges".format(i)), r.where, ok, det)
    rep.count("patterns", n, 30)
    rep.notes.append("patterns that can end on a blank: {}; begin: {}; span trimmed at end: {}, "
                     "at start: {}".format(sorted({r.name for r in dirty_end}),
                                           sorted({r.name for r in dirty_start}), trims_end, trims_start))


def _raw_extent_readers(ctx, rep):
    """Who may read the raw extent of a regex match: only the one site that turns it
    into the (trimmed) span.  Any other reader works on extents that include the blanks
    a pattern can swallow."""
    rep.describe("raw-extent-readers", "no function other than RegexMatch.__init__ reads "
                 ".match.span()/.start()/.end(): lengths and positions are taken from the span "
                 "fields, which exclude surrounding blanks")
    n = 0
    for mn, m in ctx.model.mods.items():
        if not mn.startswith("ctparse") or "corpus" in mn:
            continue
        for q, f in m.funcs.items():
            for c in ast.walk(f):
                if isinstance(c, ast.Call) and isinstance(c.func, ast.Attribute) and \
                        c.func.attr in ("span", "start", "end", "regs") and \
                        isinstance(c.func.value, (ast.Name, ast.Attribute)) and \
                        (norm(c.func.value).endswith(".match") or norm(c.func.value) in ("m", "match")):
                    n += 1
                    ok = q == "RegexMatch.__init__"
                    if ok:
                        continue
                    rep.violated("raw-extent-readers", "{}::{}::{}".format(m.rel, q, norm(c)[:50]), m.where(c),
                                 "reads the raw match extent (blanks swallowed by the pattern included) "
                                 "instead of the span")
    rep.ok("raw-extent-readers", "ctparse/types.py::RegexMatch.__init__ is the only reader", "ctparse/types.py",
           "{} reads".format(n))


def _length_term(ctx, rep):
    nm = ctx.imod("ctparse.nb_scorer")
    cls = [c for c in nm.classes.values() if any(norm(b) == "Scorer" for b in c.bases)]
    if not cls:
        raise AnalysisError("anchor vanished: naive-Bayes scorer class")
    for c in cls:
        for meth in ("score", "score_final"):
            f = nm.funcs.get("{}.{}".format(c.name, meth))
            if f is None:
                raise AnalysisError("anchor vanished: {}.{}".format(c.name, meth))
            params = [a.arg for a in f.args.args]
            tname = params[1] if len(params) > 1 else None
            bad = None
            for n_ in ast.walk(f):
                if isinstance(n_, ast.Name) and n_.id == tname and isinstance(n_.ctx, ast.Load):
                    par = getattr(n_, "_parent", None)
                    if isinstance(par, ast.Call) and isinstance(par.func, ast.Name) and par.func.id == "len":
                        continue
                    if isinstance(par, ast.Call) and isinstance(par.func, ast.Name):
                        g = nm.funcs.get(par.func.id)
                        if g is not None:
                            idx = par.args.index(n_) if n_ in par.args else None
                            if idx is not None and idx < len(g.args.args):
                                pn = g.args.args[idx].arg
                                used = any(isinstance(x, ast.Name) and x.id == pn and isinstance(x.ctx, ast.Load)
                                           for x in ast.walk(g))
                                if not used:
                                    continue
                    bad = "the text is used other than through its length: " + norm(par)[:60]
            rep.add("length-term", "{}::{}.{}::text only via len".format(nm.rel, c.name, meth),
                    nm.where(f), bad is None, bad or "")


