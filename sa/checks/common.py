"""Helpers shared by the property checks."""
import ast

from ..core import AnalysisError
from .. import e1_model as e1
from ..e3_rules import get_engine, Shape
from ..e3_values import *  # noqa
from ..e3_interp import Raised


def rule_construct(rule, suffix):
    return "{}::{}::{}".format(rule.mod.rel, rule.name, suffix)


def issue_key(rule, issue):
    """Stable construct key for a raise met while interpreting *rule*: the site in the
    rule body (or in the callee) and the hazard kind — no line numbers."""
    c = issue.construct
    if c.startswith(rule.mod.rel + "::" + rule.name + "::"):
        return c
    return "{}::{} -> {}".format(rule.mod.rel, rule.name, c)


def grouped_runs(engine):
    by_rule = {}
    for mk, run in engine.runs.items():
        by_rule.setdefault((mk[1], run.rule.name), []).append(run)
    return by_rule


def shapes_desc(run):
    return [s.describe() if s is not None else "<regex>" for s in run.shapes]


def walk_shapes(shape):
    """shape and nested shapes"""
    yield shape
    for v in shape.attrs.values():
        if isinstance(v, Shape):
            for x in walk_shapes(v):
                yield x


def report_undecided(rep, engine, rule_filter=None):
    seen = set()
    for mk, run in engine.runs.items():
        if rule_filter and not rule_filter(run.rule):
            continue
        if run.error:
            key = (run.rule.name, run.error)
            if key not in seen:
                seen.add(key)
                rep.undecided("interpretable", rule_construct(run.rule, "body"), run.rule.where,
                              run.error)
        for p in run.paths:
            for (where, construct, why) in p.undecided:
                if construct not in seen:
                    seen.add(construct)
                    rep.undecided("interpretable", construct, where, why)
    if rule_filter is None:
        for err in engine.errors:
            rep.undecided("interpretable", "engine", "-", err)


def shape_has_top(sh):
    from ..e3_values import TopV
    for x in walk_shapes(sh):
        for f, v in x.attrs.items():
            if isinstance(v, TopV):
                return True
    return False


def runs_of(eng, rule, exact=True):
    """Runs of one rule.  Runs on parameter shapes that carry an unknown (TOP) field are
    artefacts of an idiom outside the analysed subset somewhere upstream; the checks that
    quantify over all productions report that idiom, the targeted checks leave them out."""
    out = []
    for mk, run in eng.runs.items():
        if run.rule is not rule:
            continue
        if exact and any(s is not None and shape_has_top(s) for s in run.shapes):
            continue
        out.append(run)
    return out


class Relevant:
    """Collects the rules a targeted check looked at, for scoped UNDECIDED reporting."""

    def __init__(self):
        self.names = set()

    def add(self, rule):
        self.names.add(rule.name)

    def __call__(self, rule):
        return rule.name in self.names


def func_of(mod, qual):
    return mod.func(qual)


def calls_in(node, name=None):
    out = []
    for n in ast.walk(node):
        if isinstance(n, ast.Call):
            if name is None or e1.callee_name(n.func) == name:
                out.append(n)
    return out


def norm(node):
    try:
        return " ".join(ast.unparse(node).split())
    except Exception:
        return type(node).__name__


def enclosing_function(node):
    cur = getattr(node, "_parent", None)
    while cur is not None and not isinstance(cur, (ast.FunctionDef, ast.AsyncFunctionDef)):
        cur = getattr(cur, "_parent", None)
    return cur


_TS_FEAS = None


def path_feasible(eng, p, limit=250000):
    """Can the path condition of p hold for some valuation?  Parameter values that carry a
    good calendar flag are restricted to real dates.  Returns False only when every
    valuation of a complete (small enough) domain is inconsistent, None when the path
    condition contains a test the evaluator has no model for."""
    global _TS_FEAS
    import datetime as _dt
    import itertools
    from .. import e4_order as e4
    from ..core import Undecided
    from ..e3_rules import _leaf_domain
    from ..e3_values import IntV
    from .relspec import leaves_of, ts_sweep
    if _TS_FEAS is None:
        sw = ts_sweep("quick")
        from .relspec import stride as _stride
        _TS_FEAS = sw[::_stride(len(sw), 25)] + sw[-12:]
    leaves = set()
    for c, t in p.conds:
        leaves_of(c, leaves)
    if not leaves:
        return True
    order = sorted(leaves, key=repr)
    doms = []
    size = 1
    for l in order:
        if l == ("ts",):
            dm = _TS_FEAS
        else:
            dm = _leaf_domain(eng.interp, p.st, l)
            if dm is None:
                return True
        doms.append(list(dm))
        size *= max(1, len(dm))
    if size > limit:
        # large integer domains are cut down to the values that can change the outcome of an
        # ordering test: the ends, the middle and the neighbours of every constant of the condition
        consts = set()

        def walk(t):
            if isinstance(t, tuple):
                if len(t) == 2 and t[0] in ("const", "int") and isinstance(t[1], int) \
                        and not isinstance(t[1], bool):
                    consts.add(t[1])
                for x in t:
                    walk(x)
        for c, _t in p.conds:
            walk(c)
        size = 1
        for i, (l, dm) in enumerate(zip(order, doms)):
            if l != ("ts",) and len(dm) > 8 and all(isinstance(x, int) for x in dm):
                keep = {dm[0], dm[1], dm[-2], dm[-1], dm[len(dm) // 2 - 1], dm[len(dm) // 2], dm[len(dm) // 2 + 1]}
                for c in consts:
                    keep |= {c - 1, c, c + 1}
                doms[i] = [x for x in dm if x in keep]
            size *= max(1, len(doms[i]))
        if size > 8 * limit:
            # too many combinations to enumerate: look for a witness among the valuations that
            # give leaves of the same field the same value, then among random ones; none found
            # leaves the question open
            try:
                f = e4.compile_path(p.conds, [], order)
            except Undecided:
                return None
            index = {l: i for i, l in enumerate(order)}
            cons = _date_constraints(p, index)
            groups = {}
            for i, l in enumerate(order):
                key = l[-1] if isinstance(l, tuple) and l and isinstance(l[-1], str) else repr(l)
                groups.setdefault(key, []).append(i)
            gkeys = sorted(groups)
            gdoms = []
            gsize = 1
            for k in gkeys:
                common = None
                for i in groups[k]:
                    common = set(doms[i]) if common is None else (common & set(doms[i]))
                gdoms.append(sorted(common, key=repr) if common else [None])
                gsize *= max(1, len(gdoms[-1]))
            if gsize <= 8 * limit:
                for combo in itertools.product(*gdoms):
                    a = [None] * len(order)
                    ok = True
                    for k, v in zip(gkeys, combo):
                        for i in groups[k]:
                            if v is None:
                                a[i] = doms[i][0]
                            else:
                                a[i] = v
                    if _dates_ok(a, cons) and f(a) is not None:
                        return True
            import random
            rnd = random.Random(20240229)
            for _ in range(60000):
                a = [rnd.choice(d) for d in doms]
                if _dates_ok(a, cons) and f(a) is not None:
                    return True
            return None
    try:
        f = e4.compile_path(p.conds, [], order)
    except Undecided:
        # a condition the evaluator has no model for: neither feasible nor infeasible is shown
        return None
    # validity constraints of dated parameters
    index = {l: i for i, l in enumerate(order)}
    cons = _date_constraints(p, index)
    for combo in itertools.product(*doms):
        a = list(combo)
        if _dates_ok(a, cons) and f(a) is not None:
            return True
    return False


def _date_constraints(p, index):
    cons = []
    for o in p.st.heap.values():
        if o.fresh or o.cal not in ("REAL", "CHECKED"):
            continue
        li = [index.get(("attr", o.sym, f_)) for f_ in ("year", "month", "day")]
        if li[1] is not None and li[2] is not None:
            cons.append(li)
    return cons


def _dates_ok(a, cons):
    import datetime as _dt
    for yi, mi, di in cons:
        try:
            _dt.date(int(a[yi]) if yi is not None else 2000, int(a[mi]), int(a[di]))
        except (ValueError, TypeError):
            return False
    return True


def registered_callable(rm):
    """What rule.py registers for a production and calls at parse time: (function node whose body
    runs on a call, how that body refers to the production: ('name', n) or ('self', attr)), or
    (None, None).  It is the nested function the decorator returns, or __call__ of the class the
    decorator instantiates with the production."""
    fw = rm.funcs.get("rule.fwrapper")
    if fw is None or not fw.args.args:
        return None, None
    fparam = fw.args.args[0].arg
    for n in ast.walk(fw):
        if isinstance(n, ast.Assign) and len(n.targets) == 1 and isinstance(n.targets[0], ast.Subscript) \
                and norm(n.targets[0].value) == "rules" and isinstance(n.value, ast.Tuple) and n.value.elts \
                and isinstance(n.value.elts[0], ast.Name):
            x = n.value.elts[0].id
            inner = rm.funcs.get("rule.fwrapper." + x)
            if inner is not None:
                return inner, ("name", fparam)
            for a in ast.walk(fw):
                if isinstance(a, ast.Assign) and len(a.targets) == 1 and norm(a.targets[0]) == x \
                        and isinstance(a.value, ast.Call) and isinstance(a.value.func, ast.Name) \
                        and a.value.func.id in rm.classes:
                    cname = a.value.func.id
                    call = rm.funcs.get(cname + ".__call__")
                    init = rm.funcs.get(cname + ".__init__")
                    if call is None or init is None:
                        return None, None
                    # which constructor parameter receives the production
                    pos = None
                    for i, arg in enumerate(a.value.args):
                        if isinstance(arg, ast.Name) and arg.id == fparam:
                            pos = i
                    kwn = [k.arg for k in a.value.keywords if isinstance(k.value, ast.Name) and k.value.id == fparam]
                    iparams = [p.arg for p in init.args.args][1:]
                    pname = iparams[pos] if pos is not None and pos < len(iparams) else (kwn[0] if kwn else None)
                    if pname is None:
                        return None, None
                    for st_ in ast.walk(init):
                        if isinstance(st_, ast.Assign) and len(st_.targets) == 1 and isinstance(st_.targets[0], ast.Attribute) \
                                and norm(st_.targets[0].value) == "self" and norm(st_.value) == pname:
                            return call, ("self", st_.targets[0].attr)
                    return None, None
    return None, None


def alias_map(scope):
    """name -> normalised source of the expression it stands for, for names bound exactly once in
    *scope* by a plain assignment: A = e;  A, B = X  (A = X[0], B = X[1]);  A, B = e0, e1"""
    import ast as _ast
    seen = {}
    count = {}
    for n in _ast.walk(scope):
        if isinstance(n, (_ast.Assign, _ast.AnnAssign)):
            targets = n.targets if isinstance(n, _ast.Assign) else [n.target]
            if n.value is None or len(targets) != 1:
                for t in targets:
                    for x in _ast.walk(t):
                        if isinstance(x, _ast.Name):
                            count[x.id] = count.get(x.id, 0) + 2
                continue
            t = targets[0]
            if isinstance(t, _ast.Name):
                count[t.id] = count.get(t.id, 0) + 1
                seen[t.id] = norm(n.value)
            elif isinstance(t, (_ast.Tuple, _ast.List)) and all(isinstance(e, _ast.Name) for e in t.elts):
                if isinstance(n.value, (_ast.Tuple, _ast.List)) and len(n.value.elts) == len(t.elts):
                    for e, v in zip(t.elts, n.value.elts):
                        count[e.id] = count.get(e.id, 0) + 1
                        seen[e.id] = norm(v)
                else:
                    for i, e in enumerate(t.elts):
                        count[e.id] = count.get(e.id, 0) + 1
                        seen[e.id] = "{}[{}]".format(norm(n.value), i)
            else:
                for x in _ast.walk(t):
                    if isinstance(x, _ast.Name):
                        count[x.id] = count.get(x.id, 0) + 2
        elif isinstance(n, (_ast.AugAssign, _ast.NamedExpr)):
            t = n.target
            if isinstance(t, _ast.Name):
                count[t.id] = count.get(t.id, 0) + 2
        elif isinstance(n, (_ast.For, _ast.comprehension)):
            for x in _ast.walk(n.target):
                if isinstance(x, _ast.Name):
                    count[x.id] = count.get(x.id, 0) + 2
    return {k: v for k, v in seen.items() if count.get(k) == 1}


def resolve_alias(text, amap, depth=4):
    """follow whole-expression aliases: 'production' -> 'r[0]'"""
    for _ in range(depth):
        if text in amap and amap[text] != text:
            text = amap[text]
        else:
            break
    return text
