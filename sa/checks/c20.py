"""C20 — date part and clock part compose (necessary conditions only: token-bleed
freedom of the clock patterns, mirror-image gluing rules, identity absorb rules;
DESIGN.md §4 C20)."""
import unicodedata

from ..core import AnalysisError, Undecided
from .. import e2_regex as e2
from ..e3_rules import get_engine
from ..e3_values import *  # noqa
from ..e3_values import sym_mentions
from .common import rule_construct, report_undecided, grouped_runs, runs_of, Relevant

RELEVANT = Relevant()

F7 = ("year", "month", "day", "hour", "minute", "DOW", "POD")
LETTERS = [ord(c) for c in "abcdefghijklmnopqrstuvwxyzABCDEFGHIJKLMNOPQRSTUVWXYZäöüÄÖÜßéèñçøåжλ"]
NONLETTERS = [ord(c) for c in "0123456789 \t.:,;-/'_#"]


TOKEN_BLEED_RULE = ("in every clock pattern (a regex-only rule whose result carries an hour read "
                    "from the text) a letter-ending token that follows digits or a blank is closed by "
                    "a letter-boundary assertion, so it cannot swallow the first letters of the next "
                    "word and hide the shorter reading")


def check(ctx, rep, tier):
    eng = get_engine(ctx)
    RELEVANT.names.clear()
    rep.describe("token-bleed", TOKEN_BLEED_RULE)
    rep.describe("mirror", "the two gluing rules over the same pair of value kinds in opposite "
                 "order build the same field mapping from their operands")
    rep.describe("glue", "date x clock time: date fields come from the date operand, hour and "
                 "minute from the clock operand, nothing else is set")
    rep.describe("absorb", "a rule that absorbs a filler word returns its value operand with "
                 "every field unchanged")
    _bleed(ctx, rep, eng)
    _marked_clock_kept(ctx, rep, eng)
    _clock_never_rejected(ctx, rep, eng)
    _mirror(ctx, rep, eng)
    _absorb(ctx, rep, eng)
    report_undecided(rep, eng, RELEVANT)
    rep.assume("not decided: the homomorphism itself (which competing reading the scorer ranks "
               "first for each token adjacency)")


# ---------------------------------------------------------------------------
def _can(cs, cps):
    return any(cs.contains(c) for c in cps)


def _is_letter_closer(node, P):
    """\\b, or a negative look-ahead whose body is one character class containing all
    letters (e.g. (?!\\pL), (?!\\w))."""
    if node.kind == "bound":
        return node.positive and node.what in ("word", "eow")
    if node.kind == "look" and not node.behind and not node.positive:
        ch = node.child
        while ch.kind in ("group", "atomic"):
            ch = ch.child
        if ch.kind == "seq" and len(ch.items) == 1:
            ch = ch.items[0]
        if ch.kind == "char":
            return all(ch.cs.contains(c) for c in LETTERS)   # every sampled letter, any script
    return False


def _endings(node, P, depth=0):
    """Set of possible endings of a match of node: 'empty', 'other', or
    ('letter', after_gap, closed)."""
    k = node.kind
    if k == "char":
        out = set()
        if _can(node.cs, LETTERS):
            out.add(("letter", False, False))
        if _can(node.cs, NONLETTERS) or not _can(node.cs, LETTERS):
            out.add("other")
        return out
    if k in ("bound", "look"):
        return {"empty"}
    if k in ("group", "atomic"):
        return _endings(node.child, P, depth)
    if k == "call":
        if depth > 10:
            raise Undecided("recursive call")
        return _endings(P.by_idx[node.idx].child, P, depth + 1)
    if k == "alt":
        out = set()
        for c in node.items:
            out |= _endings(c, P, depth)
        return out
    if k == "rep":
        out = set(_endings(node.child, P, depth))
        if node.lo == 0:
            out.add("empty")
        return out
    if k == "cond":
        return _endings(node.no, P, depth) | (_endings(node.yes, P, depth) if node.group != 0 else set())
    if k == "seq":
        cur = {"empty"}
        gap = False          # a non-letter (digit / blank) token was passed
        for item in node.items:
            if _is_letter_closer(item, P):
                cur = {(("letter", e[1], True) if isinstance(e, tuple) else e) for e in cur}
                continue
            ends = _endings(item, P, depth)
            nxt = set()
            for e in ends:
                if e == "empty":
                    nxt |= cur
                elif e == "other":
                    nxt.add("other")
                else:
                    # a letter run: did it start after a gap?
                    started_after_gap = e[1] or gap or any(c == "other" for c in cur)
                    cont = any(isinstance(c, tuple) and not c[2] for c in cur)
                    # continuing an open letter run from the head keeps its origin
                    if cont and not (gap or e[1] or any(c == "other" for c in cur)):
                        started_after_gap = any(c[1] for c in cur if isinstance(c, tuple))
                    nxt.add(("letter", started_after_gap, e[2]))
            if "other" in ends or _has_nonletter_token(item, P):
                gap = True
            cur = nxt
        return cur
    raise Undecided("endings of " + k)


def _has_nonletter_token(node, P):
    for n in e2.walk(node):
        if n.kind == "char" and not _can(n.cs, LETTERS):
            return True
        if n.kind == "call":
            return True
    return False


def _bleed(ctx, rep, eng):
    n = 0
    for rule in ctx.rb.rules:
        if not (len(rule.pats) == 1 and rule.pats[0].kind == "regex"):
            continue
        runs = runs_of(eng, rule)
        # clock patterns: the hour is read from the text (a digit group or a number word),
        # not taken from the reference time
        hours = [p.st.heap[p.val.oid].attrs.get("hour") for run in runs for p in run.paths
                 if p.kind == "ret" and isinstance(p.val, RefV)]
        hours = [h for h in hours if isinstance(h, IntV) and not sym_mentions(h.sym, ("ts",))]
        # a fixed phrase for one fixed time (midnight) is not a clock notation
        has_hour = bool(hours) and (any(not h.is_const() for h in hours) or len({h.lo for h in hours}) > 1)
        if not has_hour:
            continue
        n += 1
        RELEVANT.add(rule)
        c = rule_construct(rule, "letter tails closed")
        try:
            _, P = ctx.wrapped(rule.pats[0].value)
            ends = _endings(P.id_group.child, P)
        except Undecided as e:
            rep.undecided("token-bleed", c, rule.where, str(e))
            continue
        bad = [e for e in ends if isinstance(e, tuple) and e[1] and not e[2]]
        rep.add("token-bleed", c, rule.where, not bad,
                "" if not bad else "the pattern can end on a letter token that follows digits/blanks "
                "without a boundary: it can take the first letters of the next word",
                witness=None if not bad else {"pattern": rule.pats[0].value[:160]})
    rep.count("clock_patterns", n, 3)


def _clock_never_rejected(ctx, rep, eng):
    """A clock pattern that matched is turned into a clock time: the only rejection is the
    documented year heuristic for bare hhmm without a clock marker."""
    from .c05 import _explicit_clock, _military_rules
    rep.describe("clock-kept", "a clock rule returns a time on every path; only the bare-hhmm rule may "
                 "reject, and only a match without an explicit clock marker")
    military = _military_rules(ctx)
    for rule in ctx.rb.rules:
        if not (len(rule.pats) == 1 and rule.pats[0].kind == "regex"):
            continue
        runs = runs_of(eng, rule)
        hours = [p.st.heap[p.val.oid].attrs.get("hour") for run in runs for p in run.paths
                 if p.kind == "ret" and isinstance(p.val, RefV)]
        hours = [h for h in hours if isinstance(h, IntV) and not sym_mentions(h.sym, ("ts",))]
        if not (hours and (any(not h.is_const() for h in hours) or len({h.lo for h in hours}) > 1)):
            continue
        RELEVANT.add(rule)
        bad = None
        n = 0
        for run in runs:
            for p in run.paths:
                if p.kind == "ret" and p.is_none():
                    n += 1
                    if rule.name not in military:
                        bad = bad or "a match of this clock pattern can be rejected"
                    elif _explicit_clock(ctx, rule, p):
                        bad = bad or "a match with an explicit clock marker can be rejected"
                    else:
                        # the heuristic: the rejection must depend on the reference time or on
                        # the minute pattern only, not on an am/pm tail or the hour
                        from .c05 import _conds_mention_ts
                        extra = [c for c, t in _flat_conds(p.conds)
                                 if isinstance(c, tuple) and c and c[0] == "cmp"
                                 and any(isinstance(x, tuple) and x and x[0] == "int" and x[1][2] == "hour"
                                         for x in c[2:4])]
                        if extra:
                            bad = bad or "a bare hhmm match is rejected depending on its hour (not only by " \
                                "the year heuristic)"
        rep.add("clock-kept", rule_construct(rule, "match becomes a clock time"), rule.where, bad is None,
                bad or "{} rejecting paths, all by the year heuristic".format(n))


def _flat_conds(conds):
    out = []
    for s_, t in conds:
        if isinstance(s_, tuple) and s_ and s_[0] == "anyof":
            for conj in s_[1]:
                out.extend(_flat_conds(conj))
        else:
            out.append((s_, t))
    return out


def _marked_clock_kept(ctx, rep, eng):
    """A clock time written with an explicit marker (uhr/h) is never rejected because of
    the reference time (the year heuristic applies to bare hhmm only)."""
    from .c05 import _explicit_clock, _conds_mention_ts, _military_rules
    rep.describe("marked-clock-kept", "a clock pattern match that contains an explicit clock marker "
                 "is accepted or rejected independently of the reference time")
    for rule in ctx.rb.rules:
        if rule.name not in _military_rules(ctx):
            continue
        RELEVANT.add(rule)
        bad = None
        n = 0
        for run in runs_of(eng, rule):
            for p in run.paths:
                if p.kind != "ret":
                    continue
                if _explicit_clock(ctx, rule, p):
                    n += 1
                    if _conds_mention_ts(p.conds):
                        bad = bad or "a match with an explicit clock marker is accepted or rejected " \
                            "depending on the reference time: the clock part can be dropped"
        rep.add("marked-clock-kept", rule_construct(rule, "explicit clock marker"), rule.where, bad is None,
                bad or "{} paths".format(n))


# ---------------------------------------------------------------------------
def _mapping(rule, run, roles):
    """For each returning path: field -> (role of the source operand, source field)."""
    out = set()
    for p in run.paths:
        if p.kind != "ret":
            continue
        if not isinstance(p.val, RefV):
            out.add("none")
            continue
        obj = p.st.heap[p.val.oid]
        m = []
        for f in F7:
            v = obj.attrs.get(f)
            if v is None or isinstance(v, NoneV):
                continue
            m.append((f, _src(getattr(v, "sym", None), roles)))
        out.add(tuple(m))
    return out


def _src(sym, roles):
    if isinstance(sym, tuple) and len(sym) == 3 and sym[0] == "attr" and isinstance(sym[1], tuple) \
            and sym[1][0] == "param":
        return (roles.get(sym[1][1], "?"), sym[2])
    if isinstance(sym, tuple) and sym and sym[0] == "op":
        return ("op", sym[1], _src(sym[2], roles), _src(sym[3], roles))
    if isinstance(sym, tuple) and sym and sym[0] == "const":
        return sym
    return ("other", repr(sym)[:40])


def _mirror(ctx, rep, eng):
    by_kinds = {}
    for ri, rule in enumerate(ctx.rb.rules):
        if len(rule.pats) == 2 and all(p.kind == "pred" for p in rule.pats) and \
                rule.pats[0].value != rule.pats[1].value:
            by_kinds.setdefault(frozenset(p.value for p in rule.pats), []).append(rule)
    n = 0
    for kinds, rules in sorted(by_kinds.items(), key=lambda kv: sorted(kv[0])):
        if len(rules) < 2:
            continue
        orders = {tuple(p.value for p in r.pats) for r in rules}
        if len(orders) < 2:
            continue
        maps = {}
        for r in rules:
            roles = {i: p.value for i, p in enumerate(r.pats)}
            m = set()
            RELEVANT.add(r)
            for run in runs_of(eng, r):
                m |= _mapping(r, run, roles)
            maps[r.name] = m
        names = sorted(maps)
        ref = maps[names[0]]
        n += 1
        for other in names[1:]:
            r = [x for x in rules if x.name == other][0]
            ok = maps[other] == ref
            rep.add("mirror", "{} vs {}".format(rule_construct([x for x in rules if x.name == names[0]][0], "field mapping"),
                                                rule_construct(r, "field mapping")),
                    r.where, ok, "" if ok else "the two orders build different values: {} / {}".format(
                        sorted(ref - maps[other], key=repr)[:1], sorted(maps[other] - ref, key=repr)[:1]))
        # date x clock glue
        if kinds == frozenset(("isDate", "isTOD")):
            for r in rules:
                roles = {i: p.value for i, p in enumerate(r.pats)}
                want = tuple((f, ("isDate", f)) for f in ("year", "month", "day")) + \
                    (("hour", ("isTOD", "hour")),)
                bad = None
                for m in maps[r.name]:
                    if m == "none":
                        bad = bad or "rejects a date next to a clock time"
                        continue
                    mm = dict(m)
                    for f, src in want:
                        if mm.get(f) != src:
                            bad = bad or "field {} comes from {}".format(f, mm.get(f))
                    if "minute" in mm and mm["minute"] != ("isTOD", "minute"):
                        bad = bad or "minute comes from {}".format(mm["minute"])
                    extra = set(mm) - {"year", "month", "day", "hour", "minute"}
                    if extra:
                        bad = bad or "sets extra fields {}".format(sorted(extra))
                rep.add("glue", rule_construct(r, "date + clock time"), r.where, bad is None, bad or "")
    rep.count("mirror_pairs", n, 2)


def _absorb(ctx, rep, eng):
    n = 0
    for (ri, name), runs in sorted(grouped_runs(eng).items()):
        rule = runs[0].rule
        if not (len(rule.pats) == 2 and rule.pats[0].kind == "regex" and rule.pats[1].kind == "dim"):
            continue
        # an absorb rule returns a value of the operand's class on every path
        RELEVANT.add(rule)
        pn = rule.params[2]
        psym = ("param", 1, pn)
        bad = None
        same_class = True
        cnt = 0
        for run in runs:
            for p in run.paths:
                if p.kind != "ret":
                    continue
                if not isinstance(p.val, RefV):
                    same_class = False
                    continue
                obj = p.st.heap[p.val.oid]
                par = [o for o in p.st.heap.values() if o.sym == psym]
                if not par or obj.cls.name != par[0].cls.name:
                    same_class = False
                    continue
                cnt += 1
                for f, v in par[0].attrs.items():
                    if f in ("mstart", "mend") or f.startswith("_"):
                        continue
                    rv = obj.attrs.get(f)
                    if isinstance(v, RefV):
                        if not (isinstance(rv, RefV) and rv.oid == v.oid):
                            bad = bad or "field {} is replaced".format(f)
                    elif isinstance(v, NoneV):
                        if not isinstance(rv, NoneV):
                            bad = bad or "field {} is set".format(f)
                    elif getattr(rv, "sym", None) != ("attr", psym, f):
                        bad = bad or "field {} is changed".format(f)
        if not same_class or cnt == 0:
            continue       # builds a different kind of value (e.g. before/after -> interval)
        n += 1
        rep.add("absorb", rule_construct(rule, "identity on the operand"), rule.where, bad is None,
                bad or "{} paths".format(cnt))
    rep.count("absorb_rules", n, 2)
