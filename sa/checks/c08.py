"""C08 — durations keep amount and unit; 'X for N units' ends exactly N units later
(DESIGN.md §4 C08)."""
import ast

from ..core import AnalysisError, Undecided
from .. import e1_model as e1
from .. import e2_regex as e2
from ..e3_rules import get_engine, Shape
from ..e3_state import State
from ..e3_values import *  # noqa
from ..e3_interp import Raised, PathLimit
from .common import rule_construct, report_undecided, norm, runs_of, Relevant

RELEVANT = Relevant()

EN = ["one", "two", "three", "four", "five", "six", "seven", "eight", "nine", "ten", "eleven",
      "twelve", "thirteen", "fourteen", "fifteen", "sixteen", "seventeen", "eighteen", "nineteen",
      "twenty", "twentyone", "twentytwo", "twentythree", "twentyfour", "twentyfive", "twentysix",
      "twentyseven", "twentyeight", "twentynine", "thirty", "thirtyone"]
DE = [["ein", "eine"], ["zwei"], ["drei"], ["vier"], ["fünf"], ["sechs"], ["sieben"], ["acht"],
      ["neun"], ["zehn"], ["elf"], ["zwölf"], ["dreizehn"], ["vierzehn"], ["fünfzehn"], ["sechzehn"],
      ["siebzehn"], ["achtzehn"], ["neunzehn"], ["zwanzig"], ["einundzwanzig"], ["zweiundzwanzig"],
      ["dreiundzwanzig"], ["vierundzwanzig"], ["fünfundzwanzig"], ["sechsundzwanzig"],
      ["siebenundzwanzig"], ["achtundzwanzig"], ["neunundzwanzig"], ["dreißig", "dreissig"],
      ["einunddreißig", "einunddreissig"]]
UNIT_WORDS = {"minutes": ["minute", "minutes", "minuten"], "hours": ["hour", "hours", "stunde", "stunden"],
              "days": ["day", "days", "tag", "tage"], "nights": ["night", "nights", "nacht", "nächte"],
              "weeks": ["week", "weeks", "woche", "wochen"], "months": ["month", "months", "monat", "monate"]}
KEYWORD = {"MINUTES": "minutes", "HOURS": "hours", "DAYS": "days", "NIGHTS": "days",
           "WEEKS": "weeks", "MONTHS": "months"}


def check(ctx, rep, tier):
    eng = get_engine(ctx)
    from . import spellings
    spellings.check(ctx, rep, "word-spellings", lambda g: g.startswith(("n_", "d_")), floor=2)
    rep.describe("unit-tables", "enum members, unit vocabulary, unit->offset table and the unit "
                 "sets tested by the date+duration rule are the same set; each unit maps to the "
                 "homonymous relative keyword carrying the duration's amount")
    rep.describe("amount", "digit rule: amount = int(number group), unit = the unit whose group "
                 "matched; named rule: amount = the table key of the matched number group")
    rep.describe("half", "half an hour -> 30 minutes, half a day -> 12 hours, every other unit "
                 "is rejected")
    rep.describe("number-words", "every canonical English/German number word 1..31 followed by "
                 "a unit word is matched (from its first letter) only through the alternative "
                 "carrying its number, and every number alternative ends on a word boundary")
    rep.describe("unit-words", "every canonical unit word is matched only through the group of "
                 "its unit")
    rep.describe("end-date", "the end of '<date> for <duration>' is built from start.dt + the "
                 "unit's offset; every unit yields an interval")
    rep.describe("consistency", "'<N days> <range>' returns the range only under equality of the "
                 "range's day difference and the duration's days, and nothing otherwise")
    RELEVANT.names.clear()
    unit_names = _enum_members(ctx)
    _tables(ctx, rep, eng, unit_names)
    _amount(ctx, rep, eng, unit_names)
    _half(ctx, rep, eng)
    _lexicon(ctx, rep, eng)
    _end_date(ctx, rep, eng, unit_names)
    _consistency(ctx, rep, eng)
    report_undecided(rep, eng, RELEVANT)
    rep.assume("not decided: the value of date + N units (dateutil's calendar arithmetic)")


def _enum_members(ctx):
    env = ctx.model.env("ctparse.types")
    c = env.get("DurationUnit")
    if not isinstance(c, e1.ClassRef) or not c.members:
        raise AnalysisError("anchor vanished: DurationUnit enum")
    return {n: m.value for n, m in c.members.items()}


def _runs_of(eng, rule):
    RELEVANT.add(rule)
    return runs_of(eng, rule)


def _duration_rules(ctx, eng):
    """Regex-only rules that return a Duration."""
    out = []
    for r in ctx.rb.rules:
        if len(r.pats) == 1 and r.pats[0].kind == "regex":
            for run in _runs_of(eng, r):
                if any(p.kind == "ret" and isinstance(p.val, RefV) and
                       p.st.heap[p.val.oid].cls.name == "Duration" for p in run.paths):
                    out.append(r)
                    break
    return out


def _tables(ctx, rep, eng, units):
    rm = ctx.rb.rule_mods[0]
    env = ctx.model.env(rm.name)
    voc = env.get("_durations")
    members = set(units)
    where = rm.rel
    if isinstance(voc, list):
        vk = {u.name for u, _ in voc if isinstance(u, e1.EnumVal)}
        rep.add("unit-tables", rm.rel + "::_durations keys", where, vk == members,
                "" if vk == members else "vocabulary units {} != enum members {}".format(sorted(vk), sorted(members)))
    else:
        rep.undecided("unit-tables", rm.rel + "::_durations", where, "unit vocabulary not folded")
    # unit -> offset helper: evaluate per unit
    helper = None
    for mod, st in ctx.rb.helpers:
        if st.returns is not None and "relativedelta" in norm(st.returns) or "relativedelta" in st.name:
            helper = (mod, st)
    if helper is None:
        raise AnalysisError("anchor vanished: unit -> relativedelta helper")
    mod, fn = helper
    dshape = None
    for sh in eng.R.values():
        if sh.cls.name == "Duration":
            dshape = sh
    if dshape is None:
        rep.undecided("unit-tables", "Duration shape", "-", "no duration is reachable")
        return
    for name in sorted(members):
        sh = Shape(dshape.cls, dict(dshape.attrs), None)
        sh.attrs["unit"] = EnumV("DurationUnit", {name})
        sh.attrs["value"] = IntV(0, 1000)

        def build(st, sh=sh):
            return [eng.materialise(st, sh, ("param", 0, "dur"))]
        paths, err = eng.run_function(mod.name, fn.name, build, fn.name)
        c = "{}::{}::{}".format(mod.rel, fn.name, name)
        if err:
            rep.undecided("unit-tables", c, mod.where(fn), err)
            continue
        bad = None
        for p in paths:
            if p.kind == "raise":
                bad = "{}: {}".format(p.val.exc, p.val.issue.detail)
            elif isinstance(p.val, RDV):
                want = KEYWORD.get(name)
                rel = p.val.rel
                if want is None:
                    bad = "no expected keyword for new unit " + name
                elif set(rel) != {want}:
                    bad = "unit {} maps to offset keyword(s) {} (expected {})".format(name, sorted(rel), want)
                elif rel[want].sym != ("attr", ("param", 0, "dur"), "value"):
                    bad = "offset amount is not the duration's amount"
                elif p.val.abs:
                    bad = "offset sets absolute fields {}".format(sorted(p.val.abs))
            else:
                bad = "does not return an offset"
        rep.add("unit-tables", c, mod.where(fn), bad is None, bad or "")


def _amount(ctx, rep, eng, units):
    val2name = {v: n for n, v in units.items()}
    n_rules = 0
    for rule in _duration_rules(ctx, eng):
        text = rule.pats[0].value
        _, P = ctx.wrapped(text)
        ugroups = {g: val2name[g[2:]] for g in P.groups if g.startswith("d_") and g[2:] in val2name}
        bad = None
        n = 0
        is_half = False
        units_seen = set()
        has_named = any(g.startswith("n_") for g in P.groups)
        digit_groups = [g for g in P.groups if not g.startswith(("R", "_", "d_", "n_"))
                        and e2.int_range_of_group(P, g) is not None]
        for run in _runs_of(eng, rule):
            for p in run.paths:
                if p.kind == "ret" and isinstance(p.val, NoneV) and digit_groups:
                    # a written number together with a unit word must not be rejected: a path that
                    # answers None although both groups took part, and that some number can take
                    moid_ = [o.oid for o in p.st.heap.values() if o.sym == ("param", 0, rule.params[1])]
                    cfgs_ = p.st.cfg.get(moid_[0]) if moid_ else None
                    if cfgs_ and all(digit_groups[0] in cfg and any(g in ugroups for g in cfg) for cfg in cfgs_):
                        from .common import path_feasible
                        if path_feasible(eng, p) is True and any(
                                "int" in repr(c_) and digit_groups[0] in repr(c_) for c_, _t in p.conds):
                            bad = bad or "a written number with a unit word is rejected on a path that tests the " \
                                "number's value ({}): e.g. 0 is a number too".format(
                                    [str(c_)[:60] for c_, _t in p.conds if "int" in repr(c_)][:1])
                    continue
                if p.kind != "ret" or not isinstance(p.val, RefV):
                    continue
                obj = p.st.heap[p.val.oid]
                if obj.cls.name != "Duration":
                    continue
                n += 1
                moid = [o.oid for o in p.st.heap.values() if o.sym == ("param", 0, rule.params[1])]
                cfgs = p.st.cfg.get(moid[0]) if moid else None
                unit, value = obj.attrs.get("unit"), obj.attrs.get("value")
                if not cfgs or not isinstance(unit, EnumV) or len(unit.names) != 1:
                    bad = bad or "unit of the result is not decided by the matched group"
                    continue
                uname = next(iter(unit.names))
                matched_units = {ugroups[g] for cfg in cfgs for g in cfg if g in ugroups}
                ngroups = {g for cfg in cfgs for g in cfg if g.startswith("n_")}
                if digit_groups:
                    rng = e2.int_range_of_group(P, digit_groups[0])
                    if rng is not None and rng[1] != e2.INF:
                        bad = bad or "the written number is read through a group of at most {} (a longer " \
                            "number is matched from its tail and truncated)".format(rng[1])
                    if not (isinstance(value, IntV) and value.sym == ("int", ("group", text, digit_groups[0]))):
                        bad = bad or "amount is {} instead of the written number".format(
                            getattr(value, "sym", value))
                elif has_named:
                    want = {int(g[2:]) for g in ngroups if g[2:].isdigit()}
                    if not (isinstance(value, IntV) and value.is_const() and want == {value.lo}):
                        bad = bad or "number group(s) {} give amount {}".format(sorted(ngroups), value)
                else:
                    is_half = True
                    continue
                units_seen.add(uname)
                if matched_units != {uname}:
                    bad = bad or "unit group(s) {} give unit {}".format(sorted(matched_units), uname)
        if is_half and not units_seen:
            continue
        n_rules += 1
        missing = set(units) - units_seen
        if missing and bad is None:
            bad = "no returning path for unit(s) {}".format(sorted(missing))
        rep.add("amount", rule_construct(rule, "amount and unit"), rule.where, bad is None,
                bad or "{} paths".format(n))
    rep.count("amount_rules", n_rules, 2)


def _half(ctx, rep, eng):
    from .lang import rules_accepting
    rules = [r for r in _duration_rules(ctx, eng)
             if any(isinstance(p.st.heap[p.val.oid].attrs.get("value"), IntV)
                    and p.st.heap[p.val.oid].attrs["value"].is_const()
                    and not any(g.startswith("n_") for cfg in (p.st.cfg.get(
                        [o.oid for o in p.st.heap.values() if o.sym == ("param", 0, r.params[1])][0]) or [])
                        for g in cfg)
                    for run in _runs_of(eng, r) for p in run.paths
                    if p.kind == "ret" and isinstance(p.val, RefV))]
    if not rules:
        raise AnalysisError("anchor vanished: half-duration rule")
    for rule in rules:
        got = {}
        text = rule.pats[0].value
        for run in _runs_of(eng, rule):
            for p in run.paths:
                if p.kind != "ret":
                    continue
                moid = [o.oid for o in p.st.heap.values() if o.sym == ("param", 0, rule.params[1])]
                cfgs = p.st.cfg.get(moid[0]) if moid else frozenset()
                for cfg in cfgs or []:
                    for g in cfg:
                        if g.startswith("d_"):
                            if isinstance(p.val, RefV):
                                o = p.st.heap[p.val.oid]
                                v, u = o.attrs.get("value"), o.attrs.get("unit")
                                got.setdefault(g[2:], set()).add(
                                    (v.lo if isinstance(v, IntV) and v.is_const() else None,
                                     next(iter(u.names)) if isinstance(u, EnumV) and len(u.names) == 1 else None))
                            else:
                                got.setdefault(g[2:], set()).add(None)
        want = {"hours": {(30, "MINUTES")}, "days": {(12, "HOURS")}}
        bad = None
        for unit, res in sorted(got.items()):
            exp = want.get(unit, {None})
            if res != exp:
                bad = bad or "half a '{}' gives {} (expected {})".format(unit, sorted(res, key=repr), sorted(exp, key=repr))
        for unit in want:
            if unit not in got:
                bad = bad or "half a '{}' is not handled".format(unit)
        rep.add("half", rule_construct(rule, "half durations"), rule.where, bad is None, bad or "")


# ---------------------------------------------------------------------------
def _restrict(node, target, keep):
    """Copy of the tree where alternation *target* is replaced by its child *keep*."""
    if node is target:
        return keep
    k = node.kind
    if k == "seq":
        return e2.Seq([_restrict(c, target, keep) for c in node.items])
    if k == "alt":
        return e2.Alt([_restrict(c, target, keep) for c in node.items])
    if k == "group":
        return e2.Group(node.idx, node.name, _restrict(node.child, target, keep))
    if k == "atomic":
        return e2.Atomic(_restrict(node.child, target, keep))
    if k == "rep":
        return e2.Rep(node.lo, node.hi, _restrict(node.child, target, keep), node.mode)
    return node


def _find_alt_of_groups(node, prefix):
    for n in e2.walk(node):
        if n.kind == "alt" and len(n.items) >= 2 and all(
                c.kind == "group" and c.name and c.name.startswith(prefix) for c in n.items):
            return n
    return None


def _ends_with_boundary(node):
    k = node.kind
    if k == "bound":
        return node.what in ("word", "eow") and node.positive
    if k == "seq":
        items = [c for c in node.items]
        while items and items[-1].kind == "look":
            items.pop()
        return bool(items) and _ends_with_boundary(items[-1])
    if k == "alt":
        return all(_ends_with_boundary(c) for c in node.items)
    if k in ("group", "atomic"):
        return _ends_with_boundary(node.child)
    return False


def _lexicon(ctx, rep, eng):
    rules = []
    for r in ctx.rb.rules:
        if len(r.pats) == 1 and r.pats[0].kind == "regex":
            _, P = ctx.wrapped(r.pats[0].value)
            if any(g.startswith("n_") for g in P.groups) and any(g.startswith("d_") for g in P.groups):
                rules.append((r, P))
    if not rules:
        raise AnalysisError("anchor vanished: number-word duration rule")
    for rule, P in rules:
        root = P.id_group.child
        nalt = _find_alt_of_groups(root, "n_")
        ualt = _find_alt_of_groups(root, "d_")
        if nalt is None or ualt is None:
            rep.undecided("number-words", rule_construct(rule, "pattern"), rule.where,
                          "number/unit alternations not found in the pattern tree")
            continue
        c = rule_construct(rule, "number words")
        try:
            nfa_by_n = {}
            for g in nalt.items:
                nfa_by_n[g.name] = e2.build_nfa(_restrict(root, nalt, g), P)
        except Undecided as e:
            rep.undecided("number-words", c, rule.where, str(e))
            continue
        keys = sorted(int(g.name[2:]) for g in nalt.items if g.name[2:].isdigit())
        ok_keys = keys == list(range(1, 32))
        rep.add("number-words", rule_construct(rule, "number keys"), rule.where, ok_keys,
                "" if ok_keys else "number alternatives are {}".format(keys))
        bad = []
        n = 0
        for i in range(31):
            num = i + 1
            for w in [EN[i]] + DE[i]:
                text = w + " days" if w == EN[i] else w + " tage"
                n += 1
                hits = sorted(name for name, nfa in nfa_by_n.items()
                              if len(text) in e2.nfa_match_prefixes(nfa, text))
                if hits != ["n_{}".format(num)]:
                    bad.append("'{}' is matched through {} (expected n_{})".format(text, hits or "nothing", num))
        rep.add("number-words", c, rule.where, not bad,
                "{} words".format(n) if not bad else "; ".join(bad[:4]) +
                (" (+{} more)".format(len(bad) - 4) if len(bad) > 4 else ""),
                witness=None if not bad else {"words": bad[:12]})
        nb = [g.name for g in nalt.items if not _ends_with_boundary(g.child)]
        rep.add("number-words", rule_construct(rule, "number token boundary"), rule.where, not nb,
                "" if not nb else "alternatives without a closing word boundary on every branch: {}".format(nb[:6]),
                witness=None if not nb else {"groups": nb})
        # unit words
        try:
            nfa_by_u = {g.name: e2.build_nfa(_restrict(root, ualt, g), P) for g in ualt.items}
        except Undecided as e:
            rep.undecided("unit-words", rule_construct(rule, "unit words"), rule.where, str(e))
            continue
        badu = []
        for unit, words in sorted(UNIT_WORDS.items()):
            for w in words:
                text = "two " + w
                hits = sorted(name for name, nfa in nfa_by_u.items()
                              if len(text) in e2.nfa_match_prefixes(nfa, text))
                if hits != ["d_" + unit]:
                    badu.append("'{}' is matched through {} (expected d_{})".format(w, hits or "nothing", unit))
        rep.add("unit-words", rule_construct(rule, "unit words"), rule.where, not badu,
                "" if not badu else "; ".join(badu[:4]))


def _end_date(ctx, rep, eng, units):
    rules = [r for r in ctx.rb.rules if len(r.pats) == 3 and r.pats[0].kind == "pred"
             and r.pats[0].value == "hasDate" and r.pats[2].kind == "dim" and r.pats[2].value == "Duration"]
    if not rules:
        raise AnalysisError("anchor vanished: '<date> for <duration>' rule")
    for rule in rules:
        seen = set()
        bad = None
        n = 0
        tp, dp = rule.params[1], rule.params[3]
        for run in _runs_of(eng, rule):
            for p in run.paths:
                if p.kind != "ret" or not isinstance(p.val, RefV):
                    continue
                obj = p.st.heap[p.val.oid]
                a, b = obj.attrs.get("t_from"), obj.attrs.get("t_to")
                if not (isinstance(a, RefV) and isinstance(b, RefV)):
                    bad = bad or "an end is missing"
                    continue
                n += 1
                dur = [o for o in p.st.heap.values() if o.sym == ("param", 2, dp)]
                u = dur[0].attrs.get("unit") if dur else None
                if isinstance(u, EnumV):
                    seen |= set(u.names)
                if p.st.heap[a.oid].sym != ("param", 0, tp):
                    bad = bad or "start is not the date operand"
                eo = p.st.heap[b.oid]
                y = eo.attrs.get("year")
                s = getattr(y, "sym", None)
                # ('dtfield', ('dtexpr', <t.dt>, <rd>), 'year')
                ok = isinstance(s, tuple) and s[0] == "dtfield" and isinstance(s[1], tuple) and s[1][0] == "dtexpr"
                if ok:
                    base, rd = s[1][1], s[1][2]
                    ok = base[0] == "dtnew" and all(
                        (isinstance(x, tuple) and x[0] == "attr" and x[1] == ("param", 0, tp))
                        for x in base[1:4])
                    relkeys = [k for k, _ in rd[2]] if rd[0] == "rd" else None
                    if ok and isinstance(u, EnumV) and len(u.names) == 1:
                        want = KEYWORD.get(next(iter(u.names)))
                        if relkeys != [want] or rd[2][0][1] != ("attr", ("param", 2, dp), "value") or rd[1]:
                            bad = bad or "end is start + {} for unit {}".format(rd, sorted(u.names))
                if not ok:
                    bad = bad or "end is not start.dt + offset"
        missing = set(units) - seen
        if missing and bad is None:
            bad = "no interval for unit(s) {}".format(sorted(missing))
        rep.add("end-date", rule_construct(rule, "end = start + amount x unit"), rule.where, bad is None,
                bad or "{} paths".format(n))


def _consistency(ctx, rep, eng):
    rules = [r for r in ctx.rb.rules
             if sorted((p.kind, p.value) for p in r.pats if p.kind != "regex") ==
             sorted([("dim", "Duration"), ("pred", "isDateInterval")])]
    if not rules:
        raise AnalysisError("anchor vanished: duration/range consistency rules")
    for rule in rules:
        bad = None
        n = 0
        ii = [i for i, p in enumerate(rule.pats) if p.kind == "pred"][0]
        isym = ("param", ii, rule.params[ii + 1])
        for run in _runs_of(eng, rule):
            for p in run.paths:
                if p.kind != "ret":
                    continue
                n += 1
                eq = [(s, t) for s, t in _flat(p.conds) if isinstance(s, tuple) and s[0] == "cmp" and s[1] == "Eq"
                      and any(isinstance(x, tuple) and x and x[0] == "tdfield" for x in s[2:4])]
                if isinstance(p.val, RefV):
                    obj = p.st.heap[p.val.oid]
                    src = getattr(obj, "copied_from", None) or obj.sym
                    if src != isym:
                        bad = bad or "returns something other than its range argument"
                    if not any(t for s, t in eq):
                        bad = bad or "returns the range without the day-count equality"
                elif p.is_none():
                    if any(t for s, t in eq):
                        bad = bad or "rejects although the day counts agree"
        rep.add("consistency", rule_construct(rule, "range accepted iff N days long"), rule.where,
                bad is None, bad or "{} paths".format(n))


def _flat(conds):
    out = []
    for s, t in conds:
        if isinstance(s, tuple) and s and s[0] == "anyof":
            for conj in s[1]:
                out.extend(_flat(conj))
        else:
            out.append((s, t))
    return out
