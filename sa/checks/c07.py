"""C07 — ranges are built from their two ends, ordered, and wrap sensibly
(DESIGN.md §4 C07)."""
import ast

from ..core import AnalysisError, Undecided
from .. import e2_regex as e2
from .. import e4_order as e4
from ..e3_rules import get_engine
from ..e3_values import *  # noqa
from .common import rule_construct, report_undecided, grouped_runs, shapes_desc
from .c02 import interval_order
from .lang import rules_accepting

BEFORE_WORDS = ("before", "vor", "until", "bis")
AFTER_WORDS = ("after", "nach", "from", "ab")


def check(ctx, rep, tier):
    eng = get_engine(ctx)
    rep.describe("range-order", "every path returning an interval with two fully dated ends "
                 "has start < end (strictly) on every valuation consistent with the path "
                 "condition; clock ranges on a date and latent clock ranges are at most 24 h "
                 "long.  Interval parameters are assumed ordered (induction) and date-less "
                 "clock ranges are drawn from the set the producers can build")
    rep.describe("half-open", "the before-rule bounds the end only (the start when negated), "
                 "the after-rule is its mirror image; exactly one side is set on every path")
    rep.describe("ends-are-operands", "the most specific written field of the start comes "
                 "from the left operand and that of the end from the right operand")
    # '<date> for <duration>' builds its end by calendar arithmetic (C08); a zero amount
    # legitimately gives a zero-length interval, so it is not held to strict order here
    range_rules = {r.name for r in ctx.rb.rules
                   if not any(p.kind == "dim" and p.value == "Duration" for p in r.pats)} | {"latent"}
    interval_order(ctx, rep, eng, "range-order", strict=True, max_span=None, only_rules=range_rules)
    _span_limit(ctx, rep, eng)
    _half_open(ctx, rep, eng)
    _operands(ctx, rep, eng)
    report_undecided(rep, eng)
    rep.count("rules", len(ctx.rb.rules), 40)
    rep.assume("A2 dateutil model; minutes are represented by {absent, 0, 30} next to all 24 "
               "hours: minutes are only compared or copied by the range rules")


def _span_limit(ctx, rep, eng):
    """<= 24 h for clock ranges anchored on a date (rule with a date and an interval
    parameter) and for the latent layer."""
    from . import order
    from .todsets import get_todsets
    tods = get_todsets(ctx, eng)
    n = 0
    for (ri, name), runs in sorted(grouped_runs(eng).items()):
        rule = runs[0].rule
        kinds = [(p.kind, p.value) for p in rule.pats]
        if not (("dim", "Interval") in kinds and ("pred", "isDate") in kinds):
            continue
        worst = None
        for run in runs:
            for p in run.paths:
                if p.kind != "ret" or not isinstance(p.val, RefV):
                    continue
                obj = p.st.heap[p.val.oid]
                if "t_from" not in obj.attrs or not obj.fresh:
                    continue
                v, det, wit = order.check_path_order(p.st, p.conds, p.val, True, 24, tods=tods)
                if v == "na":
                    continue
                n += 1
                rank = {"ok": 0, "undecided": 1, "violated": 2}
                if worst is None or rank[v] > rank[worst[0]]:
                    worst = (v, det, wit, run)
        if worst is None:
            continue
        c = rule_construct(rule, "clock range on a date")
        if worst[0] == "ok":
            rep.ok("range-order", c + " <= 24h", rule.where, worst[1])
        elif worst[0] == "violated":
            rep.violated("range-order", c + " <= 24h", rule.where, worst[1],
                         witness={"parameter_shapes": shapes_desc(worst[3]), "valuation": worst[2]})
        else:
            rep.undecided("range-order", c + " <= 24h", rule.where, worst[1])
    worst = None
    for key, (shape, paths, err) in eng.latent.items():
        for p in paths:
            if p.kind != "ret" or not isinstance(p.val, RefV):
                continue
            obj = p.st.heap[p.val.oid]
            if "t_from" not in obj.attrs or not obj.fresh:
                continue
            v, det, wit = order.check_path_order(p.st, p.conds, p.val, True, 24, tods=tods)
            if v == "na":
                continue
            n += 1
            rank = {"ok": 0, "undecided": 1, "violated": 2}
            if worst is None or rank[v] > rank[worst[0]]:
                worst = (v, det, wit, shape)
    c = "ctparse/time/postprocess_latent.py::latent clock range <= 24h"
    raising = any(p.kind == "raise" for key, (shape, paths, err) in eng.latent.items() for p in paths)
    if worst is None and raising:
        rep.ok("range-order", c, "ctparse/time/postprocess_latent.py",
               "no returning latent path builds a clock range (raising paths are C01's)", nontrivial=False)
    elif worst is None:
        rep.undecided("range-order", c, "ctparse/time/postprocess_latent.py",
                      "no latent path anchors a clock range")
    elif worst[0] == "ok":
        rep.ok("range-order", c, "ctparse/time/postprocess_latent.py", worst[1])
    elif worst[0] == "violated":
        rep.violated("range-order", c, "ctparse/time/postprocess_latent.py", worst[1],
                     witness={"shape": worst[3].describe(), "valuation": worst[2]})
    else:
        rep.undecided("range-order", c, "ctparse/time/postprocess_latent.py", worst[1])
    rep.count("span_limited_paths", n, 4)


def _side(st, obj, param_oid):
    """Which sides of the interval result are the parameter: set of 't_from'/'t_to';
    and which are None."""
    same, none = set(), set()
    for side in ("t_from", "t_to"):
        v = obj.attrs.get(side)
        if isinstance(v, RefV) and v.oid == param_oid:
            same.add(side)
        elif isinstance(v, NoneV):
            none.add(side)
    return same, none


def _half_open(ctx, rep, eng):
    before = rules_accepting(ctx, BEFORE_WORDS, regex_first=True, arity=2)
    after = rules_accepting(ctx, AFTER_WORDS, regex_first=True, arity=2)
    before = [r for r in before if r.pats[1].kind == "dim" and r.pats[1].value == "Time"]
    after = [r for r in after if r.pats[1].kind == "dim" and r.pats[1].value == "Time"]
    both = {r.name for r in before} & {r.name for r in after}
    before = [r for r in before if r.name not in both]
    after = [r for r in after if r.name not in both]
    rep.count("half_open_rules", len(before) + len(after), 2)
    if not before or not after:
        raise AnalysisError("anchor vanished: cannot locate the before/after rules by language")
    for rules, plain_side, label in ((before, "t_to", "before"), (after, "t_from", "after")):
        for rule in rules:
            runs = [run for mk, run in eng.runs.items() if run.rule is rule]
            bad = None
            n = 0
            _, P = ctx.wrapped(rule.pats[0].value)
            for run in runs:
                for p in run.paths:
                    if p.kind != "ret":
                        continue
                    if not isinstance(p.val, RefV):
                        bad = bad or "a path returns no interval"
                        continue
                    n += 1
                    obj = p.st.heap[p.val.oid]
                    # the Time parameter is the non-fresh Time object
                    tparam = [o for o in p.st.heap.values() if not o.fresh and o.sym == ("param", 1, rule.params[2])]
                    if not tparam:
                        bad = bad or "cannot identify the time operand"
                        continue
                    same, none = _side(p.st, obj, tparam[0].oid)
                    # negated iff the surviving match configurations contain a group named like a negation
                    moid = [o.oid for o in p.st.heap.values() if o.sym == ("param", 0, rule.params[1])]
                    cfgs = p.st.cfg.get(moid[0]) if moid else None
                    if cfgs is None:
                        cfgs = frozenset(e2.group_configs(P.id_group.child, P))
                    neg_groups = {g for c in cfgs for g in c if g.lower().startswith(("not", "neg"))}
                    negs = {bool(neg_groups & c) for c in cfgs}
                    if len(negs) != 1:
                        bad = bad or "path does not decide whether the phrase is negated"
                        continue
                    negated = negs.pop()
                    want = plain_side if not negated else ("t_from" if plain_side == "t_to" else "t_to")
                    other = "t_from" if want == "t_to" else "t_to"
                    if same != {want} or none != {other}:
                        bad = bad or "{}{} bounds {} (expected {} only, other side open)".format(
                            "negated " if negated else "", label, sorted(same) or "nothing", want)
            c = rule_construct(rule, "half-open sides")
            if n == 0 and bad is None:
                rep.undecided("half-open", c, rule.where, "no returning path analysed")
            else:
                rep.add("half-open", c, rule.where, bad is None, bad or "{} paths".format(n))


def _mentions_param(sym, idx):
    if isinstance(sym, tuple):
        if len(sym) == 3 and sym[0] == "param" and sym[1] == idx:
            return True
        return any(_mentions_param(s, idx) for s in sym)
    return False


def _operands(ctx, rep, eng):
    n = 0
    for (ri, name), runs in sorted(grouped_runs(eng).items()):
        rule = runs[0].rule
        pats = rule.pats
        # binary range rules: (value, joiner regex, value)
        if not (len(pats) == 3 and pats[1].kind == "regex" and pats[0].kind != "regex"
                and pats[2].kind != "regex"):
            continue
        bad = None
        cnt = 0
        for run in runs:
            if not (run.shapes and len(run.shapes) == 3 and run.shapes[0] is not None
                    and run.shapes[2] is not None and "hour" in run.shapes[0].attrs
                    and "hour" in run.shapes[2].attrs):
                continue
            for p in run.paths:
                if p.kind != "ret" or not isinstance(p.val, RefV):
                    continue
                obj = p.st.heap[p.val.oid]
                if "t_from" not in obj.attrs or not obj.fresh:
                    continue
                a, b = obj.attrs.get("t_from"), obj.attrs.get("t_to")
                if not (isinstance(a, RefV) and isinstance(b, RefV)):
                    continue
                cnt += 1
                for side, ref, own, other in (("start", a, 0, 2), ("end", b, 2, 0)):
                    o = p.st.heap[ref.oid]
                    if not o.fresh:
                        ok = o.sym == ("param", own, rule.params[own + 1])
                        if not ok:
                            bad = bad or "{} is the {} operand".format(
                                side, "right" if own == 0 else "left")
                        continue
                    # most specific present field
                    spec = None
                    for f in ("minute", "hour", "day", "month", "year", "POD", "DOW"):
                        v = o.attrs.get(f)
                        if v is not None and not isinstance(v, NoneV):
                            if f == "minute" and isinstance(o.attrs.get("hour"), IntV):
                                continue
                            spec = (f, v)
                            break
                    if spec is None:
                        continue
                    f, v = spec
                    if not _mentions_param(v.sym, own) or _mentions_param(v.sym, other):
                        bad = bad or "{}.{} is not taken from the {} operand".format(
                            side, f, "left" if own == 0 else "right")
        if cnt:
            n += 1
            rep.add("ends-are-operands", rule_construct(rule, "range ends"), rule.where, bad is None,
                    bad or "{} paths".format(cnt))
    rep.count("binary_range_rules", n, 5)
