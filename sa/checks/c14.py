"""C14 — the returned parse is a best-scoring candidate of the stream, scores are
finite (decided clauses: selection idiom, empty-iff-empty, option forwarding and
default agreement, strict improvement on re-emission, log domain; DESIGN.md §4 C14)."""
import ast

from ..core import AnalysisError, Undecided
from .. import e1_model as e1
from .common import norm, calls_in
from . import c01


def check(ctx, rep, tier):
    rep.describe("selection", "the value returned on the non-empty path is a maximal element of "
                 "the collected candidates under the key 'score' and is one of them (identity "
                 "preserved)")
    rep.describe("empty-iff-empty", "the result without resolution is constructed only under "
                 "the test that the collected list is empty (or a single None)")
    rep.describe("forwarding", "every option of the single-result call except debug is forwarded "
                 "to the same-named option of the streaming call, and both have equal defaults")
    rep.describe("strict-improvement", "a value is (re-)emitted / (re-)stacked only when it was "
                 "not seen before or its stored score is strictly below the new one, and the "
                 "store is updated on that path (the guard is evaluated on the four orderings)")
    rep.describe("log-domain", "arguments of math.log in the scorers are quotients of positive "
                 "lengths; no other division")
    cm = ctx.imod("ctparse.ctparse")
    _selection(ctx, rep, cm)
    _forwarding(ctx, rep, cm)
    _strict(ctx, rep, cm)
    c01._log_domain(ctx, rep)
    _divisions(ctx, rep)
    rep.assume("not decided: finiteness of the log-odds of an arbitrary caller-supplied model")


def _score_of_param(b, pname, amap=None):
    """True: the expression is <pname>.score; False: it is visibly something else about <pname>
    (another attribute, the score negated or combined); None: not readable here"""
    if amap and isinstance(b, ast.Name) and b.id in amap:
        try:
            b = ast.parse(amap[b.id], mode="eval").body
        except SyntaxError:
            return None
    if isinstance(b, ast.Attribute) and isinstance(b.value, ast.Name) and b.value.id == pname:
        return b.attr == "score"
    if isinstance(b, ast.UnaryOp) and isinstance(b.op, ast.USub):
        r = _score_of_param(b.operand, pname, amap)
        return False if r is True else r
    if isinstance(b, (ast.Tuple, ast.List)) and b.elts:
        # a composite key whose first component is not the score orders by something else
        r = _score_of_param(b.elts[0], pname, amap)
        return False if r is False else None
    # an expression over the candidate that never reads its score cannot order by score
    mentions = any(isinstance(x, ast.Name) and x.id == pname for x in ast.walk(b))
    reads_score = any(isinstance(x, ast.Attribute) and x.attr == "score" for x in ast.walk(b))
    calls_unknown = any(isinstance(x, ast.Call) and not (isinstance(x.func, ast.Name) and x.func.id in (
        "len", "abs", "int", "float", "str", "min", "max", "sum", "round", "tuple")) for x in ast.walk(b))
    if mentions and not reads_score and not calls_unknown:
        return False
    return None


def _key_is_score(k, cm=None):
    """lambda p: p.score / attrgetter('score') / a module function that returns its argument's score.
    True / False (certainly another key) / None (not readable)"""
    if isinstance(k, ast.Name) and cm is not None and k.id not in cm.funcs:
        # a module-level constant holding the key function
        for st_node in cm.tree.body:
            if isinstance(st_node, ast.Assign) and len(st_node.targets) == 1 and isinstance(st_node.targets[0], ast.Name) \
                    and st_node.targets[0].id == k.id:
                return _key_is_score(st_node.value, cm) if not isinstance(st_node.value, ast.Name) else None
        return None
    if isinstance(k, ast.Name) and cm is not None and k.id in cm.funcs:
        g = cm.funcs[k.id]
        from .common import alias_map
        body = [b for b in g.body if not (isinstance(b, ast.Expr) and isinstance(b.value, ast.Constant))
                and not isinstance(b, ast.Assert)]
        rets = [b for b in body if isinstance(b, ast.Return)]
        others = [b for b in body if not isinstance(b, (ast.Return, ast.Assign, ast.AnnAssign))]
        if len(rets) == 1 and not others and len(g.args.args) == 1 and not g.decorator_list and rets[0].value is not None:
            return _score_of_param(rets[0].value, g.args.args[0].arg, alias_map(g))
        return None
    if isinstance(k, ast.Lambda):
        if not k.args.args:
            return None
        return _score_of_param(k.body, k.args.args[0].arg)
    if isinstance(k, ast.Call) and e1.callee_name(k.func) == "attrgetter" and k.args:
        if isinstance(k.args[0], ast.Constant):
            return k.args[0].value == "score"
        return None
    return None


def _selection(ctx, rep, cm):
    f = cm.func("ctparse")
    # the collected list
    lst = None
    lst_def = None
    for n in ast.walk(f):
        if isinstance(n, ast.Assign) and len(n.targets) == 1 and isinstance(n.targets[0], ast.Name):
            v_ = n.value
            if isinstance(v_, ast.Call) and isinstance(v_.func, ast.Name) and v_.func.id == "list":
                lst = n.targets[0].id
            elif isinstance(v_, ast.ListComp) and len(v_.generators) == 1 and lst is None:
                # the stream collected by a comprehension (possibly leaving out None)
                lst = n.targets[0].id
                lst_def = v_
    if lst is None:
        raise AnalysisError("anchor vanished: collected candidate list in ctparse()")
    # returns, as provenance terms (sa/checks/strterms.py): the selected element must be a
    # maximal-score element of the collected list, however the selection is spelled
    from . import strterms as st_
    T = st_.Terms(cm)
    T.run(f.body, {a.arg: ("var", a.arg) for a in f.args.args})
    sel_ok = None
    where = cm.where(f)

    def is_true(n):
        return isinstance(n, ast.Constant) and n.value is True

    def base_list(t):
        """the collection under order-only wrappers (list copy, reversed, sorted)"""
        while isinstance(t, tuple) and t and t[0] in ("list", "reversed", "sorted"):
            if t[0] == "list" and isinstance(t[1], tuple) and t[1] and t[1][0] == "call":
                return t
            t = t[1]
        return t

    def whole_stream(t):
        b = base_list(t)
        if isinstance(b, tuple) and b and b[0] == "filter" and isinstance(b[1], tuple) and b[1] \
                and b[1][0] == "call" and b[1][1] == "ctparse_gen":
            # [p for p in stream if p is not None]: everything that is a candidate
            conds = b[2]
            return all(isinstance(c_, ast.Compare) and len(c_.ops) == 1 and isinstance(c_.ops[0], ast.IsNot)
                       and isinstance(c_.comparators[0], ast.Constant) and c_.comparators[0].value is None
                       for c_ in conds)
        return isinstance(b, tuple) and b and b[0] == "list" and isinstance(b[1], tuple) and \
            b[1][0] == "call" and b[1][1] == "ctparse_gen"

    def ordering_is_score():
        """max()/sorted() without a key order by CTParse.__lt__: it must compare the scores only"""
        lt = cm.funcs.get("CTParse.__lt__")
        if lt is None:
            return False, "no key function and CTParse defines no ordering"
        rets = [r_.value for r_ in ast.walk(lt) if isinstance(r_, ast.Return) and r_.value is not None]
        a0 = lt.args.args[0].arg if lt.args.args else "self"
        b0 = lt.args.args[1].arg if len(lt.args.args) > 1 else "other"
        ok_ = len(rets) == 1 and isinstance(rets[0], ast.Compare) and len(rets[0].ops) == 1 \
            and isinstance(rets[0].ops[0], ast.Lt) and norm(rets[0].left) == a0 + ".score" \
            and norm(rets[0].comparators[0]) == b0 + ".score"
        if not ok_ and len(rets) == 1:
            mirrored = isinstance(rets[0], ast.Compare) and len(rets[0].ops) == 1 \
                and isinstance(rets[0].ops[0], ast.Gt) and norm(rets[0].left) == b0 + ".score" \
                and norm(rets[0].comparators[0]) == a0 + ".score"
            if mirrored:
                return True, ""
            read = {n_.attr for n_ in ast.walk(rets[0]) if isinstance(n_, ast.Attribute)
                    and isinstance(n_.value, ast.Name) and n_.value.id in (a0, b0)}
            if read <= {"score"}:
                # only the scores are read, in a form this clause does not evaluate: no verdict
                return None, ""
        return ok_, "" if ok_ else "no key function: the order is CTParse.__lt__, which compares {}".format(
            norm(rets[0])[:80] if rets else "?")
    key_detail = [""]
    key_unknown = []
    stream_ok = False
    for term, r in T.returns:
        if not isinstance(term, tuple) or not term:
            continue
        if term[0] in ("new",) or (term[0] == "call" and term[1] == "ctparse_gen") or term == ("const", None):
            continue
        ok = None
        src = None
        if term[0] in ("max",):
            if term[2] is None:
                ok, key_detail[0] = ordering_is_score()
            else:
                ok = _key_is_score(term[2], cm)
                if ok is None:
                    key_unknown.append(norm(term[2]) if isinstance(term[2], ast.AST) else str(term[2]))
            src = term[1]
        elif term[0] == "item" and isinstance(term[1], tuple) and term[1] and term[1][0] == "sorted":
            srt = term[1]
            rev = is_true(srt[3])
            if srt[2] is None:
                # key-less sort: the order is the element class's own __lt__
                kq, key_detail[0] = ordering_is_score()
            else:
                kq = _key_is_score(srt[2], cm)
            if kq is None:
                key_unknown.append(norm(srt[2]) if isinstance(srt[2], ast.AST) else str(srt[2]))
            ok = None if kq is None else (kq and ((term[2] == "-1" and not rev) or (term[2] == "0" and rev)))
            src = srt[1]
        elif term[0] == "item" and isinstance(term[1], tuple) and term[1] and term[1][0] == "reversed" and \
                isinstance(term[1][1], tuple) and term[1][1] and term[1][1][0] == "sorted":
            srt = term[1][1]
            rev = is_true(srt[3])
            if srt[2] is None:
                # key-less sort: the order is the element class's own __lt__
                kq, key_detail[0] = ordering_is_score()
            else:
                kq = _key_is_score(srt[2], cm)
            if kq is None:
                key_unknown.append(norm(srt[2]) if isinstance(srt[2], ast.AST) else str(srt[2]))
            ok = None if kq is None else (kq and ((term[2] == "0" and not rev) or (term[2] == "-1" and rev)))
            src = srt[1]
        elif term[0] == "item":
            ok = False
            src = term[1]
        if ok is None:
            continue
        where = cm.where(r)
        sel_ok = ok if sel_ok is None else (sel_ok and ok)
        if src is not None and whole_stream(src):
            stream_ok = True
    if key_unknown and sel_ok is not False:
        rep.undecided("selection", cm.rel + "::ctparse::returned candidate", where,
                      "the ordering key {} is not recognised as the score".format(key_unknown[0][:60]))
    elif sel_ok is None:
        rep.undecided("selection", cm.rel + "::ctparse::returned candidate", where,
                      "no recognised best-score selection over the collected candidates")
    else:
        rep.add("selection", cm.rel + "::ctparse::returned candidate", where, bool(sel_ok),
                "" if sel_ok else "the returned element is not a maximal-score element of the list" +
                (" (" + key_detail[0] + ")" if key_detail[0] else ""))
    # empty iff empty
    ctor = [c for c in calls_in(f, "CTParse")]
    if not ctor:
        raise AnalysisError("anchor vanished: empty-result construction in ctparse()")
    for c in ctor:
        if not (c.args and isinstance(c.args[0], ast.Constant) and c.args[0].value is None):
            continue      # only the result without resolution
        # the innermost test that mentions the collected list (directly or through a local that
        # holds the outcome of such a test), with the branch the construction sits on
        cur = getattr(c, "_parent", None)
        child = c
        guard = None
        negate = False
        while cur is not None and cur is not f and guard is None:
            if isinstance(cur, ast.If):
                in_body = any(child is b or any(child is x for x in ast.walk(b)) for b in cur.body)
                t = cur.test
                if isinstance(t, ast.Name):
                    defs = [a.value for a in ast.walk(f) if isinstance(a, ast.Assign) and len(a.targets) == 1
                            and isinstance(a.targets[0], ast.Name) and a.targets[0].id == t.id]
                    if len(defs) == 1:
                        t = defs[0]
                if any(isinstance(x, ast.Name) and x.id == lst for x in ast.walk(t)):
                    guard = t
                    negate = not in_body
            child = cur
            cur = getattr(cur, "_parent", None)
        ok = False
        if guard is not None:
            ok = _empty_test(guard, lst, negate, lst_def)
        rep.add("empty-iff-empty", cm.rel + "::ctparse::empty result guard", cm.where(c), ok,
                "" if ok else "the result without resolution is built under the test '{}'".format(
                    norm(guard) if guard is not None else "<none>"))
    # the list collects the stream of ctparse_gen unfiltered
    ok = False
    for n in ast.walk(f):
        if isinstance(n, ast.Assign) and isinstance(n.value, ast.Call) and norm(n.value.func) == "list" \
                and n.value.args:
            src = n.value.args[0]
            if isinstance(src, ast.Name):
                for a in ast.walk(f):
                    if isinstance(a, ast.Assign) and norm(a.targets[0]) == src.id and \
                            isinstance(a.value, ast.Call) and e1.callee_name(a.value.func) == "ctparse_gen":
                        ok = True
            elif isinstance(src, ast.Call) and e1.callee_name(src.func) == "ctparse_gen":
                ok = True
    ok = ok or stream_ok
    rep.add("selection", cm.rel + "::ctparse::collects the whole stream", cm.where(f), ok,
            "" if ok else "the candidates are not list(ctparse_gen(...))")


def _empty_test(test, lst, negate=False, lst_def=None):
    """Evaluate the guard on streams of length 0, [None], [x], [x, y]: must be true exactly
    for the empty stream and the single None.  *lst_def*: the comprehension over the stream the
    collected list is defined by (evaluated on the same streams), None for list(stream)."""
    from ..e1_model import PureEval
    results = []
    for val in ([], [None], ["x"], ["x", "y"], [None, "x"]):
        class _M:
            name = "<guard>"
        ev = PureEval.__new__(PureEval)
        ev.model = None
        ev.mod = None
        ev.genv = {}
        ev.budget = 10000
        try:
            if lst_def is not None:
                it = lst_def.generators[0].iter
                if not isinstance(it, ast.Name):
                    return False
                val = ev.ev(lst_def, {it.id: val})
            r = ev.ev(test, {lst: val})
        except Undecided:
            return False
        except Exception:
            return False
        results.append(bool(r) != bool(negate))
    return results == [True, True, False, False, False]


def _forwarding(ctx, rep, cm):
    f = cm.func("ctparse")
    g = cm.func("ctparse_gen")

    def sig(fn):
        a = fn.args
        names = [x.arg for x in a.args]
        defs = [None] * (len(names) - len(a.defaults)) + list(a.defaults)
        return dict(zip(names, defs)), names
    sf, nf = sig(f)
    sg, ng = sig(g)
    calls = calls_in(f, "ctparse_gen")
    if not calls:
        raise AnalysisError("anchor vanished: ctparse() no longer calls ctparse_gen()")
    call = calls[0]
    passed = {}
    for i, a in enumerate(call.args):
        if i < len(ng):
            passed[ng[i]] = a
    for k in call.keywords:
        passed[k.arg] = k.value
    for name in nf:
        if name == "debug":
            continue
        c = "{}::ctparse::option {}".format(cm.rel, name)
        if name not in sg:
            rep.violated("forwarding", c, cm.where(f), "the streaming call has no option '{}'".format(name))
            continue
        a = passed.get(name)
        ok = isinstance(a, ast.Name) and a.id == name
        rep.add("forwarding", c + " forwarded", cm.where(call), ok,
                "" if ok else "option {} is passed as {}".format(name, norm(a) if a is not None else "<not passed>"))
        d1, d2 = sf.get(name), sg.get(name)
        same = (d1 is None and d2 is None) or (d1 is not None and d2 is not None and norm(d1) == norm(d2))
        rep.add("forwarding", c + " default", cm.where(f), same,
                "" if same else "defaults differ: {} vs {}".format(norm(d1) if d1 else None, norm(d2) if d2 else None))
    for name in ng:
        if name not in sf:
            rep.violated("forwarding", "{}::ctparse_gen::option {}".format(cm.rel, name), cm.where(g),
                         "the single-result call has no option '{}'".format(name))


def _tables_as_names(f):
    """*f* with every table that is a field of a local object (state.seen[k] = v, self.best[k] = v)
    renamed to a plain local name: the clauses below are about the table, not about where it lives"""
    from ..inline import clone
    tabs = set()
    for a in ast.walk(f):
        if isinstance(a, ast.Assign) and len(a.targets) == 1 and isinstance(a.targets[0], ast.Subscript):
            b = a.targets[0].value
            if isinstance(b, ast.Attribute) and isinstance(b.value, ast.Name):
                tabs.add(norm(b))
    if not tabs:
        return f

    class _R(ast.NodeTransformer):
        def visit_Attribute(self, n):
            if isinstance(n.value, ast.Name) and norm(n) in tabs:
                return ast.copy_location(ast.Name(id=norm(n).replace(".", "__"), ctx=n.ctx), n)
            return self.generic_visit(n)
    g = _R().visit(clone(f))
    ast.fix_missing_locations(g)
    for node in ast.walk(g):
        for ch in ast.iter_child_nodes(node):
            ch._parent = node
    return g


def _strict(ctx, rep, cm):
    from ..e1_model import PureEval
    f = _tables_as_names(cm.func("_ctparse"))
    n = 0
    for node in ast.walk(f):
        if not isinstance(node, ast.If):
            continue
        # the guarded body stores D[K] = S
        stores = [a for b in node.body for a in ast.walk(b)
                  if isinstance(a, ast.Assign) and len(a.targets) == 1 and isinstance(a.targets[0], ast.Subscript)
                  and isinstance(a.targets[0].value, ast.Name)]
        emits = [y for b in node.body for y in ast.walk(b) if isinstance(y, (ast.Yield,))] + \
            [c for b in node.body for c in ast.walk(b) if isinstance(c, ast.Call) and
             isinstance(c.func, ast.Attribute) and c.func.attr == "append"]
        if not stores or not emits:
            continue
        st = stores[0]
        d = st.targets[0].value.id
        key = st.targets[0].slice
        score = st.value
        # a local that holds the looked-up value (best = D.get(K)) stands for that expression
        test = node.test
        locals_once = {}
        for a_ in ast.walk(f):
            if isinstance(a_, ast.Assign) and len(a_.targets) == 1 and isinstance(a_.targets[0], ast.Name):
                locals_once.setdefault(a_.targets[0].id, []).append(a_.value)
        lookups = {nm: vs[0] for nm, vs in locals_once.items() if len(vs) == 1 and any(
            isinstance(x, ast.Name) and x.id == d for x in ast.walk(vs[0])) and nm != d}
        if lookups:
            test = _subst(test, {nm: v for nm, v in lookups.items()})
        if d not in {x.id for x in ast.walk(test) if isinstance(x, ast.Name)}:
            continue
        n += 1
        c = "{}::_ctparse::re-emission guard on {}".format(cm.rel, d)
        # evaluate the guard with the dict / key / score replaced by constants; besides an
        # ordinary score the boundary score 0.0 (a falsy stored value must not read as "absent")
        res = {}
        zero = {}
        try:
            for new_score, cases, sink in (
                    (5.0, (("absent", {}), ("lower", {"K": 4.0}), ("equal", {"K": 5.0}), ("higher", {"K": 6.0})), res),
                    (0.0, (("absent", {}), ("lower", {"K": -1.0}), ("equal", {"K": 0.0}), ("higher", {"K": 1.0})), zero),
                    (-1.0, (("absent", {}), ("lower", {"K": -2.0}), ("equal", {"K": -1.0}), ("higher", {"K": 0.0})), zero)):
              for label, dv in cases:
                t = _subst(test, {norm(key): ast.Constant(value="K"), norm(score): ast.Constant(value=new_score)})
                ev = PureEval.__new__(PureEval)
                ev.model = None
                ev.mod = None
                ev.genv = {}
                ev.budget = 10000
                env = {x.id: True for x in ast.walk(t) if isinstance(x, ast.Name)}
                env[d] = dict(dv)
                got_ = bool(ev.ev(t, env))
                if sink is res:
                    res[label] = got_
                else:
                    zero.setdefault(label, []).append(got_)
        except Undecided as e:
            rep.undecided("strict-improvement", c, cm.where(node), str(e))
            continue
        want = {"absent": True, "lower": True, "equal": False, "higher": False}
        ok = res == want
        if ok:
            for lab, outs_ in zero.items():
                if any(o_ != want[lab] for o_ in outs_):
                    ok = False
                    res = dict(res)
                    res["stored or new score 0.0 / negative, " + lab] = outs_
        rep.add("strict-improvement", c, cm.where(node), ok,
                "" if ok else "guard is {} on (absent, lower, equal, higher) stored scores{}".format(
                    [res[k] for k in ("absent", "lower", "equal", "higher")],
                    "; with a score of 0.0 or below: {}".format({k: v for k, v in res.items() if k not in want}) if len(res) > 4 else ""),
                witness=None if ok else res)
    rep.count("re_emission_guards", n, 2)
    # a guard on a dedup table whose guarded block emits without recording: the next
    # equal value passes the same check
    dedup = set()
    for a in ast.walk(f):
        if isinstance(a, ast.Assign) and len(a.targets) == 1 and isinstance(a.targets[0], ast.Subscript) \
                and isinstance(a.targets[0].value, ast.Name):
            dedup.add(a.targets[0].value.id)
        # local tables created empty (and meant to be filled as values are seen)
        if isinstance(a, ast.Assign) and len(a.targets) == 1 and isinstance(a.targets[0], ast.Name) and (
                (isinstance(a.value, ast.Dict) and not a.value.keys) or
                (isinstance(a.value, ast.Call) and isinstance(a.value.func, ast.Name)
                 and a.value.func.id in ("dict", "set") and not a.value.args)):
            dedup.add(a.targets[0].id)
    for node in ast.walk(f):
        if not isinstance(node, ast.If):
            continue
        used = {x.id for x in ast.walk(node.test) if isinstance(x, ast.Name)} & dedup
        reads = any(isinstance(c_, ast.Call) and isinstance(c_.func, ast.Attribute) and c_.func.attr == "get"
                    and isinstance(c_.func.value, ast.Name) and c_.func.value.id in used for c_ in ast.walk(node.test)) \
            or any(isinstance(c_, ast.Compare) and any(isinstance(o, (ast.In, ast.NotIn)) for o in c_.ops)
                   and any(isinstance(x, ast.Name) and x.id in used for x in ast.walk(c_)) for c_ in ast.walk(node.test))
        if not used or not reads:
            continue
        # a table that is filled outside the loop of this test is a lookup set prepared beforehand
        # (e.g. the words to leave out), not a table of what this loop has already let through
        loop_ = None      # the outermost loop around the test
        cur_ = getattr(node, "_parent", None)
        while cur_ is not None and cur_ is not f:
            if isinstance(cur_, (ast.For, ast.While)):
                loop_ = cur_
            cur_ = getattr(cur_, "_parent", None)

        def _writes(tname, scope):
            out_ = []
            for w_ in ast.walk(scope):
                if isinstance(w_, ast.Assign) and any(isinstance(t_, ast.Subscript) and isinstance(t_.value, ast.Name)
                                                      and t_.value.id == tname for t_ in w_.targets):
                    out_.append(w_)
                if isinstance(w_, ast.Call) and isinstance(w_.func, ast.Attribute) and isinstance(w_.func.value, ast.Name) \
                        and w_.func.value.id == tname and w_.func.attr in ("add", "update", "append", "extend", "setdefault"):
                    out_.append(w_)
            return out_
        prefilled = set()
        for tname in used:
            inside = {id(w_) for w_ in (_writes(tname, loop_) if loop_ is not None else [])}
            if any(id(w_) not in inside for w_ in _writes(tname, f)):
                prefilled.add(tname)
        used = used - prefilled
        if not used:
            continue
        emits = [y for b in node.body for y in ast.walk(b) if isinstance(y, ast.Yield)] + \
            [c_ for b in node.body for c_ in ast.walk(b) if isinstance(c_, ast.Call) and
             isinstance(c_.func, ast.Attribute) and c_.func.attr in ("append", "add")]
        records = [a for b in node.body for a in ast.walk(b) if isinstance(a, ast.Assign)
                   and isinstance(a.targets[0], ast.Subscript) and isinstance(a.targets[0].value, ast.Name)
                   and a.targets[0].value.id in used]
        if emits and not records:
            rep.violated("strict-improvement", "{}::_ctparse::guard on {} without record".format(cm.rel, sorted(used)[0]),
                         cm.where(node), "a value passes the check on {} and is emitted/collected, but the table "
                         "is not updated in the same block: an equal value met before the update passes "
                         "too".format(sorted(used)[0]))
    # the depth cut keeps the best scored: a sort of the stack lies between the last
    # assignment of scores and every cut
    events = []
    # statements in execution (pre-)order of the inlined body; line numbers of inlined helper
    # code say nothing about position
    order = []

    def pre(stmts):
        for st_node in stmts:
            order.append(st_node)
            for fld in ("body", "orelse", "finalbody"):
                sub = getattr(st_node, fld, None)
                if isinstance(sub, list) and sub and isinstance(sub[0], ast.stmt):
                    pre(sub)
            for h in getattr(st_node, "handlers", []) or []:
                pre(h.body)
    pre(f.body)
    for ln, st in enumerate(order):
        if isinstance(st, ast.Assign) and isinstance(st.value, ast.Subscript) and isinstance(st.value.slice, ast.Slice) \
                and "max_stack_depth" in norm(st.value.slice) and norm(st.targets[0]) == norm(st.value.value):
            events.append((ln, "cut", st))
        elif isinstance(st, ast.Delete) and len(st.targets) == 1 and isinstance(st.targets[0], ast.Subscript) \
                and isinstance(st.targets[0].slice, ast.Slice) and st.targets[0].slice.lower is None \
                and st.targets[0].slice.step is None and norm(st.targets[0].slice.upper) == "-max_stack_depth":
            # del x[:-n] keeps the last n elements, like x = x[-n:]
            events.append((ln, "cut", st))
        elif isinstance(st, ast.Expr) and isinstance(st.value, ast.Call) and isinstance(st.value.func, ast.Attribute) \
                and st.value.func.attr == "sort":
            events.append((ln, "sort", st))
        elif isinstance(st, ast.Assign) and isinstance(st.value, ast.Call) and isinstance(st.value.func, ast.Name) \
                and st.value.func.id == "sorted" and not any(k.arg == "key" for k in st.value.keywords):
            # x = sorted(y): the same order as y.sort() (the elements' own ordering)
            events.append((ln, "sort", st))
        elif isinstance(st, ast.Assign) and isinstance(st.targets[0], ast.Attribute) and st.targets[0].attr == "score":
            events.append((ln, "score", st))
    events.sort(key=lambda e: e[0])
    ncut = 0
    for i, (ln, kind, st) in enumerate(events):
        if kind != "cut":
            continue
        ncut += 1
        # nearest preceding sort/score event in the same loop nesting (textual order)
        prev = [e for e in events[:i] if e[1] in ("sort", "score") and _same_loop(e[2], st)]
        ok = bool(prev) and prev[-1][1] == "sort"
        rep.add("selection", "{}::_ctparse::depth cut after sort [{}]".format(cm.rel, ncut), cm.where(st), ok,
                "" if ok else "the stack is cut to max_stack_depth without a sort after the scores were "
                "assigned: the cut keeps arbitrary, not the best scored, elements")
    rep.count("depth_cuts", ncut, 2)


def _same_loop(a, b):
    def loop_of(n):
        cur = getattr(n, "_parent", None)
        while cur is not None:
            if isinstance(cur, (ast.While, ast.For)):
                return cur
            if isinstance(cur, ast.FunctionDef):
                return None
            cur = getattr(cur, "_parent", None)
        return None
    la, lb = loop_of(a), loop_of(b)
    if la is lb:
        return True
    # a score assigned inside an inner loop of the same enclosing loop counts
    cur = la
    while cur is not None:
        cur = loop_of(cur)
        if cur is lb:
            return True
    return lb is None and la is not None and False


def _subst(node, mapping):
    import copy

    class T(ast.NodeTransformer):
        def generic_visit(self, n):
            if isinstance(n, ast.expr):
                k = norm(n)
                if k in mapping:
                    return copy.deepcopy(mapping[k])
            return super().generic_visit(n)

        def visit(self, n):
            if isinstance(n, ast.expr):
                k = norm(n)
                if k in mapping:
                    return copy.deepcopy(mapping[k])
            return super().visit(n)
    t = T().visit(copy.deepcopy(node))
    ast.fix_missing_locations(t)
    return t


def _divisions(ctx, rep):
    n = 0
    for mn in ("ctparse.nb_scorer", "ctparse.scorer"):
        m = ctx.imod(mn)
        for q, f in m.funcs.items():
            if not q.split(".")[-1] in ("score", "score_final"):
                continue
            for b in ast.walk(f):
                if isinstance(b, ast.BinOp) and isinstance(b.op, (ast.Div, ast.FloorDiv, ast.Mod)):
                    n += 1
                    par = getattr(b, "_parent", None)
                    inside_log = isinstance(par, ast.Call) and e1.callee_name(par.func) == "log"
                    ok = inside_log and norm(b.right).startswith("len(")
                    rep.add("log-domain", "{}::{}::division {}".format(m.rel, q, norm(b)), m.where(b), ok,
                            "" if ok else "a division other than the length quotient inside log")
    rep.count("score_divisions", n, 2)
