"""C15 — the search yields what the rules license: the decided clauses are purity of
rule application and truthfulness of the trace (DESIGN.md §4 C15)."""
import ast

from ..core import AnalysisError
from .. import e1_model as e1
from ..e3_rules import get_engine
from .common import rule_construct, report_undecided, grouped_runs, norm, calls_in
from . import c12, c19


def check(ctx, rep, tier):
    rep.describe("productions-pure", "applying a rule never alters the values it was applied "
                 "to: no store through a parameter, and the wrapper never widens the span of an "
                 "argument handed back (E3 effects over every production and shape)")
    rep.describe("trace", "the name appended to the trace and the function applied come from "
                 "the same registry item; one name per application; the initial trace is the "
                 "ids of the sequence's matches in order")
    rep.describe("registered", "the registry key is the production's own name and the value "
                 "wraps that production")
    rep.describe("unique-name", "no two productions share a name")
    c12._productions(ctx, rep)
    _trace(ctx, rep)
    _all_matches(ctx, rep)
    c19._registry(ctx, rep)
    c19._names(ctx, rep)
    rep.count("rules", len(ctx.rb.rules), 40)
    rep.assume("not decided: soundness/completeness of the optimised search (_seq_match, "
               "_filter_rules, dedup) against the derivation semantics")


def _all_matches(ctx, rep):
    """Completeness, necessary condition: the matcher enumerates *all* (overlapping)
    matches of every pattern — a derivation can start from any of them."""
    rep.describe("all-matches", "the matcher asks the regex engine for overlapping matches of "
                 "every registered pattern (necessary for completeness: a derivation may start "
                 "from any match)")
    cm = ctx.imod("ctparse.ctparse")
    f = cm.func("_match_regex")
    calls = [c for c in calls_in(f) if isinstance(c.func, ast.Attribute) and c.func.attr in ("finditer", "findall", "search", "match")]
    ok = False
    det = "no finditer call"
    for c in calls:
        kw = {k.arg: k.value for k in c.keywords}
        ov = kw.get("overlapped")
        ok = c.func.attr == "finditer" and isinstance(ov, ast.Constant) and ov.value is True
        det = "" if ok else "matches are enumerated with {}({})".format(
            c.func.attr, ", ".join("{}={}".format(k, norm(v)) for k, v in kw.items()))
    rep.add("all-matches", cm.rel + "::_match_regex::overlapped matches", cm.where(f), ok, det)
    # every registered pattern is iterated
    loops_all = any(isinstance(n, ast.comprehension) and ".items()" in norm(n.iter) for n in ast.walk(f)) or \
        any(isinstance(n, ast.For) and ".items()" in norm(n.iter) for n in ast.walk(f))
    rep.add("all-matches", cm.rel + "::_match_regex::all patterns", cm.where(f), loops_all,
            "" if loops_all else "not every registered pattern is matched")


def _trace(ctx, rep):
    cm = ctx.imod("ctparse.ctparse")
    pm = ctx.imod("ctparse.partial_parse")
    f = cm.func("_ctparse")
    # the production loop: for NAME, ITEM in <...>.items(): ... X.apply_rule(ts, ITEM[0], NAME, M)
    found = False
    for loop in ast.walk(f):
        if not (isinstance(loop, ast.For) and isinstance(loop.target, ast.Tuple) and len(loop.target.elts) == 2):
            continue
        if not (isinstance(loop.iter, ast.Call) and isinstance(loop.iter.func, ast.Attribute)
                and loop.iter.func.attr == "items"):
            continue
        kname, vname = [norm(e) for e in loop.target.elts]
        # the registry item is (function, predicates): read by index or unpacked in the loop target
        fn_names, pat_names = {"{}[0]".format(vname)}, {"{}[1]".format(vname)}
        item = loop.target.elts[1]
        if isinstance(item, (ast.Tuple, ast.List)) and len(item.elts) == 2 and \
                all(isinstance(e, ast.Name) for e in item.elts):
            fn_names, pat_names = {item.elts[0].id}, {item.elts[1].id}
            vname = "({}, {})".format(item.elts[0].id, item.elts[1].id)
        else:
            # unpacked by a statement of the loop body: FN, PAT = ITEM
            for a_ in loop.body:
                if isinstance(a_, ast.Assign) and len(a_.targets) == 1 and isinstance(a_.targets[0], ast.Tuple) \
                        and len(a_.targets[0].elts) == 2 and norm(a_.value) == vname \
                        and all(isinstance(e, ast.Name) for e in a_.targets[0].elts):
                    fn_names.add(a_.targets[0].elts[0].id)
                    pat_names.add(a_.targets[0].elts[1].id)
        from .common import alias_map, resolve_alias
        amap = alias_map(ast.Module(body=loop.body, type_ignores=[]))
        for nm_, ex_ in amap.items():
            ex_ = resolve_alias(ex_, amap)
            if ex_ in fn_names:
                fn_names.add(nm_)
            if ex_ in pat_names:
                pat_names.add(nm_)
        for call in calls_in(loop, "apply_rule"):
            found = True
            args = [norm(a) for a in call.args]
            ok_fn = len(args) >= 3 and args[1] in fn_names
            ok_nm = len(args) >= 3 and args[2] == kname
            rep.add("trace", cm.rel + "::_ctparse::applied function is the registry item's", cm.where(call),
                    ok_fn, "" if ok_fn else "apply_rule is given {} instead of {}[0]".format(args[1:2], vname))
            rep.add("trace", cm.rel + "::_ctparse::recorded name is the registry item's key", cm.where(call),
                    ok_nm, "" if ok_nm else "apply_rule is given the name {} instead of {}".format(args[2:3], kname))
            # the match windows come from the same item's predicates
            mr = [c for c in calls_in(loop, "_match_rule")]
            ok_pat = bool(mr) and all(len(c.args) >= 2 and norm(c.args[1]) in pat_names for c in mr)
            rep.add("trace", cm.rel + "::_ctparse::windows matched with the same item's predicates",
                    cm.where(loop), ok_pat, "" if ok_pat else "windows are matched with another rule's predicates")
    if not found:
        raise AnalysisError("anchor vanished: production loop calling apply_rule in _ctparse")
    # apply_rule, interpreted abstractly on a two-element production and a marker rule:
    # the new trace must be the old trace + the given name, the new production the old
    # one with the window replaced by the rule's result
    _apply_rule_semantics(ctx, rep, pm)
    # the emitted production sequence is the partial parse's trace
    ok_emit = False
    for y in ast.walk(f):
        if isinstance(y, ast.Yield) and isinstance(y.value, ast.Call) and e1.callee_name(y.value.func) == "CTParse":
            a = y.value.args
            if len(a) >= 2 and norm(a[1]).endswith(".rules"):
                ok_emit = True
    rep.add("trace", cm.rel + "::_ctparse::emitted production is the trace", cm.where(f), ok_emit,
            "" if ok_emit else "the emitted production sequence is not the partial parse's trace")
    _initial_trace_semantics(ctx, rep, pm)


def _interp_env(ctx):
    from ..e3_rules import get_engine
    return get_engine(ctx)


def _apply_rule_semantics(ctx, rep, pm):
    from ..e3_state import State
    from ..e3_values import RefV, TupleV, StrV, IntV, FuncV, ClassV, NONE, TopV
    from ..e3_interp import Raised, PathLimit
    from ..e3_rules import ts_value
    eng = _interp_env(ctx)
    ip = eng.interp
    ar = pm.func("PartialParse.apply_rule")
    cls = pm.classes.get("PartialParse")
    tv = eng.class_v("Time")
    # marker rule: def marker(ts, *args): return Time()  (built from source text here)
    marker_src = "def marker(ts, *args):\n    return Time(hour=7)\n"
    mtree = ast.parse(marker_src)
    for node in ast.walk(mtree):
        for ch in ast.iter_child_nodes(node):
            ch._parent = node
    tm = ctx.imod("ctparse.types")
    st = State()
    st.frames.append({})
    ip.cur_mod.append(tm)
    ip.cur_func.append("<apply_rule probe>")
    ip.cur_fnode.append(None)
    ip.paths = 0
    where = pm.where(ar)
    try:
        a = st.new_obj(tv, sym=("probe", "a"), fresh=False)
        b = st.new_obj(tv, sym=("probe", "b"), fresh=False)
        c = st.new_obj(tv, sym=("probe", "c"), fresh=False)
        for o in (a, b, c):
            o.attrs.update({"mstart": IntV(0, 5), "mend": IntV(6, 9)})
        selfo = st.new_obj(ClassV(pm, cls), sym=("probe", "self"), fresh=False)
        selfo.attrs.update({"prod": TupleV([RefV(a.oid), RefV(b.oid), RefV(c.oid)]),
                            "rules": TupleV([IntV(100, 100), StrV({"ruleX"})]),
                            "applicable_rules": TopV("rules"), "score": TopV("score"),
                            "max_covered_chars": IntV(1, 9)})
        marker = FuncV(tm, mtree.body[0])
        fv = FuncV(pm, ar, bound_self=RefV(selfo.oid))
        outs = ip.call_func(fv, [ts_value(), marker, StrV({"ruleNAME"}), TupleV([IntV(0, 0), IntV(2, 2)])],
                            {}, st, ar)
    except PathLimit:
        rep.undecided("trace", pm.rel + "::PartialParse.apply_rule", where, "path limit")
        return
    finally:
        ip.cur_mod.pop()
        ip.cur_func.pop()
        ip.cur_fnode.pop()
    ok_trace = ok_prod = False
    det = "apply_rule returned nothing for a successful production"
    for s2, oc in outs:
        if oc[0] != "ret" or not isinstance(oc[1], RefV):
            continue
        o = s2.heap[oc[1].oid]
        r = o.attrs.get("rules")
        pr = o.attrs.get("prod")
        if isinstance(r, TupleV):
            got = [(x.lo if isinstance(x, IntV) else (x.const() if isinstance(x, StrV) and x.is_const() else "?"))
                   for x in r.items]
            ok_trace = got == [100, "ruleX", "ruleNAME"]
            det = "new trace is {}".format(got)
        if isinstance(pr, TupleV) and len(pr.items) == 2 and isinstance(pr.items[1], RefV) \
                and pr.items[1].oid == c.oid and isinstance(pr.items[0], RefV) \
                and s2.heap[pr.items[0].oid].fresh:
            ok_prod = True
    rep.add("trace", pm.rel + "::PartialParse.apply_rule::one name appended", where, ok_trace,
            "" if ok_trace else "the trace is not the old trace plus the applied rule's name: " + det)
    rep.add("trace", pm.rel + "::PartialParse.apply_rule::window replaced by the result", where, ok_prod,
            "" if ok_prod else "the new production is not prefix + (result,) + suffix")


def _initial_trace_semantics(ctx, rep, pm):
    fr = pm.func("PartialParse.from_regex_matches")
    ok_init = False
    for c in calls_in(fr, "cls") + calls_in(fr, "PartialParse"):
        kw = {k.arg: k.value for k in c.keywords}
        params = ["prod", "rules"]
        for i, a in enumerate(c.args):
            if i < 2:
                kw.setdefault(params[i], a)
        r = kw.get("rules")
        if r is not None and isinstance(r, ast.Call) and norm(r.func) in ("tuple", "list") and r.args and \
                isinstance(r.args[0], (ast.GeneratorExp, ast.ListComp)):
            g = r.args[0]
            ok_init = norm(g.elt) == "{}.id".format(norm(g.generators[0].target)) and \
                norm(g.generators[0].iter) == norm(kw.get("prod")) and not g.generators[0].ifs \
                and len(g.generators) == 1
    rep.add("trace", pm.rel + "::PartialParse.from_regex_matches::initial trace", pm.where(fr), ok_init,
            "" if ok_init else "the initial trace is not the ids of the matches in order")
