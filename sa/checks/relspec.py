"""Evaluating a production's *summary* (the path conditions and result terms E3
extracted from its syntax tree) against a specification function over an enumerated
domain.  The terms are closed arithmetic expressions over the reference time and a
few small integer parameters, so enumeration over the finite domain the property
names decides equality of summary and specification.  No repository code runs."""
import datetime as _dt

from ..core import Undecided
from .. import e4_order as e4
from ..e3_values import *  # noqa

FIELDS = ("year", "month", "day", "hour", "minute", "DOW", "POD")


STR_OPS = ("lower", "upper", "strip", "lstrip", "rstrip", "casefold", "title", "slice")


def str_chain(sym):
    """a chain of string methods / constant slices applied to the text of a regex group"""
    while isinstance(sym, tuple) and sym and sym[0] in STR_OPS:
        if sym[0] == "slice" and (len(sym) != 4 or sym[2] == "?"):
            return False
        sym = sym[1]
    return isinstance(sym, tuple) and bool(sym) and sym[0] == "group"


def extra_leaf(sym):
    """('int', ('group', ...)) terms (numbers read from the text) are leaves too, and so are the
    texts of groups after string methods (compared with constants by the code)."""
    if isinstance(sym, tuple) and len(sym) == 2 and sym[0] == "int" and \
            isinstance(sym[1], tuple) and sym[1] and sym[1][0] == "group":
        return True
    return isinstance(sym, tuple) and bool(sym) and sym[0] in STR_OPS and str_chain(sym)


def leaves_of(sym, out):
    if not isinstance(sym, tuple) or not sym:
        return out
    if extra_leaf(sym):
        out.add(sym)
        return out
    if isinstance(sym[0], str) and (sym[0] in ("attr", "unk") or sym == ("ts",)):
        out.add(sym)
        return out
    if sym[0] == "const":
        return out
    if sym[0] == "anyof":
        for conj in sym[1]:
            for c, _ in conj:
                leaves_of(c, out)
                if isinstance(c, tuple) and c and c[0] in ("startswith", "endswith", "in", "isdigit"):
                    out.add(c)
        return out
    for s in (sym[1:] if isinstance(sym[0], str) else sym):
        if isinstance(s, tuple):
            leaves_of(s, out)
    return out


def bool_leaves(conds, out):
    """Opaque boolean tests (string tests on captures) become boolean leaves."""
    for sym, _ in conds:
        if isinstance(sym, tuple) and sym and sym[0] in ("startswith", "endswith", "in", "isdigit"):
            out.add(sym)
    return out


class Summary:
    """All returning paths of one rule run, compiled over a common leaf order."""

    def __init__(self, paths, want_fields=FIELDS, strict=True):
        """strict: a path condition outside the evaluable fragment makes the summary undecided (it
        would otherwise be treated as free, and paths that exclude each other would both apply)"""
        self.paths = paths
        self.leaves = set()
        self.fields = want_fields
        items = []
        for p in paths:
            if p.kind == "raise":
                continue
            terms = None
            kind = "none"
            if isinstance(p.val, RefV):
                obj = p.st.heap[p.val.oid]
                terms = []
                kind = obj.cls.name
                for f in want_fields:
                    v = obj.attrs.get(f)
                    if isinstance(v, IntV):
                        terms.append(v.sym)
                    elif isinstance(v, StrV) and v.is_const():
                        terms.append(("const", v.const()))
                    elif isinstance(v, StrV):
                        terms.append(v.sym)
                    else:
                        terms.append(None)
                for t in terms:
                    if t is not None:
                        leaves_of(t, self.leaves)
            for c, _ in p.conds:
                leaves_of(c, self.leaves)
            bool_leaves(p.conds, self.leaves)
            items.append((p, kind, terms))
        self.order = sorted(self.leaves, key=repr)
        index = {l: i for i, l in enumerate(self.order)}
        self.compiled = []
        for p, kind, terms in items:
            tt = []
            for t in (terms or []):
                if t is None:
                    tt.append(None)
                else:
                    try:
                        _code_with_leaves(t, index)
                        tt.append(t)
                    except Undecided:
                        tt.append(("const", "<opaque>"))
            if strict:
                e4.STRICT[0] = True
                try:
                    for c_, _t in p.conds:
                        try:
                            _code_with_leaves(c_, index)
                        except Undecided as e_:
                            raise Undecided("path condition outside the evaluable fragment: {} ({})".format(
                                str(c_)[:100], e_))
                finally:
                    e4.STRICT[0] = False
            f = compile_path(p.conds, tt, self.order)
            self.compiled.append((p, kind, f))

    def evaluate(self, val):
        """val: dict leaf -> value.  Returns list of (kind, field dict | None) for the
        consistent paths."""
        a = [val.get(l) for l in self.order]
        out = []
        for p, kind, f in self.compiled:
            r = f(a)
            if r is None:
                continue
            if kind == "none":
                out.append(("none", None, p))
            else:
                out.append((kind, dict(zip(self.fields, r)), p))
        return out


def _code_with_leaves(sym, index):
    return e4._code(sym, index)


def compile_path(conds, terms, order):
    # extend E4's code generator with the extra leaf kinds by pre-registering them in
    # the index (they are looked up before the head dispatch)
    return e4.compile_path(conds, terms, order)


def stride(n, target):
    """step for sampling about *target* of the *n* sweep entries; the sweep lists three times of day
    per date, so a step that is a multiple of 3 would only ever pick one of them"""
    step = max(1, n // max(1, target))
    while step > 1 and step % 3 == 0:
        step += 1
    return step


def sample(sweep, target):
    """about *target* strided entries of the sweep plus every entry at a calendar boundary (first and
    last day of a month, 28/29 February): the places where a day, month or year roll-over shows"""
    step = stride(len(sweep), target)
    picked = set(sweep[::step])
    one = _dt.timedelta(days=1)
    for t in sweep:
        if t.day == 1 or (t + one).day == 1 or (t.month == 2 and t.day >= 28):
            picked.add(t)
    return sorted(picked)


def ts_sweep(tier):
    """Reference times: every day of the range at three times of day."""
    if tier == "thorough":
        start, end = _dt.date(2016, 1, 1), _dt.date(2043, 12, 31)
    else:
        start, end = _dt.date(2019, 12, 25), _dt.date(2021, 3, 5)
    times = [(0, 0, 0), (9, 15, 30), (23, 59, 59)]
    d = start
    out = []
    while d <= end:
        for h, m, s in times:
            out.append(_dt.datetime(d.year, d.month, d.day, h, m, s))
        d += _dt.timedelta(days=1)
    if tier != "thorough":
        for y in (2023, 2024, 2027, 2028, 2100 - 1):
            for (mo, da) in ((2, 28), (12, 31), (1, 1), (3, 1), (1, 31)):
                out.append(_dt.datetime(y, mo, da, 12, 0, 1))
        out.append(_dt.datetime(2024, 2, 29, 8, 0, 0))
    return out
