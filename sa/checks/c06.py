"""C06 — every clock notation of one time of day resolves to that hour and minute
(DESIGN.md §4 C06)."""
import ast
import datetime as _dt

from ..core import AnalysisError, Undecided
from .. import e1_model as e1
from .. import e2_regex as e2
from ..e3_rules import get_engine, shape_of
from ..e3_values import *  # noqa
from .common import rule_construct, report_undecided, norm, calls_in, runs_of, Relevant

RELEVANT = Relevant()
from .lang import rules_accepting, accepts
from .relspec import Summary, ts_sweep

NUM_EN = ["one", "two", "three", "four", "five", "six", "seven", "eight", "nine", "ten",
          "eleven", "twelve"]
NUM_DE = ["eins", "zwei", "drei", "vier", "fünf", "sechs", "sieben", "acht", "neun", "zehn",
          "elf", "zwölf"]


def check(ctx, rep, tier):
    eng = get_engine(ctx)
    from . import spellings
    spellings.check(ctx, rep, "hour-word-spellings", lambda g: g.startswith("t_") or g in ("clock", "ampm"), floor=1)
    RELEVANT.names.clear()
    rep.describe("ampm-map", "for every clock rule with an am/pm group, on every path and "
                 "every (hour, minute, am/pm) the summary gives: absent -> h; am: 12 -> 0, "
                 "1..11 -> h; pm: 1..11 -> h+12, 12.. -> h; minute unchanged")
    rep.describe("spoken-map", "quarter to h -> (h-1 mod 24, 45), quarter past -> (h, 15), "
                 "half (to) -> (h-1 mod 24, 30), half past -> (h, 30); only when the minute is "
                 "0 or absent")
    rep.describe("latent-clock", "the latent rewrite of a bare clock time gives that hour and "
                 "minute on the first day on which it lies strictly after the reference "
                 "minute; with the option off the rewrite is skipped")
    rep.describe("named-hour", "each number word one..twelve / eins..zwölf is accepted by "
                 "exactly the alternative carrying its number, and the rule returns that "
                 "number as hour with minute 0")
    rep.describe("hour-in-pod", "time of day x part of day keeps the minute and the hour "
                 "modulo 12")
    _ampm(ctx, rep, eng)
    _spoken(ctx, rep, eng)
    _latent(ctx, rep, eng, ts_sweep(tier))
    _named(ctx, rep, eng)
    _todpod(ctx, rep, eng)
    report_undecided(rep, eng, RELEVANT)
    rep.assume("not decided: that each notation's regex accepts each of the 1440 minutes; ranking")


def _runs_of(eng, rule):
    RELEVANT.add(rule)
    return runs_of(eng, rule)


def _ampm_group(ctx, text):
    """Name of the named group of this pattern whose language contains 'pm'."""
    _, P = ctx.wrapped(text)
    for name in P.groups:
        if name.startswith("R") or name.startswith("_"):
            continue
        g = P.group(name)
        try:
            from .lang import _strip_looks
            nfa = e2.build_nfa(_strip_looks(g.child), P)
        except Undecided:
            continue
        if 2 in e2.nfa_match_prefixes(nfa, "pm") and 2 in e2.nfa_match_prefixes(nfa, "am"):
            return name
    return None


def _ampm(ctx, rep, eng):
    n_rules = 0
    for rule in ctx.rb.rules:
        if not (len(rule.pats) == 1 and rule.pats[0].kind == "regex"):
            continue
        text = rule.pats[0].value
        g = _ampm_group(ctx, text)
        if g is None:
            continue
        n_rules += 1
        _, P_ = ctx.wrapped(text)
        blank_lead = e2.group_may_take_leading_blank(P_, g)
        c = rule_construct(rule, "am/pm map")
        runs = _runs_of(eng, rule)
        bad = None
        n = 0
        und = None
        for run in runs:
            for p in run.paths:
                if p.kind != "ret" or not isinstance(p.val, RefV):
                    continue
                moid = [o.oid for o in p.st.heap.values() if o.sym == ("param", 0, rule.params[1])]
                cfgs = p.st.cfg.get(moid[0]) if moid else None
                if cfgs is None:
                    und = "match configuration unknown"
                    continue
                pres = {g in cfg for cfg in cfgs}
                if len(pres) != 1:
                    und = "path does not decide whether am/pm was written"
                    continue
                present = pres.pop()
                try:
                    summ = Summary([p], want_fields=("hour", "minute"))
                except Undecided as e:
                    und = str(e)
                    continue
                hour_leaves = [l for l in summ.order if l[0] == "int" and l[1][2] == "hour"]
                min_leaves = [l for l in summ.order if l[0] == "int" and l[1][2] == "minute"]
                a_leaves = [l for l in summ.order if l[0] == "startswith" and l[2] == "a"]
                p_leaves = [l for l in summ.order if l[0] == "startswith" and l[2] == "p"]
                from .relspec import str_chain
                s_leaves = [l for l in summ.order if str_chain(l) and l[0] != "group" and g in str(l)]
                other = [l for l in summ.order if l not in hour_leaves + min_leaves + a_leaves + p_leaves + s_leaves]
                if len(hour_leaves) != 1 or other:
                    if other == [("ts",)] or all(l == ("ts",) for l in other):
                        pass
                    else:
                        und = "unexpected free terms {}".format(other[:2])
                        continue
                # the written marker: 'am' / 'pm', and -- when the pattern lets the group take the
                # blank in front of it (e2.group_may_take_leading_blank) -- ' am' / ' pm'; what the
                # code's own test sees is computed by applying its string operations to the word
                words = [None] if not present else ["am", "pm"]
                if present and blank_lead:
                    words += [" am", " pm"]
                for h in range(24):
                    for mi in ([None] if not min_leaves else [0, 5, 30, 59]):
                        for w in words:
                            k = None if w is None else w.strip()[0]
                            val = {hour_leaves[0]: h}
                            for l in min_leaves:
                                val[l] = mi
                            try:
                                for l in a_leaves + p_leaves:
                                    val[l] = _apply_str_ops(l[1], w).startswith(l[2])
                                for l in s_leaves:
                                    val[l] = _apply_str_ops(l, w)
                            except Undecided as e:
                                und = str(e)
                                continue
                            if ("ts",) in summ.leaves:
                                val[("ts",)] = _dt.datetime(2020, 6, 15, 10, 30)
                            res = summ.evaluate(val)
                            if not res:
                                continue
                            n += 1
                            f = res[0][1]
                            want_m = mi if mi is not None else 0
                            if k is None:
                                want_h = {h}
                            elif k == "a":
                                want_h = {0} if h == 12 else {h}
                            else:
                                want_h = {h + 12} if 1 <= h < 12 else ({0, 12} if h == 0 else {h})
                            if f["hour"] not in want_h or (f["minute"] or 0) != want_m:
                                bad = bad or "{}:{} followed by {!r} gives {}:{} (expected hour {})".format(
                                    h, want_m, w or "", f["hour"], f["minute"], sorted(want_h))
        if und and bad is None:
            rep.undecided("ampm-map", c, rule.where, und)
        else:
            rep.add("ampm-map", c, rule.where, bad is None, bad or "{} cases".format(n))
    rep.count("ampm_rules", n_rules, 2)


def _apply_str_ops(sym, word):
    """the text a chain of string methods (as recorded in a value's summary term) makes of the
    group's text *word*"""
    if isinstance(sym, tuple) and sym and sym[0] == "group":
        return word
    if isinstance(sym, tuple) and len(sym) == 2 and sym[0] in ("lower", "upper", "strip", "lstrip", "rstrip",
                                                              "casefold", "title"):
        return getattr(_apply_str_ops(sym[1], word), sym[0])()
    if isinstance(sym, tuple) and len(sym) == 4 and sym[0] == "slice" and sym[2] != "?":
        return _apply_str_ops(sym[1], word)[sym[2]:sym[3]]
    raise Undecided("string operation outside the model before the am/pm test: {}".format(str(sym)[:60]))


SPOKEN = [
    ("quarter to", ("quarter to", "viertel vor"), lambda h: ((h - 1) % 24, 45)),
    ("quarter past", ("quarter past", "viertel nach"), lambda h: (h, 15)),
    ("half (to)", ("half to", "halb"), lambda h: ((h - 1) % 24, 30)),
    ("half past", ("half past", "halb nach"), lambda h: (h, 30)),
]


def _spoken(ctx, rep, eng):
    for label, words, spec in SPOKEN:
        rules = [r for r in rules_accepting(ctx, words[:1], regex_first=True, arity=2)
                 if r.pats[1].kind == "pred" and r.pats[1].value == "isTOD"]
        if not rules:
            raise AnalysisError("anchor vanished: no (phrase, clock time) rule accepts {!r}".format(words[0]))
        for rule in rules:
            c = rule_construct(rule, label)
            runs = _runs_of(eng, rule)
            if not runs:
                rep.undecided("spoken-map", c, rule.where, "rule not analysed")
                continue
            bad = None
            n = 0
            missing = {}
            try:
                summ = Summary([p for run in runs for p in run.paths], want_fields=("hour", "minute"))
                pn = rule.params[2]
                lh = ("attr", ("param", 1, pn), "hour")
                lm = ("attr", ("param", 1, pn), "minute")
                for h in range(24):
                    for mi in (None, 0, 10, 30):
                        res = summ.evaluate({lh: h, lm: mi})
                        # paths are split by minute presence (shape): keep those whose
                        # shape agrees with this valuation
                        res = [r for r in res if _minute_shape_ok(r[2], pn, mi)]
                        n += 1
                        if not res:
                            missing.setdefault(mi, []).append(h)
                            continue
                        kinds = {r[0] for r in res}
                        if mi:
                            if kinds != {"none"}:
                                bad = bad or "accepts minute {} (must reject)".format(mi)
                            continue
                        if "none" in kinds:
                            bad = bad or "rejects hour {} with minute {}".format(h, mi)
                            continue
                        got = {(r[1]["hour"], r[1]["minute"]) for r in res}
                        if got != {spec(h)}:
                            bad = bad or "hour {} gives {} instead of {}".format(h, sorted(got), spec(h))
            except Undecided as e:
                rep.undecided("spoken-map", c, rule.where, str(e))
                continue
            # a minute shape (absent / present) for which the rule-base analysis has no path at any hour
            # is a shape no producer hands to this rule (e.g. every clock rule fills the minute): nothing
            # to decide for it.  Paths for some hours only, or for no shape at all, is ignorance.
            partial = {mi: hs for mi, hs in missing.items() if len(hs) < 24}
            if bad is None and (partial or (None in missing and 0 in missing)):
                mi, hs = sorted(partial.items(), key=lambda kv: str(kv[0]))[0] if partial else (None, missing[None])
                rep.undecided("spoken-map", c, rule.where,
                              "no consistent path for hour {} minute {}".format(hs[0], mi))
                continue
            rep.add("spoken-map", c, rule.where, bad is None, bad or "{} cases".format(n))


def _minute_shape_ok(path, pname, mi):
    for o in path.st.heap.values():
        if o.sym == ("param", 1, pname):
            v = o.attrs.get("minute")
            if isinstance(v, NoneV):
                return mi is None
            if isinstance(v, IntV):
                return mi is not None and v.lo <= mi <= v.hi
    return True


def _latent(ctx, rep, eng, sweep):
    cm = ctx.imod("ctparse.ctparse")
    gen = cm.func("ctparse_gen")
    # option off -> rewrite skipped
    calls = calls_in(gen, "apply_postprocessing_rules")
    ok = bool(calls)
    for c_ in calls:
        cur = getattr(c_, "_parent", None)
        guarded = False
        while cur is not None and cur is not gen:
            if isinstance(cur, ast.If) and "latent_time" in {n.id for n in ast.walk(cur.test) if isinstance(n, ast.Name)}:
                neg = any(isinstance(n, ast.Not) for n in ast.walk(cur.test))
                in_body = any(c_ is x for b in cur.body for x in ast.walk(b))
                guarded = in_body and not neg
            cur = getattr(cur, "_parent", None)
        ok = ok and guarded
    rep.add("latent-clock", cm.rel + "::ctparse_gen::option guards the rewrite", cm.where(gen), ok,
            "" if ok else "latent rewrite is not conditional on the latent_time option")
    # summary vs specification
    from .relspec import sample
    tss = sample(sweep, 200 if len(sweep) < 5000 else 600)
    n = 0
    bad = None
    found = False
    src = ("param", 0, "art")
    for key, (shape, paths, err) in eng.latent.items():
        if shape.cls.name != "Time" or not (shape.presence() <= {"hour", "minute"} and "hour" in shape.presence()):
            continue
        found = True
        try:
            summ = Summary(paths)
        except Undecided as e:
            rep.undecided("latent-clock", "latent clock summary", "-", str(e))
            return
        has_min = "minute" in shape.presence()
        lh, lm = ("attr", src, "hour"), ("attr", src, "minute")
        for ts in tss:
            for h in range(24):
                for mi in ([0, 1, 30, 59] if has_min else [None]):
                    val = {("ts",): ts, lh: h, lm: mi}
                    res = summ.evaluate(val)
                    n += 1
                    m_eff = mi or 0
                    later = (h, m_eff) > (ts.hour, ts.minute)
                    d = ts.date() if later else ts.date() + _dt.timedelta(days=1)
                    want = (d.year, d.month, d.day, h, m_eff)
                    if len(res) != 1 or res[0][0] == "none":
                        bad = bad or "{}:{} at {} has {} consistent paths".format(h, mi, ts, len(res))
                        continue
                    f = res[0][1]
                    got = (f["year"], f["month"], f["day"], f["hour"], f["minute"])
                    if got != want:
                        bad = bad or "{}:{:02d} at reference time {} gives {} instead of {}".format(
                            h, m_eff, ts, got, want)
            if bad:
                break
    c = "ctparse/time/postprocess_latent.py::latent clock time"
    if not found:
        rep.undecided("latent-clock", c, "ctparse/time/postprocess_latent.py", "no bare clock shape reachable")
    else:
        rep.add("latent-clock", c, "ctparse/time/postprocess_latent.py", bad is None,
                bad or "{} cases".format(n))


def _named(ctx, rep, eng):
    rules = rules_accepting(ctx, ("twelve",), regex_only=True)
    rules = [r for r in rules if rules_accepting(ctx, ("zwölf",), regex_only=True) and
             accepts(ctx, r.pats[0].value, "one")]
    if not rules:
        raise AnalysisError("anchor vanished: named-hour rule not found by language")
    for rule in rules:
        text = rule.pats[0].value
        _, P = ctx.wrapped(text)
        # groups by number: evaluate the rule per configuration
        runs = _runs_of(eng, rule)
        group_hour = {}
        for run in runs:
            for p in run.paths:
                if p.kind != "ret" or not isinstance(p.val, RefV):
                    continue
                moid = [o.oid for o in p.st.heap.values() if o.sym == ("param", 0, rule.params[1])]
                cfgs = p.st.cfg.get(moid[0]) if moid else None
                obj = p.st.heap[p.val.oid]
                h, mi = obj.attrs.get("hour"), obj.attrs.get("minute")
                if cfgs and isinstance(h, IntV) and h.is_const():
                    for cfg in cfgs:
                        for g in cfg:
                            group_hour.setdefault(g, set()).add((h.lo, mi.lo if isinstance(mi, IntV) and mi.is_const() else None))
        bad = None
        und_nh = None
        n = 0
        for i, (en, de) in enumerate(zip(NUM_EN, NUM_DE)):
            num = i + 1
            for w in (en, de):
                hits = []
                for gname in P.groups:
                    if gname.startswith(("R", "_")):
                        continue
                    g = P.group(gname)
                    try:
                        nfa = e2.build_nfa(g.child, P)
                    except Undecided:
                        continue
                    if len(w) in e2.nfa_match_prefixes(nfa, w):
                        hits.append(gname)
                n += 1
                vals = set()
                for g in hits:
                    vals |= group_hour.get(g, set())
                if not vals and hits:
                    und_nh = "no constant hour found on the paths where group {} took part".format(hits[0])
                elif vals != {(num, 0)}:
                    bad = bad or "'{}' is accepted by groups {} which give {} (expected hour {} minute 0)".format(
                        w, hits, sorted(vals), num)
        if bad is None and und_nh:
            rep.undecided("named-hour", rule_construct(rule, "number words"), rule.where, und_nh)
        else:
            rep.add("named-hour", rule_construct(rule, "number words"), rule.where, bad is None,
                    bad or "{} words".format(n))


def _todpod(ctx, rep, eng):
    for rule in ctx.rb.rules:
        kinds = [(p.kind, p.value) for p in rule.pats]
        if sorted(kinds) != sorted([("pred", "isTOD"), ("pred", "isPOD")]):
            continue
        ti = kinds.index(("pred", "isTOD"))
        pn = rule.params[ti + 1]
        bad = None
        n = 0
        for run in _runs_of(eng, rule):
            for p in run.paths:
                if p.kind != "ret" or not isinstance(p.val, RefV):
                    continue
                n += 1
                obj = p.st.heap[p.val.oid]
                h, mi = obj.attrs.get("hour"), obj.attrs.get("minute")
                src_h = ("attr", ("param", ti, pn), "hour")
                src_m = ("attr", ("param", ti, pn), "minute")
                ok_h = isinstance(h, IntV) and (h.sym == src_h or h.sym == ("op", "Add", src_h, ("const", 12)))
                ok_m = (isinstance(mi, IntV) and mi.sym == src_m) or (
                    isinstance(mi, NoneV) and any(
                        o.sym == ("param", ti, pn) and isinstance(o.attrs.get("minute"), NoneV)
                        for o in p.st.heap.values()))
                if not ok_h:
                    bad = bad or "hour is {} (not h or h + 12)".format(getattr(h, "sym", h))
                if not ok_m:
                    bad = bad or "minute is not the written minute"
        if n:
            rep.add("hour-in-pod", rule_construct(rule, "hour/minute kept"), rule.where, bad is None,
                    bad or "{} paths".format(n))
        _pod_modifier_invariance(ctx, rep, eng, rule, ti)


def _base_pod(key, bases):
    for b in sorted(bases, key=len, reverse=True):
        if key.endswith(b):
            return b
    return None


def _pod_modifier_invariance(ctx, rep, eng, rule, ti):
    """'3 in the late afternoon' must be the hour '3 in the afternoon' is: the hour chosen
    for a modified part of day equals the one chosen for its base part of day."""
    from ..e3_rules import Shape
    table = ctx.model.const("ctparse.types", "pod_hours")
    if not isinstance(table, dict):
        return
    rm = ctx.rb.rule_mods[0]
    pods = ctx.model.env(rm.name).get("_pods")
    bases = [p[0] for p in pods] if isinstance(pods, list) else []
    if not bases:
        return
    tod = pod = None
    for sh in eng.R.values():
        if sh.cls.name == "Time":
            pr = sh.presence()
            if pr == frozenset({"hour", "minute"}):
                tod = sh
            elif pr == frozenset({"POD"}):
                pod = sh
    if tod is None or pod is None:
        return
    results = {}
    und = None
    for key in sorted(table):
        psh = Shape(pod.cls, dict(pod.attrs), pod.cal)
        psh.attrs["POD"] = StrV({key})
        shapes = [None, None]
        shapes[ti] = tod
        shapes[1 - ti] = psh
        run = eng.run_rule(rule, shapes)
        if run.error:
            und = run.error
            break
        try:
            summ = Summary(run.paths, want_fields=("hour", "minute"))
        except Undecided as e:
            und = str(e)
            break
        pn = rule.params[ti + 1]
        lh = ("attr", ("param", ti, pn), "hour")
        lm = ("attr", ("param", ti, pn), "minute")
        row = []
        for h in range(24):
            res = summ.evaluate({lh: h, lm: 0})
            row.append(tuple(sorted((r[0], r[1]["hour"] if r[1] else None) for r in res)))
        results[key] = tuple(row)
    c = rule_construct(rule, "modifier invariance")
    if und:
        rep.undecided("hour-in-pod", c, rule.where, und)
        return
    bad = None
    for key, row in sorted(results.items()):
        b = _base_pod(key, bases)
        if b is None or b == key or b not in results:
            continue
        if row != results[b]:
            hs = [h for h in range(24) if row[h] != results[b][h]]
            bad = bad or "with part of day '{}' hour {} gives {} but with '{}' it gives {}".format(
                key, hs[0], row[hs[0]], b, results[b][hs[0]])
    rep.add("hour-in-pod", c, rule.where, bad is None, bad or "{} parts of day".format(len(results)))
