"""Locating rules by role: "the rule whose pattern accepts the word W" (E2 membership
of a constant word in the pattern's language; the analysis's own automaton)."""
from ..core import Undecided
from .. import e2_regex as e2


def _strip_looks(node):
    """Copy of the tree with look-arounds replaced by epsilon (over-approximation of
    the language; only used to *locate* rules)."""
    k = node.kind
    if k == "look":
        return e2.Seq([])
    if k == "seq":
        return e2.Seq([_strip_looks(c) for c in node.items])
    if k == "alt":
        return e2.Alt([_strip_looks(c) for c in node.items])
    if k == "group":
        g = e2.Group(node.idx, node.name, _strip_looks(node.child))
        return g
    if k == "atomic":
        return e2.Atomic(_strip_looks(node.child))
    if k == "rep":
        return e2.Rep(node.lo, node.hi, _strip_looks(node.child), node.mode)
    if k == "cond":
        return e2.Cond(node.group, _strip_looks(node.yes), _strip_looks(node.no))
    return node


_NFA_CACHE = {}


def pattern_nfa(ctx, text):
    key = (id(ctx), text)
    if key not in _NFA_CACHE:
        _, P = ctx.wrapped(text)
        root = _strip_looks(P.id_group.child)
        _NFA_CACHE[key] = (e2.build_nfa(root, P), P)
    return _NFA_CACHE[key]


def accepts(ctx, text, word, before=None, after=None):
    """Does the rule pattern *text* match exactly *word* (case-insensitively, as the
    program compiles it) when it stands alone / between the given neighbours?"""
    try:
        nfa, P = pattern_nfa(ctx, text)
    except Undecided:
        return False
    ks = e2.nfa_match_prefixes(nfa, word, before, after)
    return len(word) in ks


def rules_accepting(ctx, words, regex_first=False, arity=None, regex_only=False, any_word=True):
    out = []
    for r in ctx.rb.rules:
        if arity is not None and len(r.pats) != arity:
            continue
        if regex_only and not (len(r.pats) == 1 and r.pats[0].kind == "regex"):
            continue
        pats = [p for p in r.pats if p.kind == "regex"]
        if regex_first:
            pats = [r.pats[0]] if r.pats and r.pats[0].kind == "regex" else []
        hit = False
        for p in pats:
            res = [accepts(ctx, p.value, w) for w in words]
            if (any(res) if any_word else all(res)):
                hit = True
        if hit:
            out.append(r)
    return out
