"""Provenance terms for text-handling code: a small syntax-directed evaluator that maps every
expression of a function body to a term over the operations the properties speak about
(normalise, substitute, strip, split, join, findall, filter ...), following local variables,
loops that build lists, and (through the inlined module view) helper functions.

The checks compare terms, not statements, so the same computation written with other
temporaries, in a helper, or with a loop in place of a comprehension gives the same verdict.
"""
import ast

from .. import e1_model as e1
from .common import norm

ORDER_KEEPING = ("filter", "list", "prefix")
ORDER_LOSING = ("set", "sorted", "reversed", "dictkeys")
MULTIPLICITY_LOSING = ("dedup",)


def module_patterns(cm):
    """module-level NAME = re.compile(<constant>[, flags]) -> {NAME: (text, version1?, node)}"""
    out = {}
    for st in cm.tree.body:
        val = None
        if isinstance(st, ast.Assign) and len(st.targets) == 1 and isinstance(st.targets[0], ast.Name):
            val, name = st.value, st.targets[0].id
        elif isinstance(st, ast.AnnAssign) and isinstance(st.target, ast.Name) and st.value is not None:
            val, name = st.value, st.target.id
        if isinstance(val, ast.Call) and e1.callee_name(val.func) == "compile" and val.args \
                and isinstance(val.args[0], ast.Constant) and isinstance(val.args[0].value, str):
            mod = norm(val.func.value) if isinstance(val.func, ast.Attribute) else ""
            v1 = any("VERSION1" in norm(a) or norm(a).endswith(".V1") for a in val.args[1:]) or \
                any("VERSION1" in norm(k.value) for k in val.keywords)
            out[name] = (val.args[0].value, v1, st, mod)
    return out


def strip_ops(t):
    """term without the outer strip() wrappers, and whether there was one"""
    s = False
    while isinstance(t, tuple) and t and t[0] == "strip":
        s = True
        t = t[1]
    return t, s


def term_text(t, depth=0):
    if not isinstance(t, tuple) or depth > 8:
        return repr(t)
    h = t[0]
    if h == "text":
        return "<{} text>".format(t[1])
    if h == "const":
        return repr(t[1])
    if h == "var":
        return t[1]
    if h == "?":
        return "?" + t[1][:30]
    if h == "sub":
        return "sub({!r}, {!r}, {})".format(t[1][:24], t[3], term_text(t[4], depth + 1))
    if h in ("resplit", "findall"):
        return "{}({!r}, {})".format(h, t[1][:24], term_text(t[2], depth + 1))
    if h == "call":
        return "{}({})".format(t[1], ", ".join(term_text(a, depth + 1) for a in t[2]))
    return "{}({})".format(h, ", ".join(term_text(a, depth + 1) if isinstance(a, tuple) else repr(a)
                                       for a in t[1:] if not isinstance(a, (list, ast.AST))))


class Terms:
    def __init__(self, cm, pats=None, text_calls=()):
        self.cm = cm
        self.pats = module_patterns(cm) if pats is None else pats
        self.ctors = []      # (class name, [arg terms], {kw: term}, node)
        self.calls = []      # (callee name, [arg terms], node)
        self.returns = []    # (term, node)
        self.yields = []     # (term, node)

    # -- expressions ----------------------------------------------------------------
    def ev(self, e, env):
        if e is None:
            return ("const", None)
        if isinstance(e, ast.Constant):
            return ("const", e.value)
        if isinstance(e, ast.Name):
            if e.id in env:
                return env[e.id]
            return ("var", e.id)
        if isinstance(e, ast.JoinedStr):
            return ("?", norm(e))
        if isinstance(e, ast.Await):
            return self.ev(e.value, env)
        if isinstance(e, ast.NamedExpr) and isinstance(e.target, ast.Name):
            v = self.ev(e.value, env)
            env[e.target.id] = v
            return v
        if isinstance(e, (ast.ListComp, ast.GeneratorExp, ast.SetComp)):
            return self._comp(e, env)
        if isinstance(e, (ast.List, ast.Tuple)):
            return ("coll", "list", [self.ev(x, env) for x in e.elts])
        if isinstance(e, ast.Set):
            return ("set", ("coll", "list", [self.ev(x, env) for x in e.elts]))
        if isinstance(e, ast.IfExp):
            a, b = self.ev(e.body, env), self.ev(e.orelse, env)
            return a if a == b else ("phi", a, b)
        if isinstance(e, ast.BoolOp):
            vs = [self.ev(v, env) for v in e.values]
            return vs[0] if all(v == vs[0] for v in vs) else ("phi",) + tuple(vs)
        if isinstance(e, ast.Subscript):
            base = self.ev(e.value, env)
            if isinstance(e.slice, ast.Slice):
                return ("slice", base, norm(e.slice))
            return ("item", base, norm(e.slice))
        if isinstance(e, ast.Attribute):
            return ("attr", self.ev(e.value, env), e.attr)
        if isinstance(e, ast.Call):
            return self._call(e, env)
        if isinstance(e, ast.BinOp):
            return ("binop", type(e.op).__name__, self.ev(e.left, env), self.ev(e.right, env))
        return ("?", norm(e))

    def _comp(self, e, env):
        if len(e.generators) != 1:
            inner = dict(env)
            for g in e.generators:
                it = self.ev(g.iter, inner)
                self._bind(g.target, ("elem", it), inner)
            return ("map", norm(e.elt), ("nested", [self.ev(g.iter, env) for g in e.generators]))
        g = e.generators[0]
        it = self.ev(g.iter, env)
        inner = dict(env)
        self._bind(g.target, ("elem", it), inner)
        elt = self.ev(e.elt, inner)
        if elt == ("elem", it):
            t = ("filter", it, list(g.ifs)) if g.ifs else ("list", it)
        else:
            t = ("map", elt, ("filter", it, list(g.ifs)) if g.ifs else it)
        if isinstance(e, ast.SetComp):
            t = ("set", t)
        return t

    def _pattern_of(self, fnode, env):
        """(text, v1, module) when fnode is re/regex module or a compiled module constant"""
        if isinstance(fnode, ast.Name):
            if fnode.id in ("re", "regex") and fnode.id not in env:
                return ("module", fnode.id)
            name = fnode.id
            # a local that stands for a module-level compiled pattern (e.g. a row of a table)
            seen = 0
            while name in env and isinstance(env[name], tuple) and env[name][0] == "var" and seen < 4:
                name = env[name][1]
                seen += 1
            if name in self.pats and name not in env:
                text, v1, _st, mod = self.pats[name]
                return ("compiled", text, v1 or mod == "regex", name)
        return None

    def _module_table(self, name):
        """elements of a module-level tuple / list literal NAME = (...), or None"""
        for st in self.cm.tree.body:
            val = None
            if isinstance(st, ast.Assign) and len(st.targets) == 1 and isinstance(st.targets[0], ast.Name) \
                    and st.targets[0].id == name:
                val = st.value
            elif isinstance(st, ast.AnnAssign) and isinstance(st.target, ast.Name) and st.target.id == name:
                val = st.value
            if isinstance(val, (ast.Tuple, ast.List)) and len(val.elts) <= 12:
                return list(val.elts)
        return None

    def _call(self, c, env):
        f = c.func
        args = c.args
        # timeit(fn)(args) -> (fn(args), seconds)
        if isinstance(f, ast.Call) and e1.callee_name(f.func) == "timeit" and f.args:
            inner = ast.Call(func=f.args[0], args=c.args, keywords=c.keywords)
            ast.copy_location(inner, c)
            return ("timed", self._call(inner, env))
        if isinstance(f, ast.Name):
            nm = f.id
            if nm == "cast" and len(args) == 2:
                return self.ev(args[1], env)
            if nm in ("str",) and len(args) == 1:
                return self.ev(args[0], env)
            if nm in ("list", "tuple") and len(args) == 1:
                return ("list", self.ev(args[0], env))
            if nm in ("set", "frozenset"):
                return ("set", self.ev(args[0], env) if args else ("coll", "list", []))
            if nm == "sorted" and args:
                kw = {k.arg: k.value for k in c.keywords}
                return ("sorted", self.ev(args[0], env), kw.get("key"), kw.get("reverse"))
            if nm in ("max", "min") and len(args) == 1:
                kw = {k.arg: k.value for k in c.keywords}
                return (nm, self.ev(args[0], env), kw.get("key"), kw.get("default"))
            if nm == "reversed" and args:
                return ("reversed", self.ev(args[0], env))
            if nm == "filter" and len(args) == 2:
                return ("filter", self.ev(args[1], env), [args[0]])
            if nm == "chain" or nm == "chain.from_iterable":
                return ("chain", [self.ev(a, env) for a in args])
            ats = [self.ev(a, env) for a in args]
            kws = {k.arg: self.ev(k.value, env) for k in c.keywords if k.arg}
            if nm[:1].isupper() and (nm in self.cm.classes or nm in ("CTParse",)):
                self.ctors.append((nm, ats, kws, c))
                return ("new", nm, ats)
            self.calls.append((nm, ats, c))
            return ("call", nm, ats)
        if isinstance(f, ast.Attribute):
            meth = f.attr
            pat = self._pattern_of(f.value, env)
            if pat is not None:
                if pat[0] == "module":
                    if not args or not isinstance(args[0], ast.Constant) or not isinstance(args[0].value, str):
                        # pattern not constant
                        ats = [self.ev(a, env) for a in args]
                        self.calls.append((pat[1] + "." + meth, ats, c))
                        return ("call", pat[1] + "." + meth, ats)
                    text, v1, rest = args[0].value, pat[1] == "regex", args[1:]
                    label = "{}.{}({!r})".format(pat[1], meth, text[:24])
                else:
                    text, v1, rest = pat[1], pat[2], args
                    label = pat[3]
                if meth == "sub" and len(rest) >= 2:
                    rt = self.ev(rest[0], env)
                    repl = rt[1] if isinstance(rt, tuple) and rt[0] == "const" else None
                    return ("sub", text, v1, repl, self.ev(rest[1], env), label, c)
                if meth == "split" and rest:
                    return ("resplit", text, self.ev(rest[0], env), c)
                if meth == "findall" and rest:
                    return ("findall", text, self.ev(rest[0], env), c)
                if meth in ("finditer", "search", "match", "fullmatch") and rest:
                    return ("rematch", meth, text, self.ev(rest[0], env))
            base = self.ev(f.value, env)
            if meth in ("strip",) and not args:
                return ("strip", base)
            if meth in ("lower", "upper", "casefold", "lstrip", "rstrip", "title", "replace"):
                return ("strop", meth, base, [self.ev(a, env) for a in args])
            if meth == "split":
                return ("ssplit", norm(args[0]) if args else None, base)
            if meth == "join" and args:
                return ("join", base[1] if base[0] == "const" else base, self.ev(args[0], env))
            if meth == "copy" and not args:
                return ("list", base)
            if meth in ("keys", "values", "items") and not args:
                return ("dictkeys", base)
            if meth == "fromkeys" and isinstance(f.value, ast.Name) and f.value.id in ("dict", "OrderedDict") and args:
                return ("dedup", self.ev(args[0], env))
            ats = [self.ev(a, env) for a in args]
            self.calls.append((norm(f)[:60], ats, c))
            return ("mcall", meth, base, ats)
        ats = [self.ev(a, env) for a in args]
        return ("call", norm(f)[:40], ats)

    # -- statements -------------------------------------------------------------------
    def _bind(self, tgt, val, env):
        if isinstance(tgt, ast.Name):
            env[tgt.id] = val
        elif isinstance(tgt, (ast.Tuple, ast.List)):
            for i, el in enumerate(tgt.elts):
                if isinstance(val, tuple) and val and val[0] == "timed":
                    self._bind(el, val[1] if i == 0 else ("?", "seconds"), env)
                elif isinstance(val, tuple) and val and val[0] == "coll" and i < len(val[2]):
                    self._bind(el, val[2][i], env)
                else:
                    self._bind(el, ("item", val, str(i)), env)

    def run(self, stmts, env, guards=()):
        for st in stmts:
            self.stmt(st, env, guards)
        return env

    def stmt(self, st, env, guards):
        if isinstance(st, ast.Assign):
            v = self.ev(st.value, env)
            for t in st.targets:
                self._bind(t, v, env)
        elif isinstance(st, ast.AnnAssign):
            if st.value is not None:
                self._bind(st.target, self.ev(st.value, env), env)
        elif isinstance(st, ast.AugAssign):
            if isinstance(st.target, ast.Name):
                cur = env.get(st.target.id, ("var", st.target.id))
                env[st.target.id] = ("binop", type(st.op).__name__, cur, self.ev(st.value, env))
        elif isinstance(st, ast.Expr):
            v = st.value
            if isinstance(v, ast.Yield):
                self.yields.append((self.ev(v.value, env), st))
            elif isinstance(v, ast.YieldFrom):
                self.yields.append((("from", self.ev(v.value, env)), st))
            elif isinstance(v, ast.Call) and isinstance(v.func, ast.Attribute) and isinstance(v.func.value, ast.Name) \
                    and v.func.attr in ("append", "add", "extend", "update", "insert", "sort", "reverse") \
                    and v.func.value.id in env:
                self._mutate(v, env, guards)
            else:
                self.ev(v, env)
        elif isinstance(st, ast.Return):
            self.returns.append((self.ev(st.value, env), st))
        elif isinstance(st, ast.If):
            self.ev(st.test, env)
            e1_, e2_ = dict(env), dict(env)
            self.run(st.body, e1_, guards + ((st.test, True),))
            self.run(st.orelse, e2_, guards + ((st.test, False),))
            b_ends = _ends(st.body)
            o_ends = _ends(st.orelse)
            if b_ends and not o_ends:
                env.clear()
                env.update(e2_)
                if b_ends == "continue":
                    env["__cont__"] = env.get("__cont__", ()) + ((st.test, True),)
            elif o_ends and not b_ends:
                env.clear()
                env.update(e1_)
                if o_ends == "continue":
                    env["__cont__"] = env.get("__cont__", ()) + ((st.test, False),)
            else:
                for k in set(e1_) | set(e2_):
                    a, b = e1_.get(k), e2_.get(k)
                    # a list extended on one branch only: the branch condition is recorded with the item
                    if _extends(a, b):
                        env[k] = a
                        continue
                    if _extends(b, a):
                        env[k] = b
                        continue
                    if a == b:
                        env[k] = a
                    elif a is None or b is None:
                        env[k] = a if b is None else b
                    else:
                        env[k] = ("phi", a, b)
        elif isinstance(st, (ast.For, ast.AsyncFor)) and isinstance(st.iter, ast.Name) \
                and st.iter.id not in env and self._module_table(st.iter.id) is not None \
                and not any(isinstance(n, (ast.Break, ast.Continue)) for n in ast.walk(st)):
            # a loop over a module-level table: unrolled, row by row
            for row in self._module_table(st.iter.id):
                self._bind(st.target, self.ev(row, env), env)
                self.run(st.body, env, guards)
            self.run(st.orelse, env, guards)
        elif isinstance(st, (ast.For, ast.AsyncFor)):
            it = self.ev(st.iter, env)
            before = dict(env)
            self._bind(st.target, ("elem", it), env)
            env["__loop__"] = env.get("__loop__", ()) + ((it, st),)
            env.pop("__cont__", None)
            self.run(st.body, env, guards)
            env["__loop__"] = env["__loop__"][:-1]
            if not env["__loop__"]:
                env.pop("__loop__")
            env.pop("__cont__", None)
            has_break = any(isinstance(n, ast.Break) for n in ast.walk(st))
            # lists filled in this loop
            for k, v in list(env.items()):
                if isinstance(v, tuple) and v and v[0] == "building":
                    kind, items = v[1], v[2]
                    mine = [x for x in items if x[2] and x[2][-1][1] is st]
                    if not mine or before.get(k) is None:
                        continue
                    empty = (("coll", "list", []), ("set", ("coll", "list", [])), ("coll", kind, []))
                    if before[k] not in empty or len(mine) != len(items):
                        env[k] = ("?", "collection built in several places")
                        continue
                    if len(mine) == 1 and len(mine[0][2]) == 1 and mine[0][0] == ("elem", it) and mine[0][3] == "append":
                        conds = [g for g in mine[0][1]]
                        t = ("filter", it, conds) if conds else ("list", it)
                        if has_break:
                            t = ("prefix", t)
                    else:
                        t = ("gathered", [(x[0], x[3], [l[0] for l in x[2]]) for x in mine])
                    env[k] = ("set", t) if kind == "set" else t
            self.run(st.orelse, env, guards)
        elif isinstance(st, ast.While):
            self.ev(st.test, env)
            self.run(st.body, env, guards)
        elif isinstance(st, ast.Try):
            self.run(st.body, env, guards)
            for h in st.handlers:
                self.run(h.body, dict(env), guards)
            self.run(st.orelse, env, guards)
            self.run(st.finalbody, env, guards)
        elif isinstance(st, (ast.With, ast.AsyncWith)):
            for it in st.items:
                v = self.ev(it.context_expr, env)
                if it.optional_vars is not None:
                    self._bind(it.optional_vars, v, env)
            self.run(st.body, env, guards)
        # nested defs, imports, pass, raise, assert, global: nothing to track

    def _mutate(self, call, env, guards):
        name = call.func.value.id
        meth = call.func.attr
        cur = env[name]
        if meth == "sort":
            kw = {k.arg: k.value for k in call.keywords}
            env[name] = ("sorted", cur, kw.get("key"), kw.get("reverse"))
            return
        if meth == "reverse":
            env[name] = ("reversed", cur)
            return
        vals = [self.ev(a, env) for a in call.args]
        loops = env.get("__loop__", ())
        conds = list(env.get("__cont__", ()))
        if isinstance(cur, tuple) and cur and cur[0] == "coll" and not cur[2]:
            cur = ("building", cur[1], [])
        if isinstance(cur, tuple) and cur and cur[0] == "set" and cur[1] == ("coll", "list", []):
            cur = ("building", "set", [])
        if not (isinstance(cur, tuple) and cur and cur[0] == "building"):
            env[name] = ("?", "mutated collection")
            return
        # the guards of enclosing ifs inside the loop: collected by the caller through __cont__ only for
        # continue-guards; positive guards come from the If nesting recorded in `guards`
        inner = [g for g in guards if any(g[0] is n for l in loops for n in ast.walk(l[1]))]
        conds = [(g[0], not g[1]) for g in conds] + [(g[0], g[1]) for g in inner]
        item = (vals[-1] if vals else ("?", "no value"), conds, loops, meth)
        env[name] = ("building", cur[1], cur[2] + [item])


def _extends(a, b):
    """a is the collection-under-construction b with more items"""
    if not (isinstance(a, tuple) and a and a[0] == "building"):
        return False
    if isinstance(b, tuple) and b and b[0] == "building":
        return b[1] == a[1] and len(b[2]) <= len(a[2]) and a[2][:len(b[2])] == b[2]
    return b in (("coll", "list", []), ("coll", a[1], []), ("set", ("coll", "list", [])))


def _ends(stmts):
    """'return' / 'continue' / 'break' / 'raise' when the block always leaves that way"""
    if not stmts:
        return None
    last = stmts[-1]
    if isinstance(last, ast.Return):
        return "return"
    if isinstance(last, ast.Continue):
        return "continue"
    if isinstance(last, ast.Break):
        return "break"
    if isinstance(last, ast.Raise):
        return "raise"
    if isinstance(last, ast.If) and last.orelse:
        a, b = _ends(last.body), _ends(last.orelse)
        if a and b:
            return a if a == b else "return"
    return None


def find(t, head):
    """all sub-terms with the given head (pre-order)"""
    out = []

    def walk(x):
        if isinstance(x, tuple):
            if x and x[0] == head:
                out.append(x)
            for y in x:
                walk(y)
        elif isinstance(x, list):
            for y in x:
                walk(y)
    walk(t)
    return out


def text_state(t):
    """'raw' / 'norm' / 'stripped' / 'stripped-raw' / '?' of a text-valued term"""
    if not isinstance(t, tuple) or not t:
        return "?"
    h = t[0]
    if h == "text":
        return t[1]
    if h == "strip":
        return text_state(t[1])
    if h == "call" and t[1] == "_preprocess_string" and t[2]:
        s = text_state(t[2][0])
        if s == "stripped-raw":
            return "norm-of-stripped"      # labels cut from the raw text, normalised afterwards
        return "norm" if s in ("raw", "norm") else "?"
    if h == "sub" and t[3] == "":
        s = text_state(t[4])
        if s == "norm":
            return "stripped"
        if s in ("stripped",) or s.startswith("stripped-"):
            return s
        return "stripped-" + s
    if h == "phi":
        ss = {text_state(x) for x in t[1:]}
        return ss.pop() if len(ss) == 1 else "?"
    return "?"


def search_input_state(cm, gen):
    """text states ('raw' / 'norm' / ...) of the first argument of every _ctparse(...) call in the
    streaming entry point *gen*, by provenance of the text parameter (so a local that holds the
    normalised text, or a helper around the normaliser, is the same as the nested call)"""
    tparam = gen.args.args[0].arg if gen.args.args else None
    if tparam is None:
        return []
    T = Terms(cm)
    T.run(gen.body, {tparam: ("text", "raw")})
    return [text_state(ats[0]) for (name, ats, _node) in T.calls if name == "_ctparse" and ats]
