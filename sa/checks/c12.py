"""C12 — a parse is a pure function of its arguments (effect property; E5 + E3)."""
import ast

from ..core import AnalysisError, Undecided
from .. import e1_model as e1
from .. import e5_effects as e5
from ..e3_rules import get_engine
from .common import rule_construct, report_undecided, grouped_runs, norm

# single named exceptions, each with its reason
ALLOWED = {
    # caller-owned state: a RandomScorer is constructed by the caller with its own rng
    ("ctparse.scorer", "RandomScorer.__init__", "self-store"): "constructor of a caller-owned scorer",
}
# classes whose instances are allocated per call (their methods may set their own fields)
PER_CALL_CLASSES = ("PartialParse", "CTParse", "Artifact", "RegexMatch", "Time", "Interval", "Duration")
POSITIVE_EXAMPLE = '''
_CACHE = {}
def lookup(txt):
    global _HITS
    if txt in _CACHE:
        _HITS = 1
        return _CACHE[txt]
    _CACHE[txt] = len(txt)
    return _CACHE[txt]
'''


# clauses that report a construct they found (a write, a computed value), not a pattern they
# failed to find: the idiom guard of sa/idioms.py does not apply to them
IDIOM_GUARD_EXEMPT = {"*"}


def check(ctx, rep, tier):
    rep.describe("no-module-write", "no function reachable at call time (from the two entry "
                 "points, through every production and both scorers) rebinds a module global, "
                 "stores into or mutates a module-level object")
    rep.describe("no-hidden-memory", "no caching decorator, function attribute, written mutable "
                 "default or closure-cell write on a call-time function")
    rep.describe("arguments-unmodified", "no call-time function stores into or mutates one of "
                 "its parameters (other than self of an object allocated during the call); the "
                 "scorer, the rule base and the arguments are never the target of a store")
    rep.describe("productions-pure", "no production stores into a value it was given, directly "
                 "or through the wrapper's span update of a returned argument (E3 effects)")
    rep.describe("order-determinism", "every set whose iteration order can reach the result has "
                 "elements hashed over integers only, or is iterated under a total sort")
    rep.describe("positive-example", "the write detector fires on a built-in synthetic module")
    cg, reach = e5.call_time_functions(ctx)
    mstate = e5.module_state(ctx)
    rep.count("call_time_functions", len(reach), 60)
    rep.count("module_bindings", len(mstate), 40)
    _writes(ctx, rep, cg, reach, mstate)
    _productions(ctx, rep)
    _order(ctx, rep)
    _positive(ctx, rep)
    rep.assume("A4: callers do not monkey-patch the package; caller-supplied Scorer objects are "
               "outside the analysed program")


def _class_of(fi):
    return getattr(fi.node, "_cls", None)


def _per_call_class(ctx, fi):
    cls = _class_of(fi)
    if cls is None:
        return False
    if cls in PER_CALL_CLASSES:
        return True
    c = fi.mod.classes.get(cls)
    if c is not None:
        for b in c.bases:
            if norm(b) in PER_CALL_CLASSES:
                return True
    return _allocated_per_call(ctx, cls)


_ALLOC_CACHE = {}


def _allocated_per_call(ctx, cls):
    """Every place that creates an instance of *cls* is inside a function that runs at call time
    (reachable from the parsing entry points), never at module level or in import-time code: the
    instance then lives no longer than the call that made it (unless it is stored in module state,
    which the module-write rule reports on its own)."""
    key = (id(ctx), cls)
    if key in _ALLOC_CACHE:
        return _ALLOC_CACHE[key]
    cg = e5.get_callgraph(ctx) if hasattr(e5, "get_callgraph") else None
    sites = 0
    ok = True
    for mn, m in ctx.model.mods.items():
        if not mn.startswith("ctparse"):
            continue
        for n in ast.walk(m.tree):
            if isinstance(n, ast.Call) and isinstance(n.func, ast.Name) and n.func.id == cls:
                sites += 1
                cur = getattr(n, "_parent", None)
                fn = None
                while cur is not None:
                    if isinstance(cur, (ast.FunctionDef, ast.AsyncFunctionDef)):
                        fn = cur
                        break
                    cur = getattr(cur, "_parent", None)
                if fn is None:
                    ok = False        # module level: lives as long as the process
                else:
                    q = getattr(fn, "_qual", fn.name)
                    if _REACH is not None and (mn, q) not in _REACH:
                        ok = False    # created by code that does not run per parse (import time)
    res = ok and sites > 0
    _ALLOC_CACHE[key] = res
    return res


_REACH = None


def _writes(ctx, rep, cg, reach, mstate):
    global _REACH, _CTX
    _REACH = set(reach)
    _CTX = ctx
    _ALLOC_CACHE.clear()
    n_fun = 0
    for key in sorted(reach):
        fi = cg.funcs[key]
        n_fun += 1
        ws = e5.writes_in(fi, ctx, mstate)
        caches = e5.cache_constructs(fi)
        c0 = "{}::{}".format(fi.mod.rel, fi.qual)
        bad_any = False
        for kind, target, node in ws:
            if (fi.mod.name, fi.qual, kind) in ALLOWED:
                continue
            rule = None
            if kind in ("global-rebind", "module-store", "module-mutate"):
                if target in ("logger", "logging"):
                    continue
                rule = "no-module-write"
                det = "{} of module-level '{}' at call time: {}".format(kind, target, norm(node)[:70])
            elif kind in ("nonlocal-rebind", "closure-store", "closure-mutate"):
                # a closure cell written at call time is per-call only if the enclosing
                # function itself runs at call time (then the cell is frame-local)
                outer = (fi.mod.name, fi.qual.rsplit(".", 1)[0])
                if outer in reach and not _import_time_only(cg, outer):
                    continue
                rule = "no-hidden-memory"
                det = "closure state '{}' written at call time: {}".format(target, norm(node)[:70])
            elif kind in ("param-store", "param-mutate"):
                if _only_fresh_arguments(cg, fi, target):
                    continue     # every caller hands in a container it has just created
                rule = "arguments-unmodified"
                det = "parameter '{}' is modified: {}".format(target, norm(node)[:70])
            elif kind in ("self-store", "self-mutate"):
                if _per_call_class(ctx, fi) or fi.node.name == "__init__":
                    continue
                rule = "arguments-unmodified"
                det = "method of a long-lived object writes its own state at call time: {}".format(
                    norm(node)[:70])
            if rule:
                bad_any = True
                rep.violated(rule, "{}::{}::{}".format(c0, kind, target), fi.mod.where(node), det)
        for kind, target, node in caches:
            bad_any = True
            rep.violated("no-hidden-memory", "{}::{}::{}".format(c0, kind, target), fi.mod.where(node),
                         "{} '{}' keeps state between calls".format(kind, target))
        if not bad_any:
            rep.ok("no-module-write", c0, fi.mod.where(fi.node), nontrivial=bool(ws))
    # writers that exist must be import-time only (informational: listed)
    writers = []
    for key, fi in cg.funcs.items():
        if key in reach:
            continue
        for kind, target, node in e5.writes_in(fi, ctx, mstate):
            if kind in ("global-rebind", "module-store", "module-mutate"):
                writers.append("{}::{} -> {}".format(fi.mod.rel, fi.qual, target))
    rep.notes.append("import-time writers of module state: {}".format(sorted(set(writers))[:12]))


def _fresh_expr(e, caller, site=None):
    """A container created on the spot (literal, comprehension, constructor call, slice copy),
    or a local name whose definitions that can reach *site* are all such expressions."""
    if isinstance(e, (ast.Dict, ast.List, ast.Set, ast.ListComp, ast.DictComp, ast.SetComp)):
        return True
    if isinstance(e, ast.Call) and isinstance(e.func, ast.Name) and e.func.id in (
            "dict", "list", "set", "defaultdict", "OrderedDict", "Counter", "deque", "sorted"):
        return True
    if isinstance(e, ast.Subscript) and isinstance(e.slice, ast.Slice):
        return True       # a slice of a list is a new list
    if isinstance(e, ast.Call) and isinstance(e.func, ast.Name) and not e.args and not e.keywords \
            and _fresh_instance_class(e.func.id):
        return True       # an instance, made here, of a package class whose state is made per instance
    if isinstance(e, ast.Call) and _returns_fresh(e):
        return True       # a package function / method that hands back a container it has just made
    if isinstance(e, ast.Name):
        params = {a.arg for a in caller.args.args}
        assigns = [a for a in ast.walk(caller) if isinstance(a, ast.Assign)
                   and any(isinstance(t, ast.Name) and t.id == e.id for t in a.targets)]
        if e.id in params:
            # the parameter's own value reaches the site unless a statement of the function body
            # (not nested in a branch or loop) assigns the name before the statement of the site
            if site is None:
                return False
            top = None
            for i, st_ in enumerate(caller.body):
                if any(x is site for x in ast.walk(st_)):
                    top = i
            killed = None
            if top is not None:
                for i, st_ in enumerate(caller.body[:top]):
                    if st_ in assigns:
                        killed = i
            if killed is None:
                return False
            assigns = [a for a in assigns if a is caller.body[killed] or a.lineno > caller.body[killed].lineno]
        if site is not None:
            # definitions that can reach the call: those before it, and those anywhere in a loop
            # that contains it
            loops = []
            cur = getattr(site, "_parent", None)
            while cur is not None and cur is not caller:
                if isinstance(cur, (ast.For, ast.While)):
                    loops.append(cur)
                cur = getattr(cur, "_parent", None)
            reach = []
            for a in assigns:
                in_loop = any(any(x is a for x in ast.walk(l)) for l in loops)
                if a.lineno < site.lineno or in_loop:
                    reach.append(a)
            assigns = reach
        vals = [a.value for a in assigns]
        return bool(vals) and all(_fresh_expr(v, caller) for v in vals if not isinstance(v, ast.Name))
    return False


_FRESH_DEPTH = [0]


def _returns_fresh(call):
    """the callee is the one package function or method of that name, and every value it returns is
    a container created in the callee (directly or by such a function again)"""
    if _CTX is None or _FRESH_DEPTH[0] > 3:
        return False
    f = call.func
    nm = f.id if isinstance(f, ast.Name) else (f.attr if isinstance(f, ast.Attribute) else None)
    if nm is None:
        return False
    cands = []
    for mn, m in _CTX.model.mods.items():
        if mn.startswith("ctparse"):
            cands.extend(fn for q, fn in m.funcs.items() if q == nm or q.endswith("." + nm))
    if len(cands) != 1:
        return False
    g = cands[0]
    own = []
    stack = list(g.body)
    while stack:
        x = stack.pop()
        if isinstance(x, (ast.FunctionDef, ast.AsyncFunctionDef, ast.Lambda, ast.ClassDef)):
            continue
        own.append(x)
        stack.extend(ast.iter_child_nodes(x))
    if any(isinstance(x, (ast.Yield, ast.YieldFrom)) for x in own):
        return False
    rets = [x for x in own if isinstance(x, ast.Return)]
    if not rets or any(r.value is None for r in rets):
        return False
    _FRESH_DEPTH[0] += 1
    try:
        return all(_fresh_expr(r.value, g, r) for r in rets)
    finally:
        _FRESH_DEPTH[0] -= 1


_CTX = None
_FRESH_FACTORIES = ("dict", "list", "set", "defaultdict", "OrderedDict", "Counter", "deque")


def _fresh_instance_class(name):
    """A class of the package whose instances, built without arguments, share nothing: a dataclass
    whose fields have immutable defaults or default_factory=<container type>, or a class whose
    __init__ (no parameters but self) stores only containers created on the spot and constants;
    no class-level container attribute."""
    if _CTX is None:
        return False
    cdef = None
    for mn, m in _CTX.model.mods.items():
        if mn.startswith("ctparse") and name in m.classes:
            cdef = m.classes[name]
    if cdef is None:
        return False

    def immutable(v):
        return isinstance(v, ast.Constant) or (isinstance(v, ast.Tuple) and all(immutable(x) for x in v.elts)) \
            or (isinstance(v, ast.UnaryOp) and isinstance(v.operand, ast.Constant))
    is_dc = any("dataclass" in norm(d) for d in cdef.decorator_list)
    init = None
    for st in cdef.body:
        if isinstance(st, ast.FunctionDef):
            if st.name == "__init__":
                init = st
            continue
        if isinstance(st, ast.Expr) and isinstance(st.value, ast.Constant):
            continue
        if isinstance(st, ast.Pass):
            continue
        if isinstance(st, ast.AnnAssign):
            v = st.value
            if v is None:
                return False          # a field without default: cannot be built without arguments
            if immutable(v):
                continue
            if is_dc and isinstance(v, ast.Call) and e1.callee_name(v.func) == "field":
                kw = {k.arg: k.value for k in v.keywords}
                fac = kw.get("default_factory")
                if fac is not None and isinstance(fac, ast.Name) and fac.id in _FRESH_FACTORIES:
                    continue
                if "default" in kw and immutable(kw["default"]):
                    continue
            return False
        if isinstance(st, ast.Assign):
            if immutable(st.value) or all(isinstance(t, ast.Name) and t.id == "__slots__" for t in st.targets):
                continue
            return False
        return False
    if cdef.bases and not all(norm(b) in ("object",) for b in cdef.bases):
        return False
    if init is not None:
        if len(init.args.args) != 1 or init.args.vararg or init.args.kwarg or init.args.kwonlyargs:
            return False
        for st in init.body:
            if isinstance(st, ast.Expr) and isinstance(st.value, ast.Constant):
                continue
            if isinstance(st, (ast.Assign, ast.AnnAssign)):
                v = st.value
                if v is not None and (immutable(v) or _fresh_expr(v, init)):
                    continue
            return False
    elif not is_dc:
        return False
    return True


def _only_fresh_arguments(cg, fi, pname):
    """Is parameter *pname* of fi bound, at every call site in the package, to a container the
    caller created itself?"""
    f = fi.node
    names = [a.arg for a in f.args.args]
    if pname not in names:
        return False
    idx = names.index(pname)
    if getattr(f, "_cls", None) and names and names[0] in ("self", "cls"):
        idx -= 1
    sites = 0
    for other in cg.funcs.values():
        for c in ast.walk(other.node):
            if not isinstance(c, ast.Call):
                continue
            fn = c.func
            nm = fn.id if isinstance(fn, ast.Name) else (fn.attr if isinstance(fn, ast.Attribute) else None)
            cargs = c.args
            if nm == "partial" and c.args and isinstance(c.args[0], ast.Name) and c.args[0].id == f.name:
                # functools.partial(f, a, b): a call of f whose first arguments are bound here
                cargs = c.args[1:]
                if not (0 <= idx < len(cargs)) and not any(k.arg == pname for k in c.keywords):
                    return False      # the parameter is supplied later, by a caller we do not see
            elif nm != f.name:
                continue
            arg = None
            if 0 <= idx < len(cargs):
                arg = cargs[idx]
            for k in c.keywords:
                if k.arg == pname:
                    arg = k.value
            if arg is None:
                continue      # default value used
            sites += 1
            if not _fresh_expr(arg, other.node, c):
                return False
    return sites > 0


def _import_time_only(cg, key):
    return False


def _productions(ctx, rep):
    eng = get_engine(ctx)
    n = 0
    for (ri, name), runs in sorted(grouped_runs(eng).items()):
        rule = runs[0].rule
        effs = {}
        for run in runs:
            for p in run.paths:
                n += 1
                for e in p.effects:
                    effs.setdefault((e.construct, str(e.obj_sym), e.field), e)
        if effs:
            for (c, osym, field), e in sorted(effs.items()):
                k = c if c.startswith(rule.mod.rel + "::" + rule.name) else \
                    "{}::{} -> {}".format(rule.mod.rel, rule.name, c)
                rep.violated("productions-pure", k, e.where,
                             "stores into field '{}' of {} (a value shared between partial "
                             "parses)".format(field, osym),
                             witness={"via": [x[1] for x in e.via]})
        else:
            rep.ok("productions-pure", rule_construct(rule, "inputs unmodified"), rule.where)
    # latent layer
    effs = {}
    for key, (shape, paths, err) in eng.latent.items():
        for p in paths:
            for e in p.effects:
                effs.setdefault((e.construct, str(e.obj_sym), e.field), e)
    for (c, osym, field), e in sorted(effs.items()):
        rep.violated("productions-pure", c, e.where, "latent rewrite stores into field '{}' of its input".format(field))
    if not effs:
        rep.ok("productions-pure", "ctparse/time/postprocess_latent.py::inputs unmodified",
               "ctparse/time/postprocess_latent.py")
    report_undecided(rep, eng)
    rep.count("production_paths", n, 500)


def _order(ctx, rep):
    """Sets whose iteration reaches a result."""
    n = 0
    for mn, m in ctx.model.mods.items():
        if not mn.startswith("ctparse") or "corpus" in mn:
            continue
        for q, f in m.funcs.items():
            set_names = {}
            live = {}
            assigns = sorted([a for a in ast.walk(f) if isinstance(a, ast.Assign) and len(a.targets) == 1
                              and isinstance(a.targets[0], ast.Name)], key=lambda a: a.lineno)
            for a in assigns:
                v = a.value
                nm = a.targets[0].id
                if isinstance(v, (ast.Set, ast.SetComp)) or (
                        isinstance(v, ast.Call) and isinstance(v.func, ast.Name) and v.func.id in ("set", "frozenset")):
                    set_names[nm] = v
                    # the binding is a set from this line up to the next rebinding of the name
                    nxt = [b.lineno for b in assigns if b.targets[0].id == nm and b.lineno > a.lineno]
                    live[nm] = (a.lineno, min(nxt) if nxt else 10 ** 9)
            for name, v in set_names.items():
                n += 1
                c = "{}::{}::set {}".format(m.rel, q, name)
                # every iteration of the set must be under sorted(...) with no key (total
                # order on the elements) or the elements must hash seed-independently
                elem_cls = None
                if isinstance(v, ast.SetComp) and isinstance(v.elt, ast.Call) and isinstance(v.elt.func, ast.Name):
                    elem_cls = v.elt.func.id
                else:
                    # set(<generators ...>): the elements are what the innermost generators yield
                    leaves = []
                    for g in ast.walk(v):
                        if isinstance(g, (ast.GeneratorExp, ast.ListComp, ast.SetComp)) and \
                                not isinstance(g.elt, (ast.GeneratorExp, ast.ListComp, ast.SetComp)):
                            leaves.append(g.elt)
                    ctor = {l.func.id for l in leaves if isinstance(l, ast.Call) and isinstance(l.func, ast.Name)
                            and any(l.func.id in mm.classes for mm in ctx.model.mods.values())}
                    if leaves and len(ctor) == 1 and all(isinstance(l, ast.Call) and isinstance(l.func, ast.Name)
                                                         and l.func.id in ctor for l in leaves):
                        elem_cls = ctor.pop()
                int_hashed = elem_cls is not None and _int_hashed(ctx, elem_cls)
                hash_unknown = elem_cls is not None and int_hashed is None
                int_hashed = bool(int_hashed)
                # what the elements are is not visible (built elsewhere): hash order cannot be judged
                fills = [v]
                for u_ in ast.walk(f):
                    if isinstance(u_, ast.Call) and isinstance(u_.func, ast.Attribute) and u_.func.attr in ("add", "update") \
                            and isinstance(u_.func.value, ast.Name) and u_.func.value.id == name:
                        for a_ in u_.args:
                            fills.append(a_)
                            # a loop variable stands for the elements of what it iterates
                            if isinstance(a_, ast.Name):
                                for l_ in ast.walk(f):
                                    if isinstance(l_, ast.For) and isinstance(l_.target, ast.Name) and l_.target.id == a_.id:
                                        fills.append(l_.iter)
                unknown_elems = (elem_cls is None and not any(_str_elements(x) for x in fills)) or hash_unknown
                bad = None
                for u in ast.walk(f):
                    it = None
                    ln = getattr(u, "lineno", None)
                    if ln is None and isinstance(u, ast.comprehension):
                        ln = getattr(u.iter, "lineno", None)
                    if ln is not None and not (live[name][0] < ln <= live[name][1]):
                        continue
                    if isinstance(u, ast.For):
                        it = u.iter
                    elif isinstance(u, ast.comprehension):
                        it = u.iter
                    elif isinstance(u, ast.Call) and isinstance(u.func, ast.Name) and u.func.id in ("list", "tuple", "sorted", "enumerate") and u.args:
                        it = u.args[0]
                        if u.func.id == "sorted":
                            has_key = any(k.arg == "key" for k in u.keywords)
                            if isinstance(it, ast.Name) and it.id == name and has_key and not int_hashed:
                                bad = bad or "sorted with a key (ties keep the set's hash order) over str-hashed elements"
                            continue
                    if isinstance(it, ast.Name) and it.id == name and not int_hashed:
                        par = getattr(u, "_parent", None)
                        bad = bad or "iterated in hash order: elements are not hashed over integers only"
                if bad is not None and unknown_elems:
                    rep.undecided("order-determinism", c, m.where(v),
                                  "the set is iterated unsorted and the kind of its elements is not visible here "
                                  "(integers and integer-hashed objects iterate the same way in every process)")
                else:
                    rep.add("order-determinism", c, m.where(v), bad is None,
                            bad or ("elements hashed over integers" if int_hashed else "only iterated under a total sort"))
    rep.count("sets", n, 1)


def _str_elements(v):
    """the set expression visibly collects strings (split / findall results, string constants)"""
    for n in ast.walk(v):
        if isinstance(n, ast.Call) and isinstance(n.func, ast.Attribute) and n.func.attr in (
                "split", "findall", "lower", "upper", "strip", "captures", "group", "groups", "keys"):
            return True
        if isinstance(n, ast.Constant) and isinstance(n.value, str):
            return True
        if isinstance(n, ast.Call) and isinstance(n.func, ast.Name) and n.func.id in ("str", "repr"):
            return True
    return False


def _int_hashed(ctx, cls_name):
    """The class's hash attribute list names only attributes assigned from integers."""
    tm = None
    for mn, m in ctx.model.mods.items():
        if cls_name in m.classes and mn.startswith("ctparse"):
            tm = m
    if tm is None:
        return False
    init = tm.funcs.get(cls_name + ".__init__")
    if init is None:
        return False
    attrs = None
    assigned = {}
    params = {a.arg: a for a in init.args.args}
    # local names of the constructor: every definition (tuple targets are split; an element of
    # an unpacked call result is written as <call>[i])
    params = dict(params)
    local_defs = {}

    def bind(t, v):
        if isinstance(t, ast.Name):
            local_defs.setdefault(t.id, []).append(v)
        elif isinstance(t, ast.Attribute) and norm(t.value) == "self":
            assigned.setdefault(t.attr, []).append(v)
        elif isinstance(t, (ast.Tuple, ast.List)):
            if isinstance(v, (ast.Tuple, ast.List)) and len(v.elts) == len(t.elts):
                for tt, vv in zip(t.elts, v.elts):
                    bind(tt, vv)
            else:
                for i, tt in enumerate(t.elts):
                    bind(tt, ast.Subscript(value=v, slice=ast.Constant(value=i), ctx=ast.Load()))
    for a in ast.walk(init):
        if isinstance(a, ast.Assign):
            for t in a.targets:
                if isinstance(t, ast.Attribute) and norm(t.value) == "self" and t.attr == "_attrs" \
                        and isinstance(a.value, (ast.List, ast.Tuple)):
                    attrs = [e.value for e in a.value.elts if isinstance(e, ast.Constant)]
                bind(t, a.value)
        elif isinstance(a, ast.AnnAssign) and a.value is not None:
            bind(a.target, a.value)
    params["__locals__"] = local_defs
    if attrs is None:
        # a class-level list (possibly built from a base class's): folded
        cref = ctx.model.env(tm.name).get(cls_name)
        if isinstance(cref, e1.ClassRef):
            try:
                v = e1.PureEval(ctx.model, tm, ctx.model.env(tm.name)).ev(
                    ast.Attribute(value=ast.Name(id=cls_name, ctx=ast.Load()), attr="_attrs", ctx=ast.Load()), {})
                if isinstance(v, (list, tuple)) and all(isinstance(x, str) for x in v):
                    attrs = list(v)
            except Undecided:
                attrs = None
    if attrs is None:
        return None       # not visible here: the caller leaves the question open
    for at in attrs:
        vals = assigned.get(at)
        if not vals:
            # inherited default (span fields are ints)
            if at in ("mstart", "mend"):
                continue
            return False
        unknown = False
        for v in vals:
            r = _is_int_expr(v, params)
            if r is False:
                return False
            if r is None:
                unknown = True
        if unknown:
            return None       # an attribute whose kind is not visible here: the question stays open
    return True


def _all3(results):
    results = list(results)
    if any(r is False for r in results):
        return False
    if any(r is None for r in results):
        return None
    return True


def _is_int_expr(v, params):
    """True: an int; False: certainly something else (a string, a float, a container);
    None: not visible here"""
    if isinstance(v, ast.Constant):
        if isinstance(v.value, int):
            return True
        if v.value is None:
            return None
        return False
    if isinstance(v, (ast.JoinedStr, ast.List, ast.Tuple, ast.Dict, ast.Set, ast.ListComp, ast.DictComp, ast.SetComp)):
        return False
    if isinstance(v, ast.Name):
        defs = params.get("__locals__", {}).get(v.id)
        if defs:
            seen = params.setdefault("__seen__", set())
            if v.id in seen:
                return True
            seen.add(v.id)
            try:
                return _all3(_is_int_expr(d, params) for d in defs)
            finally:
                seen.discard(v.id)
        p = params.get(v.id)
        if p is not None and hasattr(p, "annotation") and p.annotation is not None:
            an = norm(p.annotation)
            if an == "int":
                return True
            if an in ("str", "float", "bytes") or an.startswith(("List", "Dict", "Tuple", "Set")):
                return False
        return None
    if isinstance(v, ast.BinOp):
        return _all3([_is_int_expr(v.left, params), _is_int_expr(v.right, params)])
    if isinstance(v, ast.Subscript):
        # m.span(key)[0]
        if isinstance(v.value, ast.Call) and isinstance(v.value.func, ast.Attribute) and \
                v.value.func.attr in ("span", "regs"):
            return True
        return None
    if isinstance(v, ast.Call) and isinstance(v.func, ast.Name) and v.func.id in ("len", "int"):
        return True
    if isinstance(v, ast.Call) and isinstance(v.func, ast.Name) and v.func.id in ("str", "repr", "float", "format"):
        return False
    if isinstance(v, ast.Call) and isinstance(v.func, ast.Attribute) and v.func.attr in ("start", "end"):
        return True
    if isinstance(v, ast.Call) and isinstance(v.func, ast.Attribute) and v.func.attr in (
            "group", "strip", "lower", "upper", "format", "join", "replace", "lstrip", "rstrip", "captures"):
        return False
    return None


def _positive(ctx, rep):
    """The detector must flag the synthetic cache on every run (expected count of the
    real rule is zero)."""
    import types
    tree = ast.parse(POSITIVE_EXAMPLE)
    for node in ast.walk(tree):
        for ch in ast.iter_child_nodes(node):
            ch._parent = node
    f = [n for n in tree.body if isinstance(n, ast.FunctionDef)][0]
    f._qual = "lookup"
    f._cls = None

    class _M:
        name = "synthetic"
        rel = "<synthetic>"
    fi = e5.FuncInfo(_M(), "lookup", f)
    ws = e5.writes_in(fi, ctx, {("synthetic", "_CACHE"): None})
    kinds = {k for k, t, n in ws}
    ok = "module-store" in kinds and "global-rebind" in kinds
    rep.add("positive-example", "<synthetic>::lookup", "<synthetic>", ok,
            "" if ok else "write detector did not flag the synthetic cache: {}".format(sorted(kinds)),
            nontrivial=False)
