"""C05 — absolute dates/times mean what they say, independent of the reference time
(DESIGN.md §4 C05)."""
import ast

from ..core import AnalysisError, Undecided
from .. import e2_regex as e2
from ..e3_rules import get_engine
from ..e3_values import *  # noqa
from ..e3_values import sym_mentions
from .common import rule_construct, report_undecided, grouped_runs, shapes_desc
from .lang import accepts
from .relspec import Summary

F5 = ("year", "month", "day", "hour", "minute")
MONTHS_EN = ["january", "february", "march", "april", "may", "june", "july", "august",
             "september", "october", "november", "december"]
MONTHS_DE = ["januar", "februar", "märz", "april", "mai", "juni", "juli", "august", "september",
             "oktober", "november", "dezember"]
TS = ("ts",)


def check(ctx, rep, tier):
    eng = get_engine(ctx)
    rep.describe("non-interference", "on every path of every production no returned value "
                 "mixes fields that depend on the reference time with written fields that do "
                 "not, and no path condition depends on the reference time while the value is "
                 "built from written fields — except the two-digit branch of the bare-year "
                 "rule and the military-time heuristic (located by role)")
    rep.describe("two-digit-year", "all productions that read a year group admitting two "
                 "digits map it to the same four-digit year for every reference year")
    rep.describe("accepts-valid-dates", "a production that assembles day and month (and year) "
                 "from written parts returns a value for every combination that is a real "
                 "calendar date (evaluation of its path conditions over all combinations)")
    rep.describe("field-names", "a date/time field of a constructed value is never fed from a "
                 "group or attribute named after a different date/time field")
    rep.describe("month-names", "every English and German month name is accepted exactly by "
                 "groups that make the rule return that month's number")
    _noninterference(ctx, rep, eng)
    _accepts_valid_dates(ctx, rep, eng)
    _two_digit(ctx, rep, eng)
    _field_names(ctx, rep, eng)
    _month_names(ctx, rep, eng)
    from . import spellings
    spellings.check(ctx, rep, "month-spellings", lambda g: g in ("january","february","march","april","may","june","july","august","september","october","november","december","named_month"), floor=2)
    report_undecided(rep, eng)
    rep.assume("not decided: that all notations select the same candidate (ranking); regex "
               "coverage of every notation")


def _result_objs(p):
    """Time-like objects of a returned value (the value itself or interval ends)."""
    if p.kind != "ret" or not isinstance(p.val, RefV):
        return []
    obj = p.st.heap[p.val.oid]
    if "t_from" in obj.attrs:
        out = []
        for side in ("t_from", "t_to"):
            v = obj.attrs.get(side)
            if isinstance(v, RefV) and p.st.heap[v.oid].fresh:
                out.append(p.st.heap[v.oid])
        return out
    return [obj] if obj.fresh and "year" in obj.attrs else []


def _military_rules(ctx):
    out = set()
    for r in ctx.rb.rules:
        if len(r.pats) == 1 and r.pats[0].kind == "regex" and accepts(ctx, r.pats[0].value, "1230"):
            out.add(r.name)
    return out


def _written_fields(ctx, run):
    """Date/time fields some input of this run carries as a written value."""
    out = set()
    for pat, sh in zip(run.rule.pats, run.shapes):
        if pat.kind == "regex":
            _, P = ctx.wrapped(pat.value)
            out |= {g for g in P.groups if g in F5}
        elif sh is not None:
            for x in [sh] + [v for v in sh.attrs.values() if hasattr(v, "attrs")]:
                out |= {f for f in F5 if isinstance(x.attrs.get(f), IntV)}
    return out


_TS_SAMPLES = None


def _varies_with_ts(eng, p, term):
    """Semantic dependence: does the term take two different values for two reference
    times while every other leaf is fixed (on valuations consistent with the path)?
    Undecidable terms count as dependent."""
    global _TS_SAMPLES
    import itertools
    from .. import e4_order as e4
    from ..e3_rules import _leaf_domain
    from .relspec import leaves_of, ts_sweep
    if _TS_SAMPLES is None:
        sw = ts_sweep("quick")
        from .relspec import stride as _stride
        _TS_SAMPLES = sw[::_stride(len(sw), 60)] + sw[-30:]
    leaves = set()
    leaves_of(term, leaves)
    conds = []
    for c, t in p.conds:
        lc = set()
        leaves_of(c, lc)
        conds.append((c, t))
        leaves |= lc
    order = sorted(leaves, key=repr)
    others = [l for l in order if l != TS]
    doms = []
    for l in others:
        dm = _leaf_domain(eng.interp, p.st, l)
        if dm is None:
            if isinstance(l, tuple) and l and l[0] in ("startswith", "endswith", "in"):
                dm = [True, False]
            else:
                return True
        if len(dm) > 7:
            step = max(1, len(dm) // 6)
            dm = sorted(set(dm[::step]) | {dm[0], dm[-1]})
        doms.append(dm)
    try:
        f = e4.compile_path(conds, [term], order)
    except Undecided:
        return True
    ti = order.index(TS) if TS in order else None
    if ti is None:
        return False
    size = 1
    for d_ in doms:
        size *= len(d_)
    if size > 4000:
        return True
    for combo in itertools.product(*doms):
        seen = set()
        for ts in _TS_SAMPLES:
            a = list(combo)
            a.insert(ti, ts)
            r = f(a)
            if r is not None:
                seen.add(r[0])
                if len(seen) > 1:
                    return True
    return False


_CLOCK_GROUPS = {}


def _explicit_clock(ctx, rule, p):
    """Does this path handle a match in which a group accepting 'uhr' participated?"""
    text = rule.pats[0].value
    if text not in _CLOCK_GROUPS:
        _, P = ctx.wrapped(text)
        from .lang import _strip_looks
        names = set()
        for g in P.groups:
            if g.startswith(("R", "_")):
                continue
            try:
                nfa = e2.build_nfa(_strip_looks(P.group(g).child), P)
            except Undecided:
                continue
            if 3 in e2.nfa_match_prefixes(nfa, "uhr"):
                names.add(g)
        _CLOCK_GROUPS[text] = names
    names = _CLOCK_GROUPS[text]
    moid = [o.oid for o in p.st.heap.values() if o.sym == ("param", 0, rule.params[1])]
    cfgs = p.st.cfg.get(moid[0]) if moid else None
    return bool(names) and bool(cfgs) and all(names & cfg for cfg in cfgs)


def _conds_mention_ts(conds):
    for sym, _ in conds:
        if sym_mentions(sym, TS):
            return True
    return False


def _noninterference(ctx, rep, eng):
    military = _military_rules(ctx)
    n = 0
    for (ri, name), runs in sorted(grouped_runs(eng).items()):
        rule = runs[0].rule
        bad = None
        uses_ts = False
        for run in runs:
            for p in run.paths:
                objs = _result_objs(p)
                ctrl = _conds_mention_ts(p.conds)
                for o in objs:
                    n += 1
                    dep = {}
                    for f in F5:
                        v = o.attrs.get(f)
                        if isinstance(v, IntV):
                            dep[f] = sym_mentions(v.sym, TS)
                    if any(dep.values()):
                        uses_ts = True
                    written = _written_fields(ctx, run)
                    if set(dep) == {"year"}:
                        written = written - {"year"}     # the bare-year rule's two-digit window
                    for f in sorted(written & set(dep)):
                        if dep[f] and _varies_with_ts(eng, p, o.attrs[f].sym):
                            bad = bad or "field {} is written in the text but its value changes with the " \
                                "reference time".format(f)
                    if ctrl and dep and not any(dep.values()):
                        uses_ts = True
                        if name not in military:
                            bad = bad or "a condition on the reference time decides a value built from written fields"
                if ctrl and name in military and _explicit_clock(ctx, rule, p):
                    bad = bad or "a time written with an explicit clock marker (uhr/h) still depends on the " \
                        "reference time (the year heuristic is only for bare hhmm)"
                if ctrl and p.is_none() and not objs:
                    # rejecting depending on ts: only the military heuristic may
                    if name not in military and not _ts_only_rule(run):
                        bad = bad or "the rule accepts or rejects depending on the reference time"
        c = rule_construct(rule, "reference-time dependence")
        rep.add("non-interference", c, rule.where, bad is None,
                bad or ("uses the reference time coherently" if uses_ts else "independent"))
    rep.count("result_values_examined", n, 200)


def _accepts_valid_dates(ctx, rep, eng):
    import datetime as _dt
    import itertools
    from .. import e4_order as e4
    from ..e3_rules import _leaf_domain
    from .relspec import leaves_of
    from .common import grouped_runs as _gr
    n_rules = 0
    for (ri, name), runs in sorted(_gr(eng).items()):
        rule = runs[0].rule
        bad = None
        checked = 0
        relevant = False
        for run in runs:
            nn = []
            for p in run.paths:
                for o in _result_objs(p):
                    if p.val.oid != o.oid:
                        continue
                    m, d, y = o.attrs.get("month"), o.attrs.get("day"), o.attrs.get("year")
                    if not (isinstance(m, IntV) and isinstance(d, IntV)):
                        continue
                    if any(sym_mentions(v.sym, TS) for v in (m, d) + ((y,) if isinstance(y, IntV) else ())):
                        continue
                    if _copied_from_one(m, d, y):
                        continue
                    nn.append((p, y if isinstance(y, IntV) else None, m, d))
            if not nn:
                continue
            relevant = True
            # all paths of this run (incl. rejecting ones) share the leaves
            for p, y, m, d in nn:
                terms = [y.sym if y is not None else None, m.sym, d.sym]
                leaves = set()
                for t in terms:
                    if t is not None:
                        leaves_of(t, leaves)
                paths = [q for q in run.paths if q.kind == "ret"]
                for q in paths:
                    for c, _ in q.conds:
                        leaves_of(c, leaves)
                order = sorted(leaves, key=repr)
                doms = []
                size = 1
                ok_dom = True
                for l in order:
                    dm = _leaf_domain(eng.interp, p.st, l)
                    if dm is None:
                        ok_dom = False
                        break
                    doms.append(dm)
                    size *= max(1, len(dm))
                if not ok_dom or size > 300000:
                    continue
                try:
                    f_terms = e4.compile_path([], terms, order)
                    f_paths = [e4.compile_path(q.conds, [], order) for q in paths
                               if isinstance(q.val, RefV)]
                except Undecided:
                    continue
                for combo in itertools.product(*doms):
                    a = list(combo)
                    r = f_terms(a)
                    if r is None:
                        continue
                    yy, mm, dd = r
                    try:
                        _dt.date(int(yy) if yy is not None else 2000, int(mm), int(dd))
                    except (ValueError, TypeError, OverflowError):
                        continue
                    checked += 1
                    if not any(fp(a) is not None for fp in f_paths):
                        bad = bad or "the valid date {}-{}-{} is rejected".format(yy if yy is not None else "X", mm, dd)
                        break
                if bad:
                    break
            if bad:
                break
        if relevant and checked:
            n_rules += 1
            rep.add("accepts-valid-dates", rule_construct(rule, "valid dates accepted"), rule.where, bad is None,
                    bad or "{} valid combinations".format(checked))
    rep.count("date_assembling_rules", n_rules, 5)


def _copied_from_one(m, d, y):
    srcs = set()
    for f, v in (("month", m), ("day", d), ("year", y)):
        if not isinstance(v, IntV):
            continue
        s = v.sym
        if isinstance(s, tuple) and len(s) == 3 and s[0] in ("attr", "dtfield") and s[2] == f:
            srcs.add(s[1])
        else:
            return False
    return len(srcs) == 1


def _ts_only_rule(run):
    """Rules whose returned fields all come from the reference time may branch on it."""
    for p in run.paths:
        for o in _result_objs(p):
            for f in F5:
                v = o.attrs.get(f)
                if isinstance(v, IntV) and not sym_mentions(v.sym, TS):
                    return False
    return True


def _two_digit(ctx, rep, eng):
    maps = {}
    for rule in ctx.rb.rules:
        if not (len(rule.pats) == 1 and rule.pats[0].kind == "regex"):
            continue
        text = rule.pats[0].value
        _, P = ctx.wrapped(text)
        ygroups = []
        for gname in P.groups:
            if gname.startswith(("R", "_")):
                continue
            rng = e2.int_range_of_group(P, gname)
            if rng and 1900 <= rng[1] < 10000 and rng[0] < 100:
                ygroups.append(gname)
        if not ygroups:
            continue
        runs = [run for mk, run in eng.runs.items() if run.rule is rule]
        try:
            summ = Summary([p for run in runs for p in run.paths], want_fields=("year",))
        except Undecided as e:
            rep.undecided("two-digit-year", rule_construct(rule, "year group"), rule.where, str(e))
            continue
        leaf = ("int", ("group", text, ygroups[0]))
        import datetime as _dt
        m = {}
        other = [l for l in summ.order if l != leaf and l != TS]
        for ty in (1975, 1999, 2020, 2021, 2089, 2100):
            for y in range(0, 100):
                val = {leaf: y, TS: _dt.datetime(ty, 6, 15, 12, 0)}
                for l in other:
                    val[l] = 1 if l[0] == "int" else None
                res = summ.evaluate(val)
                years = {r[1]["year"] for r in res if r[0] != "none"}
                m[(ty, y)] = years
        maps[rule.name] = (rule, m)
    rep.count("two_digit_year_rules", len(maps), 2)
    names = sorted(maps)
    if len(names) < 2:
        return
    ref_name = names[0]
    for other_name in names[1:]:
        rule, m = maps[other_name]
        ref = maps[ref_name][1]
        diff = None
        for k in sorted(m):
            a, b = ref.get(k, set()), m[k]
            if a and b and a != b:
                diff = (k, a, b)
                break
        c = "{} vs {}".format(rule_construct(maps[ref_name][0], "two-digit year"),
                              rule_construct(rule, "two-digit year"))
        if diff is not None:
            # the convention of each sibling is part of the finding's identity
            c += " [{}: {}; {}: {}]".format(ref_name, _convention(ref), other_name, _convention(m))
        rep.add("two-digit-year", c, rule.where, diff is None,
                "" if diff is None else "reference year {}: '{:02d}' becomes {} in {} but {} in {}".format(
                    diff[0][0], diff[0][1], sorted(diff[1]), ref_name, sorted(diff[2]), other_name),
                witness=None if diff is None else {"reference_year": diff[0][0], "yy": diff[0][1]})


def _field_names(ctx, rep, eng):
    fields = set(F5) | {"DOW", "POD"}
    by_site = {}
    for site, where, cls, attrs, cal, root in eng.construct_log:
        if "year" not in attrs:
            continue
        e = by_site.setdefault(site, [where, None, 0])
        e[2] += 1
        for f in fields:
            v = attrs.get(f)
            s = getattr(v, "sym", None)
            src = None
            if isinstance(s, tuple) and len(s) == 2 and s[0] == "int" and isinstance(s[1], tuple) \
                    and s[1][0] == "group":
                src = s[1][2]
            elif isinstance(s, tuple) and len(s) == 3 and s[0] in ("attr", "dtfield"):
                src = s[2]
            if src in fields and src != f:
                e[1] = e[1] or "field {} is fed from '{}'".format(f, src)
    for site, (where, bad, n) in sorted(by_site.items()):
        rep.add("field-names", site, where, bad is None, bad or "{} constructions".format(n),
                nontrivial=bad is not None or n > 0)
    rep.count("time_sites", len(by_site), 30)


def _month_names(ctx, rep, eng):
    n_rules = 0
    for rule in ctx.rb.rules:
        pats = [p for p in rule.pats if p.kind == "regex"]
        if len(pats) != 1 or len(rule.pats) != 1:
            continue
        text = pats[0].value
        _, P = ctx.wrapped(text)
        groups = [g for g in P.groups if not g.startswith(("R", "_"))]
        nfas = {}
        for g in groups:
            try:
                nfas[g] = e2.build_nfa(P.group(g).child, P)
            except Undecided:
                continue
        acc = {}
        for i, (en, de) in enumerate(zip(MONTHS_EN, MONTHS_DE)):
            for w in (en, de):
                hits = [g for g, nfa in nfas.items() if len(w) in e2.nfa_match_prefixes(nfa, w)]
                # the innermost groups (a wrapper group around all names accepts every name)
                acc[(i + 1, w)] = hits
        if not any(acc.values()):
            continue
        leafy = {g for hits in acc.values() for g in hits}
        wrappers = {g for g in leafy if all(g in hits for hits in acc.values() if hits)}
        n_rules += 1
        # month returned per group configuration
        runs = [run for mk, run in eng.runs.items() if run.rule is rule]
        group_month = {}
        for run in runs:
            for p in run.paths:
                if p.kind != "ret" or not isinstance(p.val, RefV):
                    continue
                moid = [o.oid for o in p.st.heap.values() if o.sym == ("param", 0, rule.params[1])]
                cfgs = p.st.cfg.get(moid[0]) if moid else None
                mv = p.st.heap[p.val.oid].attrs.get("month")
                if cfgs and isinstance(mv, IntV) and mv.is_const():
                    for cfg in cfgs:
                        for g in cfg:
                            if g in leafy and g not in wrappers:
                                group_month.setdefault(g, set()).add(mv.lo)
        bad = None
        und = None
        for (num, w), hits in sorted(acc.items()):
            hits = [g for g in hits if g not in wrappers]
            vals = set()
            for g in hits:
                vals |= group_month.get(g, set())
            if not vals and hits:
                und = und or "no constant month found on the paths where group {} took part".format(hits[0])
            elif vals != {num}:
                bad = bad or "'{}' is accepted by groups {} which give month {} (expected {})".format(
                    w, hits, sorted(vals), num)
        if bad is None and und:
            rep.undecided("month-names", rule_construct(rule, "month names"), rule.where, und)
        else:
            rep.add("month-names", rule_construct(rule, "month names"), rule.where, bad is None,
                    bad or "24 names")
    rep.count("month_name_rules", n_rules, 2)


def _convention(m):
    """Summary of a two-digit-year map: fixed century offset(s) or reference-dependent."""
    by_y = {}
    for (ty, y), years in m.items():
        by_y.setdefault(y, set()).add(frozenset(years))
    if any(len(v) > 1 for v in by_y.values()):
        return "depends on the reference year"
    offs = sorted({yr - y for (ty, y), years in m.items() for yr in years if yr is not None})
    return "fixed offset {}".format(offs)
